"""C01 -- Sequence and Source are left-to-right composition.  C02 laziness clauses (at_yield / pulled) ride on the same
contracts.  Sidecar contracts of lena/core/{functions,adapters,sequence,source}.py (the repository is not edited).

Element interface (DESIGN 2.3 / 2.4 item 4): a user element `e` denotes  el_run(e, xs)  (stream transformer),
el_call(e, v), el_fill / el_compute (fold + final results).  Framework code is verified against these denotations."""
from pyvc.contracts import Contract, LoopSpec, ClassSpec

FN = "lena/core/functions.py"
AD = "lena/core/adapters.py"
SQ = "lena/core/sequence.py"
SO = "lena/core/source.py"


def register(ix):
    # ------------------------------------------------------------------ flow_to_iter
    ix.add(Contract(
        FN, "flow_to_iter", props=["C01", "C02"],
        cases=[
            Contract(FN, "flow_to_iter", name="flow_to_iter[iterator]",
                     params={"flow": "Iter[V]"}, result="Iter[V]",
                     result_alias="flow",
                     ensures=["pulled(flow) == old(pulled(flow))"]),
            Contract(FN, "flow_to_iter", name="flow_to_iter[list]",
                     params={"flow": "Lst[V]"}, result="Iter[V]",
                     ensures=["pulled(result) == 0", "same(content(result), flow)"]),
        ]))
    # ------------------------------------------------------------------ Run adapter
    ix.add_class(ClassSpec("Run", AD, fields={"_el": "Obj"}))
    ix.add(Contract(
        AD, "Run._call_run", props=["C01", "C02"],
        params={"self": "Self[Run]", "flow": "Iter[V]"}, generator=True, yields="V",
        requires=["pulled(flow) == 0"],
        loops={0: LoopSpec(invariant=[
            "len(out) == _i", "pulled(flow) == _i",
            "all(out[k] == el_call(self._el, content(flow)[k]) for k in range(_i))"])},
        # laziness (C02): when the k-th result is handed over exactly k input values have been pulled
        at_yield=["pulled(flow) == len(out) + 1"],
        ensures=["len(out) == len(content(flow))",
                 "all(out[k] == el_call(self._el, content(flow)[k]) for k in range(len(out)))",
                 "pulled(flow) == len(content(flow))"],
        modifies=["flow"]))
    ix.add(Contract(
        AD, "Run._fc_run", props=["C01"],
        params={"self": "Self[Run]", "flow": "Iter[V]"}, result="Iter[V]",
        requires=["pulled(flow) == 0"],
        loops={0: LoopSpec(invariant=[
            "pulled(flow) == _i",
            "elstate(self._el) == fold_fill(self._el, old(elstate(self._el)), content(flow), _i)"])},
        raises={"LenaStopFill": "?"},
        ensures=["pulled(flow) == len(content(flow))",
                 "elstate(self._el) == fold_fill(self._el, old(elstate(self._el)), content(flow), len(content(flow)))",
                 "pulled(result) == 0",
                 "same(content(result), el_compute(self._el, elstate(self._el)))"],
        modifies=["flow"], ghost={"elstate": True}))
    # ------------------------------------------------------------------ Sequence.run
    ix.add_class(ClassSpec("Sequence", SQ, fields={"_data_seq": "Lst[Obj]"}))
    ix.add(Contract(
        SQ, "Sequence.run", props=["C01", "C02"],
        params={"self": "Self[Sequence]", "flow": "Iter[V]"}, result="Iter[V]",
        requires=["pulled(flow) == 0"],
        loops={0: LoopSpec(invariant=[
            "pulled(flow) == 0",
            "same(content(flow), seq_run(self._data_seq, old(content(flow)), _i))",
            # laziness (C02): building the chain consumes nothing from the input
            "old(flow) is flow or pulled(old(flow)) == 0"])},
        ensures=["pulled(result) == 0",
                 "same(content(result), seq_run(self._data_seq, content(flow), len(self._data_seq)))",
                 "pulled(flow) == 0"]))
