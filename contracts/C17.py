"""C17 -- Slice.fill_into selects exactly range(start, stop, step); Reverse.run reverses.
Sidecar contracts of lena/flow/iterators.py.

`Slice.__init__` stores `self._indices = islice(itertools.count(0), start, stop, step)`: the arithmetic progression
start, start+step, ... below stop (library contract, tier A).  It is modelled by the ghost iterator kind `arith` whose
`next` returns the next member or raises StopIteration."""
from pyvc.contracts import Contract, LoopSpec, ClassSpec

IT = "lena/flow/iterators.py"


def in_S(i, step):
    return "({i} >= self._g_start and ({i} - self._g_start) % {k} == 0 and (not self._g_has_stop or {i} < self._g_stop))".format(i=i, k=step)


def register(ix):
    for step in (1, 2, 3, 4):
        cls = "Slice_step%d" % step
        ix.add_class(ClassSpec(
            cls, IT, alias_of="Slice",
            fields={"_index": "Int", "_next_index": "Int", "_g_start": "Int", "_g_stop": "Int", "_g_has_stop": "Bool",
                    "_indices": "Arith[_g_start,_g_stop,_g_has_stop,%d]" % step},
            invariant=[
                "self._g_start >= 0", "self._index >= 0",
                # before the first call nothing has been drawn; afterwards _next_index is the least selected index >= _index - 1
                "(self._next_index == -1 and self._index == 0 and arith_next(self._indices) == self._g_start) or "
                "(%s and self._next_index >= self._index - 1 and (self._next_index - %d < self._index - 1 or self._next_index == self._g_start) "
                "and arith_next(self._indices) == self._next_index + %d)" % (in_S("self._next_index", step), step, step),
            ]))
    cases = []
    for step in (1, 2, 3, 4):
        sel = in_S("old(self._index)", step)
        least = ("(self._g_start if old(self._index) <= self._g_start else "
                 "old(self._index) + ({k} - 1 - (old(self._index) - self._g_start + {k} - 1) % {k}))").format(k=step)
        later = "(not self._g_has_stop or %s < self._g_stop)" % least
        cases.append(Contract(
            IT, "Slice.fill_into", name="Slice.fill_into[step=%d]" % step,
            params={"self": "Self[Slice_step%d]" % step, "element": "Obj", "value": "V"}, result=None,
            ghost={"elstate": True},
            # LenaStopFill exactly when no index >= the current one is selected (so never while a later value could be)
            raises={"LenaStopFill": "not %s or (%s and el_fill_stops(element, old(elstate(element)), value))" % (later, sel)},
            ensures=["self._index == old(self._index) + 1",
                     "%s implies elstate(element) == el_fill(element, old(elstate(element)), value)" % sel,
                     "not %s implies elstate(element) == old(elstate(element))" % sel],
            modifies=["self._index", "self._next_index", "self._indices"]))
    ix.add(Contract(IT, "Slice.fill_into", props=["C17", "C05"], cases=cases,
                    notes="steps 1..4 (the property's range) are separate cases so that membership in the progression is "
                          "linear arithmetic; start / stop / index are unbounded integers"))
    ix.add_class(ClassSpec("Reverse", IT, fields={}))
    ix.add(Contract(
        IT, "Reverse.run", props=["C17"],
        params={"self": "Self[Reverse]", "flow": "Iter[V]"}, generator=True, yields="V",
        requires=["pulled(flow) == 0"],
        loops={0: LoopSpec(
            invariant=["len(out) + len(all_huge_flow) == len(content(flow))",
                       "all(out[k] == content(flow)[len(content(flow)) - 1 - k] for k in range(len(out)))",
                       "all(all_huge_flow[k] == content(flow)[k] for k in range(len(all_huge_flow)))"],
            decreases="len(all_huge_flow)")},
        ensures=["len(out) == len(content(flow))",
                 "all(out[k] == content(flow)[len(content(flow)) - 1 - k] for k in range(len(out)))"],
        modifies=["flow"]))

