"""sidecar contracts (see tools/CONTRACTS_GUIDE.md)"""
from pyvc.contracts import Contract, LoopSpec, ClassSpec


def register(ix):
    pass
