"""P_acc -- the remaining accumulators of C09 (documented aggregate, reset() equals a new element) and C04 (a yielded
context is a deep copy made for that very yield).  Sidecar contracts of lena/math/elements.py (DSum, VarianceMeanCount,
Vectorize), lena/structures/histogram.py (Histogram element), lena/flow/elements.py (StoreFilled.compute),
lena/flow/group_by.py (GroupBy).  Sum / Mean / Count / StoreFilled.fill are in C09.py.

Numbers are mathematical reals (DESIGN 2.4): a Decimal is the real it denotes, so "DSum is exact" reads
`_total == old(_total) + data` and rests on the library contract of decimal.Context.add (pyvc/lib_acc.py, tier A)."""
from pyvc.contracts import Contract, LoopSpec, ClassSpec
from pyvc.verify import Lemma

ME = "lena/math/elements.py"
FE = "lena/flow/elements.py"
HI = "lena/structures/histogram.py"
GB = "lena/flow/group_by.py"

PAIR = "Tuple[Real,Dict]"


# ---------------------------------------------------------------------------------------------- lemma builder
def reset_equals_new(cls, reset, observe, init_args=()):
    """lemma builder: `reset` on an ARBITRARY element of the class (object invariant assumed) leaves every observable
    place (spec expressions over `self`) equal to the one of a newly constructed element (default arguments).
    `observe` lists the places fill / compute depend on; configuration fields that no method changes are not compared."""
    from pyvc.calls import apply_contract, instantiate, eval_spec
    from pyvc.interp import VC, Unsupported
    from pyvc.smt import FALSE
    from pyvc.sym import Fun

    def build(ip, st):
        cs = ip.contracts.classes[cls]
        a = ip.make("Self[%s]" % cls, "a", st)
        for inv in cs.invariant:
            st.assume(eval_spec(ip, st, {"self": a}, inv))
        ip.entry = st.copy()
        ip.oldst = ip.entry
        k = ip.contracts.find_method(cls, reset)
        if k is None:
            raise Unsupported("no contract for %s.%s" % (cls, reset))
        s1 = apply_contract(ip, st, k, [a], {})[0][0]
        s2, b = instantiate(ip, s1, Fun("class", name=cls, mod=None), list(init_args), {})[0]
        for e in observe:
            ea, eb = e.replace("self", "a_"), e.replace("self", "b_")
            ip.emit("lemma", "reset-equals-new-element: %s" % e, s2,
                    eval_spec(ip, s2, {"a_": a, "b_": b}, "%s == %s" % (ea, eb)))
        ip.vcs.append(VC("cover requires", "cover", list(s2.pc), FALSE, ""))
    return build


def register(ix):
    register_dsum(ix)


# ---------------------------------------------------------------------------------------------- DSum
def register_dsum(ix):
    """`Calculate an accurate floating point sum using decimals`: the total is the exact sum of the filled values.  The fill
    loop depends on the decimal context trapping Inexact (otherwise Context.add silently rounds): that is the object
    invariant, so no method may replace or re-configure self._dcontext."""
    F = {"_total": "Dec", "_dcontext": "Inst[DecimalContext]", "_cur_context": "Dict"}
    ix.add_class(ClassSpec("DSum", ME, fields=F, invariant=["isdict(self._cur_context)", "self._dcontext.traps_inexact"]))
    ix.add_class(ClassSpec("DSum0", ME, fields={}, alias_of="DSum"))
    ix.add(Contract(ME, "DSum.__init__", props=["C09"],
                    params={"self": "Self[DSum0]", "total": "Real"}, defaults={"total": 0},
                    ensures=["self._total == total", "self._cur_context == emptydict()", "self._dcontext.traps_inexact"],
                    modifies=["self._total", "self._dcontext", "self._cur_context"]))
    # the precision loop: the total is untouched until an addition was exact; only the precision of the context grows
    LOOP = {0: LoopSpec(invariant=["self._total == old(self._total)", "self._dcontext is old(self._dcontext)",
                                   "self._dcontext.traps_inexact", "self._dcontext.prec >= old(self._dcontext.prec)"])}
    FRAME = ["self._total", "self._cur_context", "self._dcontext.prec"]
    ix.add(Contract(
        ME, "DSum.fill", props=["C09"],
        cases=[
            Contract(ME, "DSum.fill", name="DSum.fill[(data, context)]",
                     params={"self": "Self[DSum]", "value": PAIR}, requires=["isdict(value[1])"], loops=LOOP,
                     ensures=["self._total == old(self._total) + value[0]", "self._cur_context is value[1]"],
                     modifies=FRAME),
            Contract(ME, "DSum.fill", name="DSum.fill[bare data]",
                     params={"self": "Self[DSum]", "value": "Real"}, loops=LOOP,
                     ensures=["self._total == old(self._total) + value", "self._cur_context == emptydict()"],
                     modifies=FRAME),
        ]))
    ix.add(Contract(
        ME, "DSum.compute", props=["C09", "C04"],
        params={"self": "Self[DSum]"}, generator=True, yields="Any",
        at_yield=["self._cur_context implies is_deep_copy(yielded[1]) and is_fresh(yielded[1])"],
        ensures=["len(out) == 1",
                 "not self._cur_context implies out[0] == self._total",
                 "self._cur_context implies out[0][0] == self._total and out[0][1] == self._cur_context"]))
    ix.add(Contract(ME, "DSum.reset", props=["C09"],
                    params={"self": "Self[DSum]"},
                    # `Reset the sum to 0.  Context is reset to {}` -- and nothing else: the decimal context stays
                    ensures=["self._total == 0", "self._cur_context == emptydict()",
                             "self._dcontext is old(self._dcontext)", "self._dcontext.traps_inexact"],
                    modifies=["self._total", "self._cur_context"]))
    ix.lemmas.append(Lemma(
        "DSum: reset() equals a newly constructed element", ME, ["C09"],
        reset_equals_new("DSum", "reset", ["self._total", "self._cur_context", "self._dcontext.traps_inexact"]),
        notes="observable state: the total, the current context and the Inexact trap of the decimal context (with the trap "
              "set every addition is exact whatever precision earlier fills left behind, so `prec` is not observable)"))
