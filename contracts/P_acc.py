"""P_acc -- the remaining accumulators of C09 (documented aggregate, reset() equals a new element) and C04 (a yielded
context is a deep copy made for that very yield).  Sidecar contracts of lena/math/elements.py (DSum, VarianceMeanCount,
Vectorize), lena/structures/histogram.py (Histogram element), lena/flow/elements.py (StoreFilled.compute),
lena/flow/group_by.py (GroupBy).  Sum / Mean / Count / StoreFilled.fill are in C09.py.

Numbers are mathematical reals (DESIGN 2.4): a Decimal is the real it denotes, so "DSum is exact" reads
`_total == old(_total) + data` and rests on the library contract of decimal.Context.add (pyvc/lib_acc.py, tier A)."""
from pyvc.contracts import Contract, LoopSpec, ClassSpec
from pyvc.verify import Lemma

ME = "lena/math/elements.py"
FE = "lena/flow/elements.py"
HI = "lena/structures/histogram.py"
GB = "lena/flow/group_by.py"

PAIR = "Tuple[Real,Dict]"


# ---------------------------------------------------------------------------------------------- lemma builder
def reset_equals_new(cls, reset, observe, init_args=()):
    """lemma builder: `reset` on an ARBITRARY element of the class (object invariant assumed) leaves every observable
    place (spec expressions over `self`) equal to the one of a newly constructed element (default arguments).
    `observe` lists the places fill / compute depend on; configuration fields that no method changes are not compared."""
    from pyvc.calls import apply_contract, instantiate, eval_spec
    from pyvc.interp import VC, Unsupported
    from pyvc.smt import FALSE
    from pyvc.sym import Fun

    def build(ip, st):
        cs = ip.contracts.classes[cls]
        a = ip.make("Self[%s]" % cls, "a", st)
        for inv in cs.invariant:
            st.assume(eval_spec(ip, st, {"self": a}, inv))
        ip.entry = st.copy()
        ip.oldst = ip.entry
        k = ip.contracts.find_method(cls, reset)
        if k is None:
            raise Unsupported("no contract for %s.%s" % (cls, reset))
        s1 = apply_contract(ip, st, k, [a], {})[0][0]
        args = init_args(ip, s1, a) if callable(init_args) else list(init_args)      # (configuration taken from `a`)
        s2, b = instantiate(ip, s1, Fun("class", name=cls, mod=None), args, {})[0]
        for e in observe:
            ea, eb = e.replace("self", "a_"), e.replace("self", "b_")
            ip.emit("lemma", "reset-equals-new-element: %s" % e, s2,
                    eval_spec(ip, s2, {"a_": a, "b_": b}, "%s == %s" % (ea, eb)))
        ip.vcs.append(VC("cover requires", "cover", list(s2.pc), FALSE, ""))
    return build


def reset_forgets_history(cls, reset, same_config, observe):
    """lemma builder for an element whose constructor is not under contract: two elements with the same configuration
    (`same_config`: fields holding the same component elements) and ARBITRARY, different histories (own field values, own
    component states) are indistinguishable after `reset` -- every expression in `observe` (over self and the component
    states elstate(..), evaluated in each of the two post-states) has the same value.  Together with `the context of a new element is {}` (what
    __init__ assigns) and the element interface (el_reset(e) is the state of a new e) this is `reset() equals a new element`."""
    from pyvc.calls import eval_spec
    from pyvc.interp import VC, Unsupported
    from pyvc.smt import FALSE
    from pyvc.sym import Opaque

    def build(ip, st):
        cs = ip.contracts.classes[cls]
        k = ip.contracts.find_method(cls, reset)
        if k is None or k.cases or k.requires or k.raises:
            raise Unsupported("reset_forgets_history: %s.%s needs one plain contract" % (cls, reset))
        ip.reg.need("Obj")
        ip.reg.need("St")
        objs, posts = {}, {}
        for tag in ("a", "b"):
            o = ip.make("Self[%s]" % cls, tag, st)
            objs[tag] = o
            for inv in cs.invariant:
                st.assume(eval_spec(ip, st, {"self": o}, inv))
        for f in same_config:
            st.assume(eval_spec(ip, st, {"a_": objs["a"], "b_": objs["b"]}, "same(a_.%s, b_.%s)" % (f, f)))
        ip.entry = st.copy()
        ip.oldst = ip.entry
        for tag in ("a", "b"):
            # the post-state of reset() on this element: modified fields and the component states are arbitrary but for `ensures`
            from pyvc.calls import do_havoc
            env = {"self": objs[tag]}
            do_havoc(ip, st, k, env)
            env["$elst"] = Opaque(ip.reg.new("elst_" + tag, "(Array Obj St)"))
            env["result"] = None
            for cl in k.ensures:
                st.assume(eval_spec(ip, st, env, cl, old=ip.entry))
            posts[tag] = env["$elst"]
        for e in observe:
            va = eval_value(ip, st, {"self": objs["a"], "$elst": posts["a"]}, e)
            vb = eval_value(ip, st, {"self": objs["b"], "$elst": posts["b"]}, e)
            ip.emit("lemma", "reset-forgets-history: %s" % e, st,
                    view_eq(ip, st, va, vb) if is_view(va) else ip.py_eq(st, va, vb))
        ip.vcs.append(VC("cover requires", "cover", list(st.pc), FALSE, ""))
    return build


def eval_value(ip, st, env, text):
    """value of a spec expression (not its truth)"""
    from pyvc.calls import spec_state
    ip.spec_mode += 1
    try:
        return ip.ev1(ip.contracts_parse(text), spec_state(st, env))
    finally:
        ip.spec_mode -= 1


def is_view(v):
    from pyvc.sym import View
    return isinstance(v, View)


def view_eq(ip, st, va, vb):
    """pointwise equality of two symbolic sequences of element states (same length, every index)"""
    from pyvc.smt import T, EQ, AND
    q = T("lq%d" % next(ip.bound), "Int")
    ip.spec_mode += 1            # the items of a comprehension are evaluated on demand: still specification code
    try:
        body = ip.py_eq(st, va.get(q), vb.get(q))
    finally:
        ip.spec_mode -= 1
    return AND(EQ(va.len, vb.len),
               T("(forall ((%s Int)) (=> (and (<= 0 %s) (< %s %s)) %s))" % (q.s, q.s, q.s, va.len.s, body.s), "Bool"))


def register(ix):
    register_dsum(ix)
    register_vmc(ix)
    register_histogram_el(ix)
    register_vectorize(ix)
    register_storefilled(ix)
    register_groupby(ix)


# ---------------------------------------------------------------------------------------------- DSum
def register_dsum(ix):
    """`Calculate an accurate floating point sum using decimals`: the total is the exact sum of the filled values.  The fill
    loop depends on the decimal context trapping Inexact (otherwise Context.add silently rounds): that is the object
    invariant, so no method may replace or re-configure self._dcontext."""
    F = {"_total": "Dec", "_dcontext": "Inst[DecimalContext]", "_cur_context": "Dict"}
    ix.add_class(ClassSpec("DSum", ME, fields=F, invariant=["isdict(self._cur_context)", "self._dcontext.traps_inexact"]))
    ix.add_class(ClassSpec("DSum0", ME, fields={}, alias_of="DSum"))
    ix.add(Contract(ME, "DSum.__init__", props=["C09"],
                    params={"self": "Self[DSum0]", "total": "Real"}, defaults={"total": 0},
                    ensures=["self._total == total", "self._cur_context == emptydict()", "self._dcontext.traps_inexact"],
                    modifies=["self._total", "self._dcontext", "self._cur_context"]))
    # the precision loop: the total is untouched until an addition was exact; only the precision of the context grows
    LOOP = {0: LoopSpec(invariant=["self._total == old(self._total)", "self._dcontext is old(self._dcontext)",
                                   "self._dcontext.traps_inexact", "self._dcontext.prec >= old(self._dcontext.prec)"])}
    FRAME = ["self._total", "self._cur_context", "self._dcontext.prec"]
    ix.add(Contract(
        ME, "DSum.fill", props=["C09"],
        cases=[
            Contract(ME, "DSum.fill", name="DSum.fill[(data, context)]",
                     params={"self": "Self[DSum]", "value": PAIR}, requires=["isdict(value[1])"], loops=LOOP,
                     ensures=["self._total == old(self._total) + value[0]", "self._cur_context is value[1]"],
                     modifies=FRAME),
            Contract(ME, "DSum.fill", name="DSum.fill[bare data]",
                     params={"self": "Self[DSum]", "value": "Real"}, loops=LOOP,
                     ensures=["self._total == old(self._total) + value", "self._cur_context == emptydict()"],
                     modifies=FRAME),
        ]))
    ix.add(Contract(
        ME, "DSum.compute", props=["C09", "C04"],
        params={"self": "Self[DSum]"}, generator=True, yields="Any",
        at_yield=["self._cur_context implies is_deep_copy(yielded[1]) and is_fresh(yielded[1])"],
        ensures=["len(out) == 1",
                 "not self._cur_context implies out[0] == self._total",
                 "self._cur_context implies out[0][0] == self._total and out[0][1] == self._cur_context"]))
    ix.add(Contract(ME, "DSum.reset", props=["C09"],
                    params={"self": "Self[DSum]"},
                    # `Reset the sum to 0.  Context is reset to {}` -- and nothing else: the decimal context stays
                    ensures=["self._total == 0", "self._cur_context == emptydict()",
                             "self._dcontext is old(self._dcontext)", "self._dcontext.traps_inexact"],
                    modifies=["self._total", "self._cur_context"]))
    ix.lemmas.append(Lemma(
        "DSum: reset() equals a newly constructed element", ME, ["C09"],
        reset_equals_new("DSum", "reset", ["self._total", "self._cur_context", "self._dcontext.traps_inexact"]),
        notes="observable state: the total, the current context and the Inexact trap of the decimal context (with the trap "
              "set every addition is exact whatever precision earlier fills left behind, so `prec` is not observable)"))


# ---------------------------------------------------------------------------------------------- VarianceMeanCount
def register_vmc(ix):
    """`Calculate the sample variance of input values`: with Q = sum of squares, S = sum, n = count of the filled values
    compute yields variance_mean_count(Q/n - (S/n)**2 [* n/(n-1) if corrected], S/n, n).  The two inner sums are Sum
    elements (the default) that only ever see bare data: their own context stays empty -- the object invariant, and what
    `sum_sq / count` in compute relies on.  The two sums are different objects (no aliasing between the fields)."""
    # a Sum whose context is empty yields the bare total: the view of Sum.compute that VarianceMeanCount.compute uses
    ix.add_class(ClassSpec("SumPlain", ME, fields={"_total": "Real", "_cur_context": "Dict"}, alias_of="Sum",
                           invariant=["isdict(self._cur_context)", "not self._cur_context"]))
    ix.add(Contract(ME, "Sum.compute", qualkey="SumPlain.compute", name="Sum.compute[empty context]", props=["C09"],
                    params={"self": "Self[SumPlain]"}, generator=True, yields="Real",
                    requires=["not self._cur_context"],
                    ensures=["len(out) == 1", "out[0] == self._total"]))
    F = {"_sum_sq": "Inst[SumPlain]", "_sum": "Inst[SumPlain]", "_pass_on_empty": "Bool", "_corrected": "Bool",
         "_count": "Int", "_cur_context": "Dict"}
    INNER = ["isdict(self._sum_sq._cur_context)", "not self._sum_sq._cur_context",
             "isdict(self._sum._cur_context)", "not self._sum._cur_context"]
    EMPTY = ["self._sum_sq._cur_context == emptydict()", "self._sum._cur_context == emptydict()"]
    ix.add_class(ClassSpec("VarianceMeanCount", ME, fields=F,
                           invariant=["isdict(self._cur_context)", "self._count >= 0"] + INNER))
    ix.add_class(ClassSpec("VarianceMeanCount0", ME, fields={}, alias_of="VarianceMeanCount"))
    ix.add(Contract(
        ME, "VarianceMeanCount.__init__", props=["C09"],
        params={"self": "Self[VarianceMeanCount0]", "sum_sq": "None", "sum_": "None", "corrected": "Bool", "pass_on_empty": "Bool"},
        defaults={"sum_sq": None, "sum_": None, "corrected": True, "pass_on_empty": False},
        ensures=["self._sum_sq._total == 0", "self._sum._total == 0", "self._sum_sq is not self._sum", "self._count == 0",
                 "self._cur_context == emptydict()", "self._corrected == corrected", "self._pass_on_empty == pass_on_empty",
                 # `If they both can be reset, this object has also a reset() method`
                 "has_attr(self, 'reset')"] + INNER + EMPTY,
        modifies=["self._sum_sq", "self._sum", "self.reset", "self._pass_on_empty", "self._corrected", "self._count",
                  "self._cur_context"]))
    FILLED = ["self._sum_sq._total", "self._sum_sq._cur_context", "self._sum._total", "self._sum._cur_context",
              "self._count", "self._cur_context"]
    ix.add(Contract(
        ME, "VarianceMeanCount.fill", props=["C09"],
        cases=[
            Contract(ME, "VarianceMeanCount.fill", name="VarianceMeanCount.fill[(data, context)]",
                     params={"self": "Self[VarianceMeanCount]", "value": PAIR}, requires=["isdict(value[1])"],
                     ensures=["self._sum_sq._total == old(self._sum_sq._total) + value[0] * value[0]",
                              "self._sum._total == old(self._sum._total) + value[0]",
                              "self._count == old(self._count) + 1", "self._cur_context is value[1]"],
                     modifies=FILLED),
            Contract(ME, "VarianceMeanCount.fill", name="VarianceMeanCount.fill[bare data]",
                     params={"self": "Self[VarianceMeanCount]", "value": "Real"},
                     ensures=["self._sum_sq._total == old(self._sum_sq._total) + value * value",
                              "self._sum._total == old(self._sum._total) + value",
                              "self._count == old(self._count) + 1", "self._cur_context == emptydict()"],
                     modifies=FILLED),
        ]))
    MEAN = "(self._sum._total / self._count)"
    VAR0 = "(self._sum_sq._total / self._count - %s * %s)" % (MEAN, MEAN)
    VAR = "(%s * (self._count / (self._count - 1)) if self._corrected else %s)" % (VAR0, VAR0)
    RES = "{r}[0] == %s and {r}[1] == %s and {r}[2] == self._count and len({r}) == 3" % (VAR, MEAN)
    ix.add(Contract(
        ME, "VarianceMeanCount.compute", props=["C09", "C04"],
        params={"self": "Self[VarianceMeanCount]"}, generator=True, yields="Any",
        # `If no values were filled ... LenaZeroDivisionError is raised.  This can be changed to yielding nothing if
        # pass_on_empty ...  If the sample contained only one element and corrected is True, [it] is always raised`
        raises={"LenaZeroDivisionError": "(self._count == 0 and not self._pass_on_empty) or (self._count == 1 and self._corrected)"},
        at_yield=["self._cur_context implies is_deep_copy(yielded[1]) and is_fresh(yielded[1])"],
        ensures=["self._count == 0 implies len(out) == 0",
                 "self._count != 0 implies len(out) == 1",
                 "self._count != 0 and not self._cur_context implies " + RES.format(r="out[0]"),
                 "self._count != 0 and self._cur_context implies len(out[0]) == 2 and out[0][1] == self._cur_context",
                 "self._count != 0 and self._cur_context implies " + RES.format(r="out[0][0]")]))
    ix.add(Contract(ME, "VarianceMeanCount._reset", props=["C09"],
                    params={"self": "Self[VarianceMeanCount]"},
                    ensures=["self._sum_sq._total == 0", "self._sum._total == 0", "self._count == 0",
                             "self._cur_context == emptydict()"] + EMPTY,
                    modifies=FILLED))
    ix.lemmas.append(Lemma(
        "VarianceMeanCount: reset() equals a newly constructed element", ME, ["C09"],
        reset_equals_new("VarianceMeanCount", "_reset",
                         ["self._sum_sq._total", "self._sum_sq._cur_context", "self._sum._total", "self._sum._cur_context",
                          "self._count", "self._cur_context"]),
        notes="over the contracts of _reset (installed as reset by __init__) and __init__ with default arguments; the "
              "configuration (corrected, pass_on_empty) is not state"))


# ---------------------------------------------------------------------------------------------- Histogram (element)
def register_histogram_el(ix):
    """`An element to produce histograms`: fill hands the data part to the histogram structure (histogram.fill of C06 with
    the default weight 1) and keeps the context of the value; compute yields (histogram, deep copy of that context);
    reset installs a NEW structure with the initial bins (so that histograms yielded earlier stay intact)."""
    import contracts.C06 as C06
    # the source default `weight=1` of histogram.fill (Histogram.fill calls it with the data only)
    for case in ix.by_key[(HI, "histogram.fill")].cases:
        case.defaults.setdefault("weight", 1)
    # the constructor stores the very lists it is given (`self.edges = edges`, `self.bins = bins`): stated as identity so
    # that callers see the aliasing (Histogram.reset must hand over a COPY of its initial bins)
    k = ix.by_key.get((HI, "histogram.__init__"))
    for case in (k.cases if k is not None and k.cases else []):
        if "self.edges is edges" not in case.ensures:
            case.ensures.append("self.edges is edges")
        if case.params.get("bins", "None") != "None" and "self.bins is bins" not in case.ensures:
            case.ensures.append("self.bins is bins")
    F1 = {"_hist": "Inst[histogram_d1]", "_cur_context": "Dict", "_make_bins": "None", "_initial_bins": "None",
          "_initial_value": "Real"}
    ix.add_class(ClassSpec("Histogram", HI, fields=F1, invariant=["isdict(self._cur_context)"] + [
        i.replace("self.", "self._hist.") for i in ix.classes["histogram_d1"].invariant]))
    F2 = dict(F1, _hist="Inst[histogram_d2]")
    ix.add_class(ClassSpec("Histogram_d2", HI, fields=F2, alias_of="Histogram", invariant=["isdict(self._cur_context)"] + [
        i.replace("self.", "self._hist.") for i in ix.classes["histogram_d2"].invariant]))
    H = "self._hist"
    FILL1 = ["len({h}.bins) == old(len({h}.bins))".format(h=H),
             "all({h}.bins[i] == old({h}.bins[i]) + (1 if ({h}.edges[i] <= {d} < {h}.edges[i + 1]) else 0)"
             " for i in range(len({h}.bins)))",
             "{h}.n_out_of_range == old({h}.n_out_of_range) + (0 if ({h}.edges[0] <= {d} < {h}.edges[len({h}.edges) - 1]) else 1)",
             "{h} is old({h})"]
    IN2 = "({h}.edges[0][i] <= {d}[0] < {h}.edges[0][i + 1] and {h}.edges[1][j] <= {d}[1] < {h}.edges[1][j + 1])"
    RNG2 = "({h}.edges[0][0] <= {d}[0] < {h}.edges[0][len({h}.edges[0]) - 1] and {h}.edges[1][0] <= {d}[1] < {h}.edges[1][len({h}.edges[1]) - 1])"
    FILL2 = ["len({h}.bins) == old(len({h}.bins))",
             "all(len({h}.bins[i]) == old(len({h}.bins[i])) for i in range(len({h}.bins)))",
             "all(all({h}.bins[i][j] == old({h}.bins[i][j]) + (1 if " + IN2 + " else 0)"
             " for j in range(len({h}.bins[i]))) for i in range(len({h}.bins)))",
             "{h}.n_out_of_range == old({h}.n_out_of_range) + (0 if " + RNG2 + " else 1)",
             "{h} is old({h})"]
    MOD = ["self._hist.bins", "self._hist.n_out_of_range", "self._cur_context"]

    def fill_case(name, selfty, valty, data, clauses, ctx, req=()):
        return Contract(HI, "Histogram.fill", name="Histogram.fill[%s]" % name,
                        params={"self": selfty, "value": valty}, requires=list(req),
                        ensures=[c.format(h=H, d=data) for c in clauses] + [ctx], modifies=MOD)
    ix.add(Contract(
        HI, "Histogram.fill", props=["C09", "C06"],
        cases=[
            fill_case("dim=1, (data, context)", "Self[Histogram]", PAIR, "value[0]", FILL1,
                      "self._cur_context is value[1]", ["isdict(value[1])"]),
            fill_case("dim=1, bare data", "Self[Histogram]", "Real", "value", FILL1, "self._cur_context == emptydict()"),
            fill_case("dim=2, (data, context)", "Self[Histogram_d2]", "Tuple[Tuple[Real,Real],Dict]", "value[0]", FILL2,
                      "self._cur_context is value[1]", ["isdict(value[1])"]),
            fill_case("dim=2, bare data", "Self[Histogram_d2]", "Tuple[Real,Real]", "value", FILL2,
                      "self._cur_context == emptydict()"),
        ]))
    ix.add(Contract(
        HI, "Histogram.compute", props=["C09", "C04"],
        params={"self": "Self[Histogram]"}, generator=True, yields="Any",
        # `Yield histogram with context`: the context handed out is a deep copy (also when it is empty)
        at_yield=["is_deep_copy(yielded[1])", "is_fresh(yielded[1])", "yielded[0] is self._hist"],
        ensures=["len(out) == 1", "len(out[0]) == 2", "out[0][0] is self._hist", "out[0][1] == self._cur_context"]))
    # ---- reset / __init__ (one-dimensional; histogram.__init__ and init_bins are under contract in P_hist.py)
    ix.add_class(ClassSpec("Histogram0", HI, fields={}, alias_of="Histogram"))
    ix.add_class(ClassSpec("Histogram_ib", HI, fields=dict(F1, _initial_bins="Lst[Real]"), alias_of="Histogram",
                           invariant=ix.classes["Histogram"].invariant + ["len(self._initial_bins) == len(self._hist.edges) - 1"]))
    NEW = ["self._hist is not old(self._hist)",          # `a new structure ... earlier yielded histograms stay intact`
           "self._hist.edges == old(self._hist.edges)", "len(self._hist.bins) == len(self._hist.edges) - 1",
           "self._hist.n_out_of_range == 0", "self._hist.dim == 1", "self._cur_context == emptydict()"]
    ix.add(Contract(
        HI, "Histogram.reset", props=["C09", "C06"],   # C06: weight conservation "for the Histogram element alike", also when reused
        cases=[
            Contract(HI, "Histogram.reset", name="Histogram.reset[initial value]",
                     params={"self": "Self[Histogram]"},
                     ensures=NEW + ["all(self._hist.bins[i] == self._initial_value for i in range(len(self._hist.bins)))"],
                     modifies=["self._hist", "self._cur_context"]),
        ]))
    ix.add(Contract(
        HI, "Histogram.reset", qualkey="Histogram_ib.reset", name="Histogram.reset[initial bins]", props=["C09", "C06"],
        params={"self": "Self[Histogram_ib]"},
        # the initial bins are copied: filling the new structure must not change them
        ensures=NEW + ["self._hist.bins == self._initial_bins", "self._hist.bins is not self._initial_bins"],
        modifies=["self._hist", "self._cur_context"]))
    BAD_EDGES = "len(edges) <= 1 or not " + C06.incr("edges")
    ix.add(Contract(
        HI, "Histogram.__init__", props=["C09", "C06"],
        params={"self": "Self[Histogram0]", "edges": "Lst[Real]", "bins": "None", "make_bins": "None", "initial_value": "Real"},
        defaults={"bins": None, "make_bins": None, "initial_value": 0},
        raises={"LenaValueError": BAD_EDGES},
        ensures=["self._hist.edges == edges", "len(self._hist.bins) == len(edges) - 1",
                 "all(self._hist.bins[i] == initial_value for i in range(len(self._hist.bins)))",
                 "self._hist.n_out_of_range == 0", "self._hist.dim == 1", "self._cur_context == emptydict()",
                 "self._initial_value == initial_value", "self._initial_bins is None", "self._make_bins is None"],
        modifies=["self._hist", "self._cur_context", "self._initial_bins", "self._initial_value", "self._make_bins"]))

    def same_config(ip, st, a):
        from pyvc.sym import NONE
        h = st.heap[st.heap[a.cid].fields["_hist"].cid]
        return [h.fields["edges"], NONE, NONE, st.heap[a.cid].fields["_initial_value"]]
    ix.lemmas.append(Lemma(
        "Histogram: reset() equals a newly constructed element", HI, ["C09"],
        reset_equals_new("Histogram", "reset", ["self._hist.edges", "self._hist.bins", "self._hist.n_out_of_range",
                                                "self._hist.dim", "self._cur_context"], same_config),
        notes="one-dimensional, bins from the initial value; the new element is built from the same edges and initial value"))


# ---------------------------------------------------------------------------------------------- Vectorize
def register_vectorize(ix):
    """`Apply an algorithm to a vector component-wise`.  The component sequences are abstract FillCompute elements
    (el_fill / el_compute / el_reset denotations, DESIGN 2.3); they are pairwise different objects (the object invariant:
    __init__ makes deep copies of one sequence, or takes a list of the user's sequences).  `construct` is None (default)."""
    DISTINCT = ("all(all(implies(i != j, self._seqs[i] is not self._seqs[j]) for j in range(len(self._seqs))) "
                "for i in range(len(self._seqs)))")
    ix.add_class(ClassSpec("Vectorize", ME,
                           fields={"_seqs": "Lst[Obj]", "_fc_els": "Lst[Obj]", "_construct": "None", "_dim": "Int",
                                   "_cur_context": "Dict"},
                           invariant=["isdict(self._cur_context)", DISTINCT]))
    FILLED = "elstate(self._seqs[k]) == el_fill(self._seqs[k], old(elstate(self._seqs[k])), {d}[k])"

    def fill_case(name, valty, d, ctx, req=()):
        return Contract(
            ME, "Vectorize.fill", name="Vectorize.fill[%s]" % name, ghost={"elstate": True},
            params={"self": "Self[Vectorize]", "val": valty}, requires=list(req),
            # `can raise if data is not of a sufficient length`
            raises={"IndexError": "len(%s) < len(self._seqs)" % d},
            loops={0: LoopSpec(invariant=[
                "_i <= len(%s)" % d,
                "all(%s for k in range(_i))" % FILLED.format(d=d),
                "all(implies(k >= _i, elstate(self._seqs[k]) == old(elstate(self._seqs[k]))) for k in range(len(self._seqs)))"])},
            # every component sequence is filled exactly once, with its own component of the data
            at_call={"fill": ["call_args[0] == %s[ind]" % d, "seq is self._seqs[ind]", "ind == _i"]},
            ensures=["all(%s for k in range(len(self._seqs)))" % FILLED.format(d=d), ctx],
            modifies=["self._cur_context"])
    ix.add(Contract(
        ME, "Vectorize.fill", props=["C09"],
        cases=[fill_case("(data, context)", "Tuple[Lst[V],Dict]", "val[0]", "self._cur_context is val[1]", ["isdict(val[1])"]),
               fill_case("bare data", "Lst[V]", "val", "self._cur_context == emptydict()")]))
    # ---- compute: row j of the output holds the j-th result of every component that has one, None for the others
    RK = "el_compute(self._seqs[k], elstate(self._seqs[k]))"
    ROW = ("isinstance({r}, tuple) and len({r}) == len(self._seqs) and "
           "all(implies(yield_count() < len(%s), {r}[k] == %s[yield_count()]) and "
           "implies(yield_count() >= len(%s), {r}[k] is None) for k in range(len(self._seqs)))" % (RK, RK, RK))
    ix.add(Contract(
        ME, "Vectorize.compute", props=["C09", "C04"], ghost={"elstate": True},
        params={"self": "Self[Vectorize]"}, generator=True, yields="Any",
        loops={0: LoopSpec(invariant=["pulled(it) == yield_count()"], decreases="len(content(it)) - pulled(it)")},
        at_yield=[
            # C04: every yielded context is a deep copy made for this very yield (in this iteration of the loop)
            "self._cur_context implies is_deep_copy(yielded[1]) and made_in_iteration(yielded[1], 0)",
            "self._cur_context implies len(yielded) == 2 and yielded[1] == self._cur_context",
            "self._cur_context implies " + ROW.format(r="yielded[0]"),
            "not self._cur_context implies " + ROW.format(r="yielded")],
        # `the longest output is yielded (the others are padded with None)`: as many rows as the longest component has
        ensures=["all(len(%s) <= yield_count() for k in range(len(self._seqs)))" % RK,
                 "len(self._seqs) > 0 implies any(len(%s) == yield_count() for k in range(len(self._seqs)))" % RK,
                 "len(self._seqs) == 0 implies yield_count() == 0"]))
    ix.add(Contract(
        ME, "Vectorize._reset", props=["C09"], ghost={"elstate": True},
        params={"self": "Self[Vectorize]"},
        loops={0: LoopSpec(invariant=["all(elstate(self._fc_els[k]) == el_reset(self._fc_els[k]) for k in range(_i))"])},
        ensures=["all(elstate(self._fc_els[k]) == el_reset(self._fc_els[k]) for k in range(len(self._fc_els)))",
                 "self._cur_context == emptydict()"],
        modifies=["self._cur_context"]))
    ix.lemmas.append(Lemma(
        "Vectorize: reset() forgets the history", ME, ["C09"],
        reset_forgets_history("Vectorize", "_reset", ["_seqs", "_fc_els"],
                              ["self._cur_context", "[elstate(self._fc_els[k]) for k in range(len(self._fc_els))]"]),
        notes="Vectorize.__init__ is not under contract (it reads optional attributes of abstract elements); the lemma is "
              "over the contract of _reset only: context {} (what __init__ assigns) and every component in its el_reset state"))


# ---------------------------------------------------------------------------------------------- StoreFilled.compute
def register_storefilled(ix):
    """`Yield the collected values`: as one group -- a COPY of the list (`if we yield several times without reset, the
    results will be interdependent`) -- or one by one, in the order of the fills.  (fill / reset: C09.py.)"""
    F = {"group": "Lst[V]", "_yield_as_a_group": "Bool"}
    ix.add_class(ClassSpec("StoreFilled_group", FE, fields=F, alias_of="StoreFilled", invariant=["self._yield_as_a_group"]))
    ix.add_class(ClassSpec("StoreFilled_single", FE, fields=F, alias_of="StoreFilled", invariant=["not self._yield_as_a_group"]))
    ix.add(Contract(
        FE, "StoreFilled.compute", props=["C09", "C04"],
        cases=[
            Contract(FE, "StoreFilled.compute", name="StoreFilled.compute[as a group]",
                     params={"self": "Self[StoreFilled_group]"}, generator=True, yields="Any",
                     at_yield=["is_fresh(yielded)", "yielded is not self.group"],
                     ensures=["len(out) == 1", "out[0] == self.group", "out[0] is not self.group",
                              "self.group == old(self.group)"]),
            Contract(FE, "StoreFilled.compute", name="StoreFilled.compute[one by one]",
                     params={"self": "Self[StoreFilled_single]"}, generator=True, yields="V",
                     loops={0: LoopSpec(invariant=["len(out) == _i", "all(out[k] == self.group[k] for k in range(_i))"])},
                     at_yield=["yielded == self.group[len(out)]"],
                     ensures=["len(out) == len(self.group)", "all(out[k] == self.group[k] for k in range(len(out)))",
                              "self.group == old(self.group)"]),
        ]))


# ---------------------------------------------------------------------------------------------- GroupBy
CF = "lena/context/functions.py"
IE = "lena/context/include_exclude_tree.py"


def _ufun_spec(name, argsorts, ressort):
    """an uninterpreted specification function over Val / Obj arguments"""
    def fn(ip, st, pos, kws):
        from pyvc.dicts import dterm
        from pyvc.smt import T
        from pyvc.sym import Opaque, Bool as SBool
        f = ip.reg.ufun(name, argsorts, ressort)
        args = []
        for v, so in zip(pos, argsorts):
            args.append(dterm(ip, st, v).s if so == "Val" else v.t.s)
        t = T("(%s %s)" % (f, " ".join(args)), ressort)
        return SBool(t) if ressort == "Bool" else Opaque(t)
    return fn


def register_groupby(ix):
    """`Group values`: groups maps a key -- a string computed from the CONTEXT of the value (the part selected by the
    include / exclude tree built from group_by and merge, rendered by to_string) -- to the list of the values with that
    key, in the order of the fills.  The key function is uninterpreted here:  key(val) = json_canonical(iet_get(tree, ctx))
    (to_string: P_ctx.py; IncludeExcludeTree.get: assumed to be a function of the tree and the context)."""
    # vocabulary of P_ctx.py (registered there after this module; the same names are used if it is absent)
    ix.spec_names.setdefault("json_canonical", _ufun_spec("json_canonical", ["Val"], "Key"))
    ix.spec_names.setdefault("json_unserializable", _ufun_spec("json_unserializable", ["Val"], "Bool"))
    ix.spec_names["iet_get"] = _ufun_spec("iet_get", ["Obj", "Val"], "Val")
    if (CF, "to_string") not in ix.by_key:
        ix.add(Contract(CF, "to_string", props=[], trusted=True, params={"d": "Val"}, result="Str",
                        raises={"LenaValueError": "json_unserializable(d)"}, ensures=["result == json_canonical(d)"],
                        notes="stand-in until P_ctx.py registers the verified contract of to_string (same vocabulary)"))
    ix.add_class(ClassSpec("IncludeExcludeTree", IE, fields={}))
    ix.add(Contract(IE, "IncludeExcludeTree.get", props=[], trusted=True,
                    params={"self": "Self[IncludeExcludeTree]", "d": "Dict"}, result="Val",
                    ensures=["result == iet_get(ident(self), d)"],
                    notes="assumed: the selected part of a context is a function of the tree and the context's value; "
                          "neither is changed"))
    ix.add_class(ClassSpec("GroupBy", GB, fields={"groups": "KeyMap[V]", "_iet": "Inst[IncludeExcludeTree]"}))
    KD = "iet_get(ident(self._iet), vctx(val))"
    K = "json_canonical(%s)" % KD
    G, G0 = "group(self.groups, %s)" % K, "old(group(self.groups, %s))" % K
    ix.add(Contract(
        GB, "GroupBy.fill", props=["C09"],
        params={"self": "Self[GroupBy]", "val": "V"},
        # `If a formatting key was not found for val ... LenaValueError is raised`
        raises={"LenaValueError": "json_unserializable(%s)" % KD},
        ensures=[
            "has_group(self.groups, %s)" % K,
            # `If no such key exists, a new group is created`
            "not old(has_group(self.groups, %s)) implies len(%s) == 1 and %s[0] == val" % (K, G, G),
            # otherwise the value is appended to its group: the earlier members stay, in order
            "old(has_group(self.groups, %s)) implies len(%s) == len(%s) + 1 and %s[len(%s)] == val and "
            "all(%s[i] == %s[i] for i in range(len(%s)))" % (K, G, G0, G, G0, G, G0, G0),
            # every other group is untouched, no other key appears or disappears
            "all_keys(lambda k: k == %s or (has_group(self.groups, k) == old(has_group(self.groups, k)) and "
            "same(group(self.groups, k), old(group(self.groups, k)))))" % K],
        modifies=["self.groups"]))
    ix.add(Contract(
        GB, "GroupBy.compute", props=["C09"],
        params={"self": "Self[GroupBy]"}, generator=True, yields="Lst[V]",
        loops={0: LoopSpec(invariant=[
            "all_keys(lambda k: implies(seen(k), any(same(out[i], group(self.groups, k)) for i in range(len(out)))))"])},
        # `Yield values groupped by distinct keys one by one`: every yield is the group of a key not yielded before ...
        at_yield=["has_group(self.groups, _key)", "not seen(_key)", "same(yielded, group(self.groups, _key))"],
        # ... and every group is yielded
        ensures=["all_keys(lambda k: implies(has_group(self.groups, k), "
                 "any(same(out[i], group(self.groups, k)) for i in range(len(out)))))"]))
    ix.add(Contract(GB, "GroupBy.reset", props=["C09"],
                    params={"self": "Self[GroupBy]"},
                    ensures=["all_keys(lambda k: not has_group(self.groups, k))"],          # `Remove all groups`
                    modifies=["self.groups"]))
    # ---- C04 read literally (`every context yielded by a framework accumulator's compute() shares no mutable object with the
    # context of any value that was filled`) FAILS for StoreFilled: the group is copied, the values -- and their context
    # dictionaries -- are the very objects that were filled.  Not registered by default (it is a finding on the unchanged
    # tree, see the report): P_ACC_FINDINGS=1 python3-vt tools/dbg.py lena/flow/elements.py "StoreFilled.compute#C04"
    import os
    if os.environ.get("P_ACC_FINDINGS"):
        F1 = {"group": "PyList[1,Tuple[V,Dict]]", "_yield_as_a_group": "Bool"}
        ix.add_class(ClassSpec("StoreFilled_g1", FE, fields=F1, alias_of="StoreFilled", invariant=["self._yield_as_a_group"]))
        ix.add(Contract(FE, "StoreFilled.compute", qualkey="StoreFilled.compute#C04", props=["C04"],
                        name="StoreFilled.compute[one (data, context) value, C04 clause]",
                        params={"self": "Self[StoreFilled_g1]"}, generator=True, yields="Any",
                        at_yield=["is_deep_copy(yielded[0][1])", "yielded[0][1] is not self.group[0][1]"]))
