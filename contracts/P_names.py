"""C13: "no later or sibling element can change what an earlier element saw or the name it derived from it (Write directory,
Cache file)" -- the two consumers that derive a NAME from the static context.  format_context's formatter is the assumed
object of P_out.py (a function of its format string and the context, LenaKeyError iff a needed key is absent)."""
from pyvc.contracts import Contract, ClassSpec

WR = "lena/output/write.py"
CA = "lena/flow/cache.py"


def register(ix):
    if "Formatter" not in ix.classes:
        return          # P_out.py (the formatter abstraction) did not load
    ix.add_class(ClassSpec("Write_named", WR, alias_of="Write",
                           fields={"_orig_outdir": "Str", "output_directory": "Str", "_format_context": "Inst[Formatter]"}))
    ix.add_class(ClassSpec("Write_plain", WR, alias_of="Write",
                           fields={"_orig_outdir": "Str", "output_directory": "Str"}))
    ix.add(Contract(WR, "Write._set_context", props=["C13"], cases=[
        # a directory name with a formatting field: the name is derived from THIS context (or kept when a key is missing);
        # the element keeps no reference to the context and does not change it
        Contract(WR, "Write._set_context", name="Write._set_context[template directory]", dict_model="Val",
                 params={"self": "Self[Write_named]", "context": "Dict"}, result=None,
                 requires=["'{' in self._orig_outdir"],
                 ensures=["fmt_missing(self._format_context.fmt, old(context)) implies self.output_directory == old(self.output_directory)",
                          "not fmt_missing(self._format_context.fmt, old(context)) implies "
                          "self.output_directory == fmt_apply(self._format_context.fmt, old(context))",
                          "context == old(context)"],
                 raises={}, modifies=["self.output_directory"]),
        Contract(WR, "Write._set_context", name="Write._set_context[plain directory]", dict_model="Val",
                 params={"self": "Self[Write_plain]", "context": "Dict"}, result=None,
                 requires=["not ('{' in self._orig_outdir)"],
                 ensures=["context == old(context)"], raises={}, modifies=[]),
    ]))
    ix.add_class(ClassSpec("Cache_named", CA, alias_of="Cache",
                           fields={"_orig_filename": "Str", "_filename": "Str", "_format_context": "Inst[Formatter]"}))
    ix.add_class(ClassSpec("Cache_plain", CA, alias_of="Cache", fields={"_orig_filename": "Str", "_filename": "Str"}))
    ix.add(Contract(CA, "Cache._set_context", props=["C13"], cases=[
        Contract(CA, "Cache._set_context", name="Cache._set_context[template file name]", dict_model="Val",
                 params={"self": "Self[Cache_named]", "context": "Dict"}, result=None,
                 requires=["'{' in self._orig_filename"],
                 ensures=["fmt_missing(self._format_context.fmt, old(context)) implies self._filename == old(self._filename)",
                          "not fmt_missing(self._format_context.fmt, old(context)) implies "
                          "self._filename == fmt_apply(self._format_context.fmt, old(context))",
                          "context == old(context)"],
                 raises={}, modifies=["self._filename"]),
        Contract(CA, "Cache._set_context", name="Cache._set_context[plain file name]", dict_model="Val",
                 params={"self": "Self[Cache_plain]", "context": "Dict"}, result=None,
                 requires=["not ('{' in self._orig_filename)"],
                 ensures=["context == old(context)"], raises={}, modifies=[]),
    ]))
