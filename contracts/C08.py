"""C08 -- addressing nested keys.  Sidecar contracts of lena/context/functions.py (contains, get_recursively).

Reference (property text): a key path  ks  addresses the item reached by following ks through nested dictionaries;
`walk(x, ks, i, n)` is that item (absent() if some component is missing or passes through a non-dictionary)."""
from pyvc.contracts import Contract, LoopSpec, ClassSpec
from pyvc.smt import T, I
from pyvc.sym import Opaque, Bool, Str
from pyvc.dicts import dterm
from pyvc.speclib import lst_term

CF = "lena/context/functions.py"
SENT = "Sentinel[lena.context.functions._sentinel]"


def declare_walk(reg):
    reg.need_val()
    ks = reg.lst("Key")
    reg.fun_decl("walk",
                 "(define-fun-rec walk ((x Val) (ks %s) (i Int) (n Int)) Opt "
                 "(ite (>= i n) (some x) (ite (and (isD x) (vhas x (select (arr_%s ks) i))) "
                 "(walk (vget x (select (arr_%s ks) i)) ks (+ i 1) n) none)))" % (ks, ks, ks))
    return ks


def sp_walk(ip, st, pos, kws):
    """walk(x, ks, i, n): the item reached from x by the components ks[i..n), as an optional value"""
    ks = declare_walk(ip.reg)
    x = dterm(ip, st, pos[0])
    k = lst_term(ip, st, pos[1], ks)
    return Opaque(T("(walk %s %s %s %s)" % (x.s, k.s, ip.num(pos[2]).s, ip.num(pos[3]).s), "Opt"))


def sp_split_dots(ip, st, pos, kws):
    """split_dots(s): the dot-separated components of the string s (the list s.split('.') returns)"""
    from pyvc.dicts import key_method
    v = pos[0]
    if isinstance(v, Str):
        v = Opaque(ip.reg.key(v.s))
    res = key_method(ip, st, v, "split", [Str(".")], {})
    return ip.lst_view(ip.deref(res[0][0], res[0][1]))


def sp_contains_ref(ip, st, pos, kws):
    """reference of contains(d, s) for a path of >= 2 components: the prefix exists and either is a dictionary holding
    the last component, or is a scalar whose string form equals the last component"""
    reg = ip.reg
    ks = declare_walk(reg)
    d = dterm(ip, st, pos[0])
    k = lst_term(ip, st, pos[1], ks)
    n = reg.l_len(k)
    last = reg.l_get(k, T("(- %s 1)" % n.s, "Int"))
    p = "(walk %s %s 0 (- %s 1))" % (d.s, k.s, n.s)
    f = reg.ufun("str_of_val", ["Val"], "Key")
    return Bool(T("(and (not (= {p} none)) (ite (isD (the {p})) (vhas (the {p}) {l}) (= ({f} (the {p})) {l})))".format(
        p=p, l=last.s, f=f), "Bool"))


def sp_the(ip, st, pos, kws):
    v = pos[0]
    return Opaque(T("(the %s)" % v.t.s, "Val"))


def register(ix):
    for n, f in [("walk", sp_walk), ("split_dots", sp_split_dots), ("contains_ref", sp_contains_ref), ("the", sp_the)]:
        ix.spec_names[n] = f
    ix.add(Contract(
        CF, "contains", props=["C08", "C15"],
        params={"d": "Val", "s": "Str"}, result="Bool",
        requires=["isdict(d)"],
        # property: a malformed / non-matching path is answered with False, never with an exception
        raises={},
        ensures=["len(split_dots(s)) < 2 implies result == (s in d)",
                 "len(split_dots(s)) >= 2 implies result == contains_ref(d, split_dots(s))"],
        loops={0: LoopSpec(invariant=[
            "walk(subdict, levels, _i, len(levels) - 1) == walk(d, levels, 0, len(levels) - 1)"])}))
    ix.add(Contract(
        CF, "get_recursively", props=["C08"],
        cases=[
            Contract(CF, "get_recursively", name="get_recursively[list of keys, no default]",
                     params={"d": "Val", "keys": "Lst[Key]", "default": SENT}, result="Val",
                     raises={"LenaTypeError": "not isdict(d)",
                             "LenaKeyError": "isdict(d) and walk(d, keys, 0, len(keys)) == absent()"},
                     ensures=["present(result) == walk(d, keys, 0, len(keys))"],
                     loops={2: LoopSpec(invariant=[
                         "isdict(d)",
                         "walk(d, keys, _i, len(keys)) == walk(old(d), keys, 0, len(keys))"])}),
            Contract(CF, "get_recursively", name="get_recursively[list of keys, default]",
                     params={"d": "Val", "keys": "Lst[Key]", "default": "Val"}, result="Val",
                     raises={"LenaTypeError": "not isdict(d)"},
                     ensures=["walk(d, keys, 0, len(keys)) != absent() implies present(result) == walk(d, keys, 0, len(keys))",
                              "walk(d, keys, 0, len(keys)) == absent() implies result == default"],
                     loops={2: LoopSpec(invariant=[
                         "isdict(d)",
                         "walk(d, keys, _i, len(keys)) == walk(old(d), keys, 0, len(keys))"])}),
        ]))
