"""P_flow -- flow elements of C17 (iterators equal their python reference), C02 (laziness) and C15 (selectors).
Sidecar contracts of lena/flow/iterators.py, lena/flow/elements.py, lena/flow/filter.py, lena/flow/selectors.py.
Slice.fill_into / Reverse.run are in C17.py, RunIf.run in C02.py, Selector.__call__ / Not / And / Or in C15.py."""
from pyvc.contracts import Contract, LoopSpec, ClassSpec

IT = "lena/flow/iterators.py"
FE = "lena/flow/elements.py"
FI = "lena/flow/filter.py"
SE = "lena/flow/selectors.py"


def register(ix):
    register_specs(ix)
    register_end(ix)
    register_filter(ix)
    register_selectors(ix)
    register_selector_lemmas(ix)
    register_count(ix)
    register_print(ix)
    register_countfrom(ix)
    register_slice(ix)
    register_chunks(ix)
    register_progress(ix)
    register_chain(ix)


# ---------------------------------------------------------------------------------------------- reference functions
def register_specs(ix):
    from pyvc.smt import T
    from pyvc.sym import Num, Bool
    from pyvc.speclib import lst_term, obj_term, v_term

    def selected_decl(reg):
        """selected(s, v): the callable s applied to v returns normally and its result is true"""
        reg.ufun("el_call", ["Obj", "V"], "V")
        reg.ufun("el_call_raises", ["Obj", "V"], "Bool")
        reg.ufun("v_truthy", ["V"], "Bool")
        reg.fun_decl("selected", "(define-fun selected ((s Obj) (v V)) Bool (and (not (el_call_raises s v)) (v_truthy (el_call s v))))")

    def sp_selected(ip, st, pos, kws):
        selected_decl(ip.reg)
        return Bool(T("(selected %s %s)" % (obj_term(pos[0]).s, v_term(ip, pos[1]).s), "Bool"))

    def sp_nsel(ip, st, pos, kws):
        """nsel(s, xs, n): how many of xs[0..n) the callable s selects (reference for filtering: the k-th selected value
        of xs is the one with nsel(s, xs, index) == k)"""
        reg = ip.reg
        sort = reg.lst("V")
        selected_decl(reg)
        reg.fun_decl("nsel", "(define-fun-rec nsel ((s Obj) (xs %s) (n Int)) Int (ite (<= n 0) 0 "
                             "(+ (nsel s xs (- n 1)) (ite (selected s (select (arr_%s xs) (- n 1))) 1 0))))" % (sort, sort))
        xs = lst_term(ip, st, pos[1], sort)
        return Num(T("(nsel %s %s %s)" % (obj_term(pos[0]).s, xs.s, ip.num(pos[2]).s), "Int"))
    ix.spec_names["selected"] = sp_selected
    ix.spec_names["nsel"] = sp_nsel

    # ---- leaves of selectors: a leaf is a python callable -- an abstract one (sort Obj) or a closure created by the code
    # under verification (a lambda with its environment, applied by running its own body)
    from pyvc.sym import Opaque, Fun
    from pyvc.smt import AND, OR, IMP, NOT, TRUE, FALSE

    def apply_leaf(ip, st, f, v):
        """all outcomes of f(v) for a closure f: (normal [(branch conditions, truth of the value)], raising [branch
        conditions]).  The closure's body is run by the interpreter; the path conditions it adds are split into BRANCH
        conditions (the complement is the condition of another outcome) and ASSUMED facts (well-formedness of abstract
        values, postconditions of callees): the latter are hypotheses of whatever clause is being evaluated -- they go to
        the enclosing forall_v, or into the state.  The result constant of a callee whose postcondition defines it
        (`res == term`) is replaced by that term (it is new, and may depend on a quantified v)."""
        import re
        from pyvc.calls import call_value
        from pyvc.interp import Unsupported
        if not (isinstance(f, Fun) and f.kind == "lambda"):
            raise Unsupported("leaf of a selector: abstract callable or lambda expected, got %r" % (f,))
        s0 = st.copy()
        n, ne, nv = len(s0.pc), len(ip._exc_out), len(ip.vcs)
        saved, ip.spec_mode = ip.spec_mode, 0        # the closure's body is code, not a specification: exceptions are explored
        try:
            outs = call_value(ip, s0, f, [v], {})
        finally:
            ip.spec_mode = saved
        inner = ip.vcs[nv:]          # obligations of the body itself (preconditions of its callees): see leaf_safe
        del ip.vcs[nv:]
        ip._leaf_obligations = [IMP(AND(*vc.hyps[n:]), vc.goal) for vc in inner]
        exc = ip._exc_out[ne:]
        del ip._exc_out[ne:]
        paths = [(list(s.pc[n:]), ip.truth(s, r)) for s, r in outs] + [(list(s.pc[n:]), None) for s, e in exc]
        allh = {h.s for hs, _ in paths for h in hs}
        assumed, res = [], []
        for hs, t in paths:
            branch = []
            for h in hs:
                if NOT(h).s in allh:
                    branch.append(h)
                elif h.s not in {a.s for a in assumed}:
                    assumed.append(h)
            res.append((branch, t))
        # result constants defined by an equation
        subst = {}
        for a in list(assumed):
            m = re.match(r"^\(= (\|res_[^|]*\|) (.*)\)$", a.s)
            if m:
                subst[m.group(1)] = m.group(2)
                assumed.remove(a)

        def sub(t):
            x = t.s
            for k, d in subst.items():
                x = x.replace(k, d)
            return T(x, t.sort)
        assumed = [sub(a) for a in assumed]
        res = [([sub(h) for h in b], (sub(t) if t is not None else None)) for b, t in res]
        sink = getattr(ip, "_leaf_assumed", None)
        for a in assumed:
            if sink is not None:
                sink.append(a)
            else:
                st.assume(a)
        return [(b, t) for b, t in res if t is not None], [b for b, t in res if t is None]

    def sp_leaf_true(ip, st, pos, kws):
        """leaf_true(f, v): f(v) returns normally with a true value"""
        f, v = pos
        if isinstance(f, Opaque) and f.sort == "Obj":
            return sp_selected(ip, st, [f, v], {})
        outs, _ = apply_leaf(ip, st, f, v)
        return Bool(OR(*[AND(*(list(b) + [t])) for b, t in outs]))

    def sp_leaf_raises(ip, st, pos, kws):
        """leaf_raises(f, v): f(v) raises"""
        f, v = pos
        if isinstance(f, Opaque) and f.sort == "Obj":
            ip.reg.ufun("el_call_raises", ["Obj", "V"], "Bool")
            return Bool(T("(el_call_raises %s %s)" % (f.t.s, v_term(ip, v).s), "Bool"))
        _, exc = apply_leaf(ip, st, f, v)
        return Bool(OR(*[AND(*b) for b in exc]))

    def sp_leaf_safe(ip, st, pos, kws):
        """leaf_safe(f, v): every obligation inside the body of the closure f (preconditions of the functions it calls)
        holds when it is applied to v -- leaf_true / leaf_raises assume them"""
        f, v = pos
        if isinstance(f, Opaque) and f.sort == "Obj":
            return Bool(TRUE)
        apply_leaf(ip, st, f, v)
        return Bool(AND(*ip._leaf_obligations))

    def sp_forall_v(ip, st, pos, kws):
        """forall_v(lambda v: body): body holds for every flow value v (under the well-formedness facts the evaluation
        of the body assumes about v)"""
        from pyvc.calls import call_value
        f = pos[0]
        ip.reg.need("V")
        q = T("fv%d" % next(ip.bound), "V")
        saved = getattr(ip, "_leaf_assumed", None)
        ip._leaf_assumed = []
        try:
            s0 = st.copy()
            outs = call_value(ip, s0, f, [Opaque(q)], {})
            if len(outs) != 1:
                raise U_("forall_v: the body forks")
            body = ip.truth(st, outs[0][1])
            hyps = list(outs[0][0].pc[len(st.pc):]) + ip._leaf_assumed
        finally:
            ip._leaf_assumed = saved
        return Bool(T("(forall ((%s V)) %s)" % (q.s, IMP(AND(*hyps), body).s), "Bool"))

    def U_(msg):
        from pyvc.interp import Unsupported
        return Unsupported(msg)

    def is_class_term(ip, v):
        """inspect.isclass(v): abstract objects may be classes (a predicate of the object); python values that the
        encoding knows are instances (numbers, strings, None, containers, objects) are not; class objects are"""
        if isinstance(v, Opaque) and v.sort == "Obj":
            f = ip.reg.ufun("is_class_Obj", ["Obj"], "Bool")
            return T("(%s %s)" % (f, v.t.s), "Bool")
        if isinstance(v, Fun):
            if v.kind in ("class", "exc", "namedtuple"):
                return TRUE
            if v.kind == "builtin":
                return TRUE if v.name in ("int", "float", "bool", "str", "list", "tuple", "dict", "object", "type", "set") else FALSE
            if v.kind in ("lambda", "def", "bound", "contract", "elem-method", "method"):
                return FALSE
            raise U_("inspect.isclass of %r" % (v,))
        from pyvc.sym import Num as N_, Str as S_, NoneV as No_, Tup as Tu_, Ref as R_, View as V_
        if isinstance(v, (N_, Bool, S_, No_, Tu_, R_, V_)) or (isinstance(v, Opaque) and v.sort in ("Key", "Val")):
            return FALSE
        raise U_("inspect.isclass of %r" % (v,))

    def lib_isclass(ip, st, pos, kws):
        ip.assumptions.add("library contract (tier A): inspect.isclass(x) is a predicate of x (False for instances)")
        return [(st, Bool(is_class_term(ip, pos[0])))]
    ix.lib[("inspect", "isclass")] = lib_isclass

    def sp_contains_spec(ip, st, pos, kws):
        """contains_spec(d, s, r): r is what lena.context.contains(d, s) returns for a dictionary d according to its
        contract (C08.py, proved there): a key test for a string without dots, else the reference `contains_ref` over the
        dot-separated components"""
        from pyvc.calls import eval_spec
        env = {"d_": pos[0], "s_": pos[1], "r_": pos[2]}
        return Bool(AND(eval_spec(ip, st, env, "len(split_dots(s_)) < 2 implies r_ == (s_ in d_)"),
                        eval_spec(ip, st, env, "len(split_dots(s_)) >= 2 implies r_ == contains_ref(d_, split_dots(s_))")))
    def sp_el_fill_pair(ip, st, pos, kws):
        """el_fill_pair(el, s, data, context): the state of el after fill((data, context)) in state s (the pair is folded
        into one flow value exactly as the engine does at the call element.fill((data, context)))"""
        from pyvc.calls import as_flow_value
        from pyvc.sym import Tup
        from pyvc.speclib import st_term
        f = ip.reg.ufun("el_fill", ["Obj", "St", "V"], "St")
        v = as_flow_value(ip, st, Tup([pos[2], pos[3]]))
        return Opaque(T("(%s %s %s %s)" % (f, obj_term(pos[0]).s, st_term(pos[1]).s, v.t.s), "St"))
    ix.spec_names["el_fill_pair"] = sp_el_fill_pair

    # ---- ghost state of the arithmetic-progression iterator islice(itertools.count(0), start, stop, step)
    def arith_cell(ip, st, v):
        from pyvc.sym import Ref, IterCell
        if isinstance(v, Ref) and isinstance(st.heap.get(v.cid), IterCell) and getattr(st.heap[v.cid], "kind", None) == "arith":
            return st.heap[v.cid]
        raise U_("not an arithmetic-progression iterator: %r" % (v,))
    ix.spec_names["arith_step"] = lambda ip, st, pos, kws: Num((lambda k: k if hasattr(k, "s") else T(str(k), "Int"))(arith_cell(ip, st, pos[0]).step))
    ix.spec_names["arith_stop"] = lambda ip, st, pos, kws: Num(arith_cell(ip, st, pos[0]).stop)
    ix.spec_names["arith_has_stop"] = lambda ip, st, pos, kws: Bool(arith_cell(ip, st, pos[0]).has_stop)

    def sp_is_closure(ip, st, pos, kws):
        """is_closure(f, 'lambda ...', name=value, ...): f is a function object created from exactly this lambda expression
        whose free variables are bound to the given values (names that are not given must be the library functions of
        LIB_NAMES).  The behaviour of such an object is fixed by its text and its environment."""
        import ast as _ast
        from pyvc.verify import same_sv
        from pyvc.sym import Str as S_
        f, text = pos
        if not isinstance(text, S_):
            raise U_("is_closure: the lambda is given as a string literal")
        node = _ast.parse(text.s, mode="eval").body
        if not (isinstance(f, Fun) and f.kind == "lambda" and isinstance(node, _ast.Lambda)):
            return Bool(FALSE)
        if _ast.dump(f.node) != _ast.dump(node):
            return Bool(FALSE)
        params = {a.arg for a in node.args.args}
        free = sorted({n.id for n in _ast.walk(node.body) if isinstance(n, _ast.Name)} - params)
        conj = []
        for name in free:
            have = f.env.get(name)
            if name in kws:
                conj.append(same_sv(ip, st, have, st, kws[name]) if have is not None else FALSE)
            elif name in LIB_NAMES:
                ok = isinstance(have, Fun) and have.kind == "lib" and have.impl is ip.contracts.lib.get(LIB_NAMES[name])
                conj.append(TRUE if ok else FALSE)
            else:
                raise U_("is_closure: free variable %s is not bound by the clause" % name)
        return Bool(AND(*conj))

    def sp_chunk_call(star):
        def sp(ip, st, pos, kws):
            """chunk_call(c, xs, k, size) = c(xs[k:k+size]) / chunk_call_star(..) = c(*xs[k:k+size]) for an abstract container c"""
            from pyvc.lib_flow import list_call_term, shifted
            xs = lst_term(ip, st, pos[1], ip.reg.lst("V"))
            return Opaque(list_call_term(ip, obj_term(pos[0]), shifted(ip, xs, ip.num(pos[2]), ip.num(pos[3])), star))
        return sp
    ix.spec_names["chunk_call"] = sp_chunk_call(False)
    ix.spec_names["chunk_call_star"] = sp_chunk_call(True)
    LIB_NAMES = {"islice": ("itertools", "islice")}
    ix.spec_names["is_closure"] = sp_is_closure
    for name, fn in [("leaf_true", sp_leaf_true), ("leaf_raises", sp_leaf_raises), ("forall_v", sp_forall_v),
                     ("isclass", lambda ip, st, pos, kws: Bool(is_class_term(ip, pos[0]))), ("contains_spec", sp_contains_spec), ("leaf_safe", sp_leaf_safe)]:
        ix.spec_names[name] = fn


# ---------------------------------------------------------------------------------------------- End
def register_end(ix):
    """`Exhaust all preceding flow and stop iteration (yield nothing to the following flow)`"""
    ix.add_class(ClassSpec("End", FE, fields={}))
    ix.add(Contract(
        FE, "End.run", props=["C02"],
        params={"self": "Self[End]", "flow": "Iter[V]"}, generator=True, yields="V",
        loops={0: LoopSpec(invariant=["len(out) == 0"])},
        ensures=["len(out) == 0", "pulled(flow) == len(content(flow))"],
        modifies=["flow"]))


# ---------------------------------------------------------------------------------------------- Filter
def register_filter(ix):
    """`Yield values from the flow for which the selector is True` / `Fill value into an element if selector(value) is
    True`: the results are the selected values, in order, each the very object that came in (C15: Filter keeps exactly the
    selected values); C02: when the k-th result is handed over nothing beyond the value it came from has been pulled.
    Two views of the stored selector: an abstract callable, and a Selector object (what Filter.__init__ stores) whose leaf
    L is an abstract callable -- selected(L, v) then is Selector.__call__: an error of the leaf counts as not selected
    unless raise_on_error, in which case it travels through Filter."""
    XS = "content(flow)"
    ix.add_class(ClassSpec("Filter", FI, fields={"_selector": "Obj"}))
    ix.add_class(ClassSpec("Filter_sel", FI, fields={"_selector": "Inst[Selector]"}, alias_of="Filter"))

    def run_case(name, selfty, S, guard):
        RAISES = "(%s el_call_raises(%s, %s[k]))" % (guard, S, XS)
        INV = ["pulled(flow) == _i", "len(out) == nsel(%s, %s, _i)" % (S, XS),
               # position of every selected value among the results (with the two bounds that make it inductive)
               "all(implies(selected(%s, %s[k]), nsel(%s, %s, k) < len(out) and out[nsel(%s, %s, k)] is %s[k]) for k in range(_i))"
               % (S, XS, S, XS, S, XS, XS),
               "all(nsel(%s, %s, k) <= len(out) for k in range(_i + 1))" % (S, XS),
               "all(not %s for k in range(_i))" % RAISES]
        return Contract(
            FI, "Filter.run", name="Filter.run[%s]" % name,
            params={"self": selfty, "flow": "Iter[V]"}, generator=True, yields="V",
            requires=["pulled(flow) == 0"],
            loops={0: LoopSpec(invariant=INV)},
            raises={"Exception": "any(%s for k in range(len(%s)))" % (RAISES, XS)},
            at_yield=["pulled(flow) == _i + 1", "yielded is %s[_i]" % XS, "selected(%s, yielded)" % S,
                      "len(out) == nsel(%s, %s, _i)" % (S, XS)],
            ensures=["len(out) == nsel(%s, %s, len(%s))" % (S, XS, XS),
                     "all(implies(selected(%s, %s[k]), out[nsel(%s, %s, k)] is %s[k]) for k in range(len(%s)))" % (S, XS, S, XS, XS, XS),
                     "pulled(flow) == len(%s)" % XS],
            modifies=["flow"])

    def fill_case(name, selfty, S, guard):
        return Contract(
            FI, "Filter.fill_into", name="Filter.fill_into[%s]" % name,
            params={"self": selfty, "element": "Obj", "value": "V"}, result=None, ghost={"elstate": True},
            # (LenaStopFill first: the more specific class is matched first; any OTHER exception comes from the selector)
            raises={"LenaStopFill": "selected(%s, value) and el_fill_stops(element, old(elstate(element)), value)" % S,
                    "Exception": "%s el_call_raises(%s, value)" % (guard, S)},
            ensures=["selected(%s, value) implies elstate(element) == el_fill(element, old(elstate(element)), value)" % S,
                     "not selected(%s, value) implies elstate(element) == old(elstate(element))" % S],
            exc_ensures={"Exception": ["elstate(element) == old(elstate(element))"]})
    VIEWS = [("abstract callable", "Self[Filter]", "self._selector", ""),
             ("Selector object", "Self[Filter_sel]", "self._selector._selector", "self._selector._raise_on_error and")]
    # (C05: the two routes select the same values -- `selected` is the same predicate in both contracts)
    ix.add(Contract(FI, "Filter.run", props=["C15", "C02", "C05"], cases=[run_case(*v) for v in VIEWS]))
    ix.add(Contract(FI, "Filter.fill_into", props=["C15", "C05"], cases=[fill_case(*v) for v in VIEWS]))


# ---------------------------------------------------------------------------------------------- selectors
def register_selectors(ix):
    """C15: `a string tests the context with contains, a class tests the type of the data, a callable is applied, a list
    is OR, a tuple is AND` -- what the constructors make of a specification.  A leaf is characterised by what applying it
    to ANY flow value gives (leaf_true / leaf_raises, quantified by forall_v); callers see a new Selector as an object whose
    `_selector` is an abstract callable with exactly these facts (post_class), which is what Selector.__call__ / Not / And /
    Or of C15.py start from."""
    ix.add_class(ClassSpec("Selector0", SE, fields={}, alias_of="Selector"))
    MOD = ["self._selector_repr", "self._from_callable", "self._orig_class", "self._orig_str", "self._selector",
           "self._raise_on_error"]
    NOT_CONTAINER = ["not isinstance(%s, str)", "not isinstance(%s, list)", "not isinstance(%s, tuple)"]
    CLS_REF = "(isinstance(vdata(v), {x}) if v_has_context(v) else isinstance(v, {x}))"

    def leaf_post(leaf, x):
        """the leaf made of the abstract object x (a class or a callable)"""
        return ["isclass({x}) implies forall_v(lambda v: leaf_true({l}, v) == %s)" % CLS_REF,
                "isclass({x}) implies forall_v(lambda v: not leaf_raises({l}, v) and leaf_safe({l}, v))",
                "not isclass({x}) implies {l} is {x}"], "not isclass({x}) and not callable({x})"

    def fmt(clauses, **kw):
        return [c.format(**kw) for c in clauses]
    post, bad = leaf_post("self._selector", "selector")
    cases = [
        Contract(SE, "Selector.__init__", name="Selector.__init__[class, callable or other object]",
                 params={"self": "Self[Selector0]", "selector": "Obj", "raise_on_error": "Bool"},
                 requires=[r % "selector" for r in NOT_CONTAINER],
                 raises={"LenaTypeError": bad.format(x="selector")},
                 ensures=["self._raise_on_error == raise_on_error"] + fmt(post, l="self._selector", x="selector"),
                 modifies=MOD, post_class="Selector"),
        Contract(SE, "Selector.__init__", name="Selector.__init__[string]",
                 params={"self": "Self[Selector0]", "selector": "Str", "raise_on_error": "Bool"},
                 ensures=["self._raise_on_error == raise_on_error",
                          "forall_v(lambda v: contains_spec(vctx(v), selector, leaf_true(self._selector, v)))",
                          "forall_v(lambda v: not leaf_raises(self._selector, v) and leaf_safe(self._selector, v))"],
                 modifies=MOD, post_class="Selector"),
    ]
    for ty in ("Int", "Real", "None", "Bool"):
        cases.append(Contract(SE, "Selector.__init__", name="Selector.__init__[%s]" % ty.lower(),
                              params={"self": "Self[Selector0]", "selector": ty, "raise_on_error": "Bool"},
                              raises={"LenaTypeError": "True"}, modifies=MOD))
    # ---- containers: a list is Or, a tuple is And; every item that is not a Selector already is converted with the
    # same raise_on_error.  Items: abstract objects (class / callable / other) and Selector objects, up to 2 items
    import itertools
    for cls in ("And", "Or"):
        ix.classes[cls].bases = ["Selector"]         # (class %s(Selector): super().__init__ is Selector.__init__)
        ix.add_class(ClassSpec(cls + "0", SE, fields={"_raise_on_error": "Bool"}, alias_of=cls))
        for n in range(3):
            ix.add_class(ClassSpec("%s_%d" % (cls, n), SE, alias_of=cls,
                                   fields={"_selectors": "PyList[%d,Inst[Selector]]" % n, "_raise_on_error": "Bool"}))
            ix.add_class(ClassSpec("Selector_%s_%d" % (cls.lower(), n), SE, alias_of="Selector",
                                   fields={"_selector": "Inst[%s_%d]" % (cls, n), "_raise_on_error": "Bool"}))

    def items_spec(coll, items, tys):
        """(requires, ensures, LenaTypeError condition) for the selectors `coll`[i] made of the given `items`[i]"""
        req, ens, bad = [], [], []
        for i, ty in enumerate(tys):
            x, l = "%s[%d]" % (items, i), "%s[%d]" % (coll, i)
            if ty == "Obj":
                req += [r % x for r in NOT_CONTAINER] + ["not is_instance_of(%s, 'Selector')" % x]
                pst, b = leaf_post(l + "._selector", x)
                ens += ["is_instance_of(%s, 'Selector')" % l, "%s._raise_on_error == raise_on_error" % l] \
                    + fmt(pst, l=l + "._selector", x=x)
                bad.append("(%s)" % b.format(x=x))
            else:
                ens.append("%s is %s" % (l, x))         # a Selector is taken as it is (its own raise_on_error stays)
        return req, ens, " or ".join(bad) or "False"

    def container_cases(cls):
        out = []
        for n in range(3):
            for tys in itertools.product(("Obj", "Inst[Selector]"), repeat=n):
                kinds = ["Tuple[%s]" % ",".join(tys)]
                if len(set(tys)) <= 1:
                    kinds.append("PyList[%d,%s]" % (n, tys[0] if tys else "Obj"))
                for kind in kinds:
                    req, ens, bad = items_spec("self._selectors", "selectors", tys)
                    out.append(Contract(
                        SE, cls + ".__init__", name="%s.__init__[%s]" % (cls, kind),
                        params={"self": "Self[%s0]" % cls, "selectors": kind, "raise_on_error": "Bool"},
                        requires=req, raises={"LenaTypeError": bad},
                        ensures=["len(self._selectors) == %d" % n, "self._selector is self",
                                 "self._raise_on_error == raise_on_error"] + ens,
                        modifies=MOD + ["self._selectors"], post_class="%s_%d" % (cls, n)))
        return out
    for cls in ("And", "Or"):
        ix.add(Contract(SE, cls + ".__init__", props=["C15"], cases=container_cases(cls)))
    # (tuple cases first: the engine lets a tuple argument fit a PyList[...] parameter, not the other way round)
    for cls, kind in (("And", "Tuple[%s]"), ("Or", "PyList[%d,Obj]")):
        for n in range(3):
            ty = kind % n if cls == "Or" else kind % ",".join(["Obj"] * n)
            req, ens, bad = items_spec("self._selector._selectors", "selector", ["Obj"] * n)
            cases.append(Contract(
                SE, "Selector.__init__", name="Selector.__init__[%s of %d objects]" % ("list" if cls == "Or" else "tuple", n),
                params={"self": "Self[Selector0]", "selector": ty, "raise_on_error": "Bool"},
                requires=req,      # (items that are Selector objects already: see And / Or.__init__[.. Inst[Selector] ..])
                raises={"LenaTypeError": bad},
                ensures=["self._raise_on_error == raise_on_error", "is_instance_of(self._selector, '%s')" % cls,
                         "self._selector._raise_on_error == raise_on_error",
                         "len(self._selector._selectors) == %d" % n] + ens,
                modifies=MOD, post_class="Selector_%s_%d" % (cls.lower(), n)))
    # a Selector (And / Or pass themselves to Selector.__init__: they are callable): used as it is
    cases.append(Contract(SE, "Selector.__init__", name="Selector.__init__[Selector object]",
                          params={"self": "Self[Selector0]", "selector": "Inst[Selector]", "raise_on_error": "Bool"},
                          ensures=["self._selector is selector", "self._raise_on_error == raise_on_error"],
                          modifies=MOD))
    ix.add(Contract(SE, "Selector.__init__", props=["C15"], cases=cases))
    # ---- evaluation of the containers the constructors build (members are Selector objects with abstract leaves):
    # `a list is OR, a tuple is AND`, evaluated left to right with python's short circuit; a member's error propagates
    # only if that member was built with raise_on_error (and only if it is reached)
    def member(coll, i):
        m = "%s[%d]" % (coll, i)
        return ("selected(%s._selector, {v})" % m, "(%s._raise_on_error and el_call_raises(%s._selector, {v}))" % (m, m))

    def container_eval(cls, coll, n, v):
        """(value, raises) of And / Or over the members coll[0..n) applied to v"""
        val, rs, reach = [], [], "True"
        for i in range(n):
            sel, r = [x.format(v=v) for x in member(coll, i)]
            rs.append("(%s and %s)" % (reach, r))
            val.append(sel)
            reach = "(%s and %s)" % (reach, sel if cls == "And" else "not " + sel)
        value = (" and " if cls == "And" else " or ").join(val) or ("True" if cls == "And" else "False")
        return "(%s)" % value, "(%s)" % (" or ".join(rs) or "False")
    for cls in ("And", "Or"):
        for n in range(3):
            value, rs = container_eval(cls, "self._selectors", n, "val")
            ix.add(Contract(SE, cls + ".__call__", qualkey="%s_%d.__call__" % (cls, n), name="%s.__call__[%d Selector members]" % (cls, n),
                            props=["C15"], params={"self": "Self[%s_%d]" % (cls, n), "val": "V"}, result="Bool",
                            raises={"Exception": rs}, ensures=["result == %s" % value], raises_frame="pure"))
            # Selector(list / tuple): the container inside a Selector; its own raise_on_error decides about errors that
            # come out of the container
            value, rs = container_eval(cls, "self._selector._selectors", n, "value")
            ix.add(Contract(SE, "Selector.__call__", qualkey="Selector_%s_%d.__call__" % (cls.lower(), n),
                            name="Selector.__call__[%s of %d members]" % (cls, n), props=["C15"],
                            params={"self": "Self[Selector_%s_%d]" % (cls.lower(), n), "value": "V"}, result="Bool",
                            raises={"Exception": "self._raise_on_error and %s" % rs},
                            ensures=["result == (not %s and %s)" % (rs, value)], raises_frame="pure"))
    # ---- Filter(selector): `If selector is not [a Selector], it is converted to a Selector.  If the conversion could
    # not be done, LenaTypeError is raised`
    ix.add_class(ClassSpec("Filter0", FI, fields={}, alias_of="Filter"))
    pst, b = leaf_post("self._selector._selector", "selector")
    ix.add(Contract(FI, "Filter.__init__", props=["C15"], cases=[
        Contract(FI, "Filter.__init__", name="Filter.__init__[Selector object]",
                 params={"self": "Self[Filter0]", "selector": "Inst[Selector]"},
                 ensures=["self._selector is selector"], modifies=["self._selector"], post_class="Filter_sel"),
        Contract(FI, "Filter.__init__", name="Filter.__init__[class, callable or other object]",
                 params={"self": "Self[Filter0]", "selector": "Obj"},
                 requires=[r % "selector" for r in NOT_CONTAINER] + ["not is_instance_of(selector, 'Selector')"],
                 raises={"LenaTypeError": b.format(x="selector")},
                 ensures=["is_instance_of(self._selector, 'Selector')", "self._selector._raise_on_error == True"]
                 + fmt(pst, l="self._selector._selector", x="selector"),
                 modifies=["self._selector"], post_class="Filter_sel"),
        Contract(FI, "Filter.__init__", name="Filter.__init__[string]",
                 params={"self": "Self[Filter0]", "selector": "Str"},
                 ensures=["is_instance_of(self._selector, 'Selector')", "self._selector._raise_on_error == True",
                          "forall_v(lambda v: contains_spec(vctx(v), selector, leaf_true(self._selector._selector, v)))",
                          "forall_v(lambda v: not leaf_raises(self._selector._selector, v) and leaf_safe(self._selector._selector, v))"],
                 modifies=["self._selector"], post_class="Filter_sel"),
        Contract(FI, "Filter.__init__", name="Filter.__init__[number]",
                 params={"self": "Self[Filter0]", "selector": "Real"}, raises={"LenaTypeError": "True"},
                 modifies=["self._selector"]),
    ]))
    # ---- Not(selector, raise_on_error): `selector is converted to Selector` -- the same conversion, case by case
    ix.add_class(ClassSpec("Not0", SE, fields={"_raise_on_error": "Bool"}, alias_of="Not"))
    ncases = []
    for c in cases:
        pc = c.post_class
        if pc and pc != "Selector":
            ix.add_class(ClassSpec(pc.replace("Selector_", "Not_"), SE, alias_of="Not", bases=["Selector"],
                                   fields=dict(ix.classes[pc].fields)))
        ncases.append(Contract(SE, "Not.__init__", name=c.name.replace("Selector.__init__", "Not.__init__"),
                               params=dict(c.params, self="Self[Not0]"), requires=c.requires, raises=c.raises,
                               ensures=c.ensures, modifies=c.modifies,
                               post_class=(pc.replace("Selector_", "Not_") if pc != "Selector" else "Not") if pc else None))
    ix.add(Contract(SE, "Not.__init__", props=["C15"], cases=ncases))


# ---------------------------------------------------------------------------------------------- Selector(spec)(value)
def register_selector_lemmas(ix):
    """C15 end to end, over the contracts only: construct a Selector from a specification (contract of __init__), apply it
    to an arbitrary value (Selector.__call__ / the container contracts) and compare with the reference evaluation of the
    property text.  Also a guard that what the constructor contracts promise is usable (not contradictory) at call sites."""
    from pyvc.verify import Lemma

    def lemma(name, spec_types, requires, value, raises):
        """Selector(<spec>, roe)(v): truth of the result == `value`; an exception escapes iff `raises`"""
        def build(ip, st):
            from pyvc.calls import instantiate, call_value, eval_spec
            from pyvc.interp import VC
            from pyvc.smt import FALSE, NOT
            from pyvc.sym import Fun, Tup, PyListCell
            roe, v = ip.make("Bool", "roe", st), ip.make("V", "v", st)
            xs = [ip.make(t, "x%d" % k, st) for k, t in enumerate(spec_types[1])]
            env = {"roe": roe, "v": v}
            env.update({"x%d" % k: x for k, x in enumerate(xs)})
            for r in requires:
                st.assume(eval_spec(ip, st, env, r))
            ip.entry = st.copy()
            ip.oldst = ip.entry
            spec = xs[0] if spec_types[0] == "one" else Tup(xs) if spec_types[0] == "tuple" else ip.new_cell(st, PyListCell(xs))
            cover = list(st.pc)
            n_normal = 0
            for s1, obj in instantiate(ip, st, Fun("class", name="Selector", mod=None), [spec, roe], {}):
                for s2, r in call_value(ip, s1, obj, [v], {}):
                    n_normal += 1
                    e2 = dict(env, r=r)
                    ip.emit("lemma", "value of Selector(spec)(v)", s2, eval_spec(ip, s2, e2, value.replace("RESULT", "bool(r)")))
                    ip.emit("lemma", "normal result implies no error is due", s2, NOT(eval_spec(ip, s2, env, raises)))
                    # (at least one of these states must be satisfiable: the hypotheses taken from the contracts are consistent)
                    ip.vcs.append(VC("canary ensures False#%d" % n_normal, "canary", list(s2.pc), FALSE, s2.trace))
            for s3, exc in ip._exc_out:
                ip.emit("lemma", "%s only if an error is due" % exc.cls, s3,
                        eval_spec(ip, s3, env, raises) if exc.cls == "Exception" else FALSE)
            ip._exc_out = []
            if not n_normal:
                ip.emit("lemma", "the selector can be constructed and applied", st, FALSE)
            ip.vcs.append(VC("cover requires", "cover", cover, FALSE, ""))
        return Lemma(name, SE, ["C15"], build,
                     notes="over the contracts of Selector.__init__ and of __call__ (Selector / And / Or): no function body")
    OBJ = ["not isinstance({x}, str)", "not isinstance({x}, list)", "not isinstance({x}, tuple)"]
    LEAF = OBJ + ["callable({x})", "not isclass({x})", "not is_instance_of({x}, 'Selector')"]
    one = lambda rs, x="x0": [r.format(x=x) for r in rs]
    ix.lemmas.append(lemma("Selector(class)(v): tests the type of the data part", ("one", ["Obj"]),
                           one(OBJ) + ["isclass(x0)"],
                           "RESULT == (isinstance(vdata(v), x0) if v_has_context(v) else isinstance(v, x0))", "False"))
    ix.lemmas.append(lemma("Selector(string)(v): tests the context with contains", ("one", ["Str"]), [],
                           "contains_spec(vctx(v), x0, RESULT)", "False"))
    ix.lemmas.append(lemma("Selector(callable)(v): the callable is applied; its error counts as not selected unless raise_on_error",
                           ("one", ["Obj"]), one(LEAF), "RESULT == selected(x0, v)", "roe and el_call_raises(x0, v)"))
    ix.lemmas.append(lemma("Selector([f, g])(v): OR with short circuit", ("list", ["Obj", "Obj"]),
                           one(LEAF, "x0") + one(LEAF, "x1"), "RESULT == (selected(x0, v) or selected(x1, v))",
                           "roe and (el_call_raises(x0, v) or (not selected(x0, v) and el_call_raises(x1, v)))"))
    ix.lemmas.append(lemma("Selector((f, g))(v): AND with short circuit", ("tuple", ["Obj", "Obj"]),
                           one(LEAF, "x0") + one(LEAF, "x1"), "RESULT == (selected(x0, v) and selected(x1, v))",
                           "roe and (el_call_raises(x0, v) or (selected(x0, v) and el_call_raises(x1, v)))"))


# ---------------------------------------------------------------------------------------------- Count.run / fill_into
def register_count(ix):
    """`Yield incoming values and increase count.  After the flow is exhausted, update last value's context with
    {self.name: self.count}.  If the flow was empty, nothing is yielded.`  C02: `Count.run keeps exactly one value of
    look-ahead`: when the k-th value is handed over exactly k + 2 values have been pulled (it can not know earlier
    whether the value is the last one).  (Count.__init__ / fill / compute / reset: C09.py.)"""
    XS = "content(flow)"
    N = "len(content(flow))"
    LAST = "content(flow)[len(content(flow)) - 1]"
    CTX = "all_keys(lambda k: item(%s, k) == (present(old(self.count) + %s) if k == self.name else item(old(vctx(%s)), k)))"
    ix.add(Contract(
        FE, "Count.run", props=["C02"],
        params={"self": "Self[Count]", "flow": "Iter[V]"}, generator=True, yields="Any",
        requires=["pulled(flow) == 0"],
        ghost={"ctx_wf": ["isdict(c)"]},
        loops={0: LoopSpec(invariant=["pulled(flow) == _i + 1", "yield_count() == _i", "count == _i + 1",
                                      "prev_val is %s[_i]" % XS, "self.count == old(self.count)"])},
        at_yield=[
            # every value but the last passes as the very same object, one value behind the input
            "in_loop(0) implies yielded is %s[yield_count()] and pulled(flow) == yield_count() + 2" % XS,
            # the last one: its data with its own context, extended by the total count
            "not in_loop(0) implies yield_count() == %s - 1 and pulled(flow) == %s" % (N, N),
            "not in_loop(0) implies len(yielded) == 2",
            "not in_loop(0) and v_has_context(%s) implies yielded[0] is vdata(%s)" % (LAST, LAST),
            "not in_loop(0) and not v_has_context(%s) implies yielded[0] is %s" % (LAST, LAST),
            "not in_loop(0) implies " + CTX % ("yielded[1]", N, LAST)],
        ensures=["yield_count() == %s" % N, "self.count == old(self.count) + %s" % N,
                 "pulled(flow) == %s" % N],
        modifies=["self.count", "flow"]))
    ix.add(Contract(
        FE, "Count.fill_into", props=["C05"],
        params={"self": "Self[Count]", "element": "Obj", "value": "V"}, result=None,
        ghost={"elstate": True, "ctx_wf": ["isdict(c)"]},
        raises={"LenaStopFill": "?"},
        at_call={"fill": ["len(call_args[0]) == 2",
                          "v_has_context(value) implies call_args[0][0] is vdata(value)",
                          "not v_has_context(value) implies call_args[0][0] is value",
                          CTX % ("call_args[0][1]", "1", "value")]},
        ensures=["self.count == old(self.count) + 1",
                 # the element is filled exactly once, with that pair
                 "elstate(element) == el_fill_pair(element, old(elstate(element)), local(data), local(context))"],
        exc_ensures={"LenaStopFill": ["self.count == old(self.count) + 1"]},
        modifies=["self.count"]))


# ---------------------------------------------------------------------------------------------- Print
def register_print(ix):
    """`Print and return value`: a pass-through callable (as a Run element it inherits the laziness of Run._call_run);
    the print statement itself is dropped by the front end (DESIGN 2.5)"""
    PR = "lena/flow/print_.py"
    ix.add_class(ClassSpec("Print", PR, fields={"before": "Str", "sep": "Str", "end": "Str", "transform": "Obj"}))
    ix.add(Contract(PR, "Print.__call__", props=["C02"],
                    params={"self": "Self[Print]", "value": "V"}, result="V",
                    ensures=["result is value"]))


# ---------------------------------------------------------------------------------------------- CountFrom
def register_countfrom(ix):
    """`Generate numbers from start to infinity, with step between values.  Similar to itertools.count`: every call starts
    a new progression (the k-th value of EACH flow is start + k * step), arguments that are no numbers are rejected at
    construction with TypeError.  The flow has no end: there is no normal exit, the clauses live at the yields."""
    for ty in ("Int", "Real"):
        cs = "CountFrom" if ty == "Int" else "CountFrom_real"
        ix.add_class(ClassSpec(cs, IT, fields={"_start": ty, "_step": ty}, alias_of=None if ty == "Int" else "CountFrom"))
    ix.add_class(ClassSpec("CountFrom0", IT, fields={}, alias_of="CountFrom"))

    def call_case(ty, cs):
        return Contract(
            IT, "CountFrom.__call__", name="CountFrom.__call__[%s]" % ty.lower(),
            params={"self": "Self[%s]" % cs}, generator=True, yields=ty,
            loops={0: LoopSpec(invariant=["len(out) == _i",
                                          "all(out[k] == self._start + k * self._step for k in range(_i))"])},
            at_yield=["yielded == self._start + len(out) * self._step"],
            modifies=[])
    ix.add(Contract(IT, "CountFrom.__call__", props=["C17", "C02"],
                    cases=[call_case("Int", "CountFrom"), call_case("Real", "CountFrom_real")]))
    MOD = ["self._start", "self._step"]
    icases = []
    for a, b in (("Int", "Int"), ("Real", "Real"), ("Int", "Real"), ("Real", "Int")):
        icases.append(Contract(IT, "CountFrom.__init__", name="CountFrom.__init__[%s, %s]" % (a.lower(), b.lower()),
                               params={"self": "Self[CountFrom0]", "start": a, "step": b},
                               ensures=["self._start == start", "self._step == step"], modifies=MOD))
    for a, b in (("None", "Int"), ("Int", "None"), ("Str", "Int"), ("Int", "Str")):
        icases.append(Contract(IT, "CountFrom.__init__", name="CountFrom.__init__[%s, %s]" % (a.lower(), b.lower()),
                               params={"self": "Self[CountFrom0]", "start": a, "step": b},
                               raises={"TypeError": "True"}, modifies=MOD))
    ix.add(Contract(IT, "CountFrom.__init__", props=["C17"], cases=icases))


# ---------------------------------------------------------------------------------------------- Slice
ISLICE_LAMBDA = "lambda iterable: islice(iterable, *args)"
NEG_LAMBDA_1 = "lambda flow: self._run_negative_islice(flow)"
NEG_LAMBDA_K = "lambda flow: islice(self._run_negative_islice(flow), None, None, step)"


def slice_typings():
    """argument lists Slice(stop) / Slice(start, stop) / Slice(start, stop, step), every component an int or None:
    (tuple type, start, stop, step) with the components as spec expressions (None: the python None)"""
    import itertools
    out = []
    for n in (1, 2, 3):
        for tys in itertools.product(("Int", "None"), repeat=n):
            comp = ["args[%d]" % i if t == "Int" else None for i, t in enumerate(tys)]
            start, stop, step = (None, comp[0], None) if n == 1 else (comp[0], comp[1], None) if n == 2 else comp
            out.append(("Tuple[%s]" % ",".join(tys), start, stop, step))
    return out


def register_slice(ix):
    """C17: `Slice(start, stop, step) ... rejects other steps with LenaValueError at construction`.  The constructor
    distinguishes (a) all arguments None or >= 0: run IS itertools.islice(flow, *args) (the closure _islice) and fill_into
    walks islice(itertools.count(0), *args) (the ghost progression of C17.py); (b) some negative index: run is replaced by
    a closure over _run_negative_islice (steps other than 1 through islice(.., None, None, step))."""
    ix.add_class(ClassSpec("Slice0", IT, fields={}, alias_of="Slice"))
    MOD = ["self._islice", "self._indices", "self._next_index", "self._index", "self._start", "self._stop", "self._step",
           "self.run", "self._args"]
    cases, text_cases = [], []
    for ty, start, stop, step in slice_typings():
        ints = [c for c in (start, stop, step) if c is not None]
        nonneg = " and ".join("%s >= 0" % c for c in ints) or "True"
        k = step or "1"
        ens = ["self._args is args",
               # ---- (a) python slice semantics through the library
               "%s implies self._index == 0 and self._next_index == -1" % nonneg,
               "%s implies is_closure(self._islice, '%s', args=args)" % (nonneg, ISLICE_LAMBDA),
               "%s implies arith_next(self._indices) == %s and arith_step(self._indices) == %s" % (nonneg, start or "0", k),
               "%s implies arith_has_stop(self._indices) == %s" % (nonneg, "True" if stop else "False")]
        if stop:
            ens.append("%s implies arith_stop(self._indices) == %s" % (nonneg, stop))
        # ---- (b) negative indices
        # (how `run` is bound for negative indices is stated for step 1 only, and in both spellings a maintainer may
        # choose - a lambda delegating to _run_negative_islice or the bound method itself; the text of the closure used for
        # other steps is an implementation detail the property does not speak about: see `Slice.__init__#closure-text`)
        ens += ["not (%s) implies self._start is %s and self._stop is %s and self._step == %s" % (nonneg, start, stop, k),
                "not (%s) and %s == 1 implies (is_closure(self.run, '%s', self=self) or "
                "self.run is class_method(self, '_run_negative_islice'))" % (nonneg, k, NEG_LAMBDA_1)]
        text_cases.append(Contract(
            IT, "Slice.__init__", name="Slice.__init__#closure-text[%s]" % ty,
            params={"self": "Self[Slice0]", "args": ty}, vararg="args",
            raises={"LenaValueError": ("%s <= 0" % step) if step else "False"},
            ensures=["not (%s) and %s != 1 implies is_closure(self.run, '%s', self=self, step=%s)" % (nonneg, k, NEG_LAMBDA_K, k)],
            modifies=MOD))
        cases.append(Contract(
            IT, "Slice.__init__", name="Slice.__init__[%s]" % ty,
            params={"self": "Self[Slice0]", "args": ty}, vararg="args",
            raises={"LenaValueError": ("%s <= 0" % step) if step else "False"},
            ensures=ens, modifies=MOD))
    ix.add(Contract(IT, "Slice.__init__", props=["C17"], cases=cases,
                    notes="every int / None typing of 1..3 arguments; integers are unbounded (CPython also rejects indices "
                          "above sys.maxsize with ValueError)"))
    # not part of any check (a behaviour-preserving refactoring - bound methods instead of lambdas - violated it: the clause
    # demanded more than C17 states); kept as documentation of the current text
    ix.add(Contract(IT, "Slice.__init__", qualkey="Slice.__init__#closure-text", props=[], cases=text_cases))

    # ---- run, all arguments None or >= 0: `Yield values from flow from start to stop with step` == itertools.islice
    if not hasattr(ix, "closures"):
        ix.closures = {}
    ix.closures["slice_islice"] = (ISLICE_LAMBDA, {"args": "_args"}, {"islice": ("itertools", "islice")})
    XS, N = "content(flow)", "len(content(flow))"
    rcases, fcases = [], []
    for idx, (ty, start, stop, step) in enumerate(slice_typings()):
        S, K = (start or "0").replace("args", "self._args"), (step or "1").replace("args", "self._args")
        E = stop.replace("args", "self._args") if stop else None
        ints = [c.replace("args", "self._args") for c in (start, stop) if c is not None]
        cs = "Slice_nn_%d" % idx
        # what the constructor guarantees on this branch: indices >= 0, step >= 1 (islice accepted it)
        ix.add_class(ClassSpec(cs, IT, alias_of="Slice", fields={"_args": ty, "_islice": "Closure[slice_islice]"},
                               invariant=["%s >= 0" % c for c in ints] + (["%s >= 1" % K] if step else [])))
        IDX = "%s + {k} * %s" % (S, K)
        BOUND = "min(%s, %s)" % (E, N) if E else N
        inv = ["len(out) == _i",
               "pulled(flow) == (0 if _i == 0 else %s + 1)" % IDX.format(k="(_i - 1)"),
               "all(out[k] is %s[%s] for k in range(_i))" % (XS, IDX.format(k="k")),
               "_i == 0 or %s < %s" % (IDX.format(k="(_i - 1)"), BOUND)]
        ens = ["all(out[k] is %s[%s] for k in range(len(out)))" % (XS, IDX.format(k="k")),
               # len(out) is the number of indices start + k * step below min(stop, len(xs)): python's xs[start:stop:step]
               "len(out) == 0 or %s < %s" % (IDX.format(k="(len(out) - 1)"), BOUND),
               "%s >= %s" % (IDX.format(k="len(out)"), BOUND),
               # C02: never reads past what start / stop require
               ("pulled(flow) <= max(%s, %s)" % (S, E)) if E else "pulled(flow) == %s" % N]
        lazy = ["pulled(flow) == %s + 1" % IDX.format(k="_i"), "yielded is %s[%s]" % (XS, IDX.format(k="_i"))]
        if E:
            lazy.append("%s < %s" % (IDX.format(k="_i"), E))
        rcases.append(Contract(
            IT, "Slice.run", name="Slice.run[non-negative, %s]" % ty,
            params={"self": "Self[%s]" % cs, "flow": "Iter[V]"}, generator=True, yields="V",
            requires=["pulled(flow) == 0"],
            loops={0: LoopSpec(invariant=inv)}, at_yield=lazy, ensures=ens, modifies=["flow"]))
        if E:
            fcases.append(Contract(
                IT, "Slice.run", name="Slice.run[non-negative, %s, never past stop]" % ty,
                params={"self": "Self[%s]" % cs, "flow": "Iter[V]"}, generator=True, yields="V",
                requires=["pulled(flow) == 0"], loops={0: LoopSpec(invariant=inv)},
                ensures=["pulled(flow) <= %s" % E], modifies=["flow"]))
    ix.add(Contract(IT, "Slice.run", props=["C17", "C02"], cases=rcases,
                    notes="the returned itertools.islice object is verified as a generator delegating to it (the library "
                          "contract of islice gives the pulls)"))
    ix.add(Contract(IT, "Slice.run", qualkey="Slice.run#past-stop", props=[], cases=fcases,
                    notes="FINDING (fails on the unchanged tree for start > stop): Slice(start, stop) with start > stop "
                          "reads `start` values although no value can be selected"))

    # ---- _run_negative_islice: some index negative, step 1 (other steps: islice(.., None, None, step) over it, see __init__)
    n = "len(content(flow))"
    REF = "content(flow)[self._start:self._stop]"
    ST = "(0 if self._start is None else self._start)"
    M = "(-self._stop)"
    M2 = "(-self._start)"
    KEEP = "min(%s, %s)" % (M2, n)
    LO = "(%s - %s)" % (n, KEEP)
    P0 = "(0 if self._start is None else min(self._start, %s))" % n
    D_TAIL = "all(d[j] is content(flow)[%s - len(d) + j] for j in range(len(d)))" % n
    OUT_LO = "all(out[k] is content(flow)[%s + k] for k in range(len(out)))" % LO
    lag_inv = ["len(out) == _i", "pulled(flow) == min(%s + %s, %s) + _i" % (ST, M, n),
               "len(d) == min(%s, max(0, %s - %s))" % (M, n, ST),
               "all(d[j] is content(flow)[pulled(flow) - 1 - j] for j in range(len(d)))",
               "all(out[k] is content(flow)[%s + k] for k in range(_i))" % ST]
    LOOPS = {
        # fill_deque: the first maxlen values (fewer if the flow ends), newest first
        0: LoopSpec(invariant=["len(d) == _i", "pulled(flow) == %s + _i" % P0, "_i <= maxlen", "len(out) == 0",
                               "all(d[j] is content(flow)[%s + _i - 1 - j] for j in range(_i))" % P0]),
        # negative stop: hand out the oldest kept value for every new one -- the output lags |stop| values behind
        1: LoopSpec(invariant=lag_inv), 2: LoopSpec(invariant=lag_inv),
        # negative start, no stop: the last |start| values
        3: LoopSpec(invariant=["pulled(flow) == %s" % n, "len(out) + len(d) == %s" % KEEP, D_TAIL, OUT_LO], decreases="len(d)"),
        # negative start < negative stop
        4: LoopSpec(invariant=["pulled(flow) == %s" % n, "len_d == %s" % KEEP, "ind == len(out)", "ind >= 0",
                               "len(d) == len_d - ind", "ind <= max(0, len_d + self._stop)", D_TAIL, OUT_LO],
                    decreases="len_d + self._stop - ind"),
        # negative start, stop >= 0: stop reading as soon as the flow is known to be too long for anything to be selected
        5: LoopSpec(invariant=["ind == _i", "pulled(flow) == _i", "len(d) == min(_i, %s)" % M2, "len(out) == 0",
                               "ind <= self._stop - self._start",
                               "all(d[j] is content(flow)[_i - len(d) + j] for j in range(len(d)))"]),
        6: LoopSpec(invariant=["pulled(flow) == %s" % n, "ind == %s + len(out)" % LO, "len(d) == %s - ind" % n,
                               "ind <= max(self._stop, %s)" % LO,
                               "all(d[j] is content(flow)[ind + j] for j in range(len(d)))", OUT_LO],
                    decreases="len(d)"),
    }
    FWD = "(self._start is None or self._start >= 0)"          # the branches with a negative stop only
    ncases = []
    for sty, ety, inv in (("None", "Int", ["self._stop < 0"]), ("Int", "None", ["not (self._start >= 0)"]),      # (the form in which the code tests it)
                          ("Int", "Int", ["self._start < 0 or self._stop < 0"])):
        cs = "Slice_neg_%s_%s" % (sty.lower(), ety.lower())
        ix.add_class(ClassSpec(cs, IT, alias_of="Slice", fields={"_start": sty, "_stop": ety, "_step": "Int"},
                               invariant=inv + ["self._step >= 1"]))
        ncases.append(Contract(
            IT, "Slice._run_negative_islice", name="Slice._run_negative_islice[start: %s, stop: %s]" % (sty.lower(), ety.lower()),
            params={"self": "Self[%s]" % cs, "flow": "Iter[V]"}, generator=True, yields="V",
            requires=["pulled(flow) == 0"], loops=LOOPS,
            at_yield=[
                # C02: `a negative stop lags its input by exactly |stop| values` and keeps only |stop| of them alive
                "%s implies yielded is content(flow)[%s + len(out)]" % (FWD, ST),
                "%s implies pulled(flow) == %s + len(out) + %s + 1" % (FWD, ST, M),
                "%s implies len(d) + 1 <= %s" % (FWD, M),
                # a negative start needs the whole flow, of which it keeps |start| values
                "not %s implies pulled(flow) == %s and len(d) < %s" % (FWD, n, M2),
                "not %s implies yielded is content(flow)[%s + len(out)]" % (FWD, LO)],
            ensures=["len(out) == len(%s)" % REF, "all(out[k] is %s[k] for k in range(len(out)))" % REF,
                     # C02: no more is read than the indices require
                     "not %s and self._stop is not None and self._stop <= self._start implies pulled(flow) == 0" % FWD,
                     "not %s and self._stop is not None and self._stop >= 0 implies pulled(flow) <= self._stop - self._start + 1" % FWD],
            modifies=["flow"]))
    ix.add(Contract(IT, "Slice._run_negative_islice", props=["C17", "C02"], cases=ncases))


# ---------------------------------------------------------------------------------------------- RunningChunkBy
def register_chunks(ix):
    """C17: `RunningChunkBy equal[s] ... the sliding windows of the given size`: the k-th result is the container made of
    xs[k : k + size], there are max(0, len(xs) - size + 1) of them (`If the flow contains fewer than chunk_size values,
    nothing is yielded`).  Containers: tuple; an abstract constructor called with the window as ONE iterable
    (from_iterable=True) or with its items as positional arguments (e.g. a namedtuple).  The element reads one value ahead
    of the window it hands over (it learns only then that the window is not the last one)."""
    XS, N, CS = "content(flow)", "len(content(flow))", "self._cs"
    COUNT = "max(0, %s - %s + 1)" % (N, CS)

    def loop_inv(count, extra):
        return LoopSpec(invariant=["pulled(flow) == min(%s, %s) + _i" % (CS, N), "len(chunk) == min(%s, %s)" % (CS, N),
                                   "all(chunk[j] is %s[_i + j] for j in range(len(chunk)))" % XS, "%s == _i" % count] + extra)
    ix.add_class(ClassSpec("RunningChunkBy_tuple", FE, alias_of="RunningChunkBy", invariant=["self._cs >= 1"],
                           fields={"_cs": "Int", "_container": "Builtin[tuple]", "_from_iterable": "Bool"}))
    ix.add_class(ClassSpec("RunningChunkBy", FE, invariant=["self._cs >= 1", "not (self._container == tuple)"],
                           fields={"_cs": "Int", "_container": "Obj", "_from_iterable": "Bool"}))
    LAZY = "pulled(flow) == %s + {k} + (1 if in_loop(0) or in_loop(1) else 0)" % CS
    REFV = "(chunk_call(self._container, %s, {k}, %s) if self._from_iterable else chunk_call_star(self._container, %s, {k}, %s))" \
        % (XS, CS, XS, CS)
    ix.add(Contract(FE, "RunningChunkBy.run", props=["C17"], cases=[
        Contract(FE, "RunningChunkBy.run", name="RunningChunkBy.run[tuple]",
                 params={"self": "Self[RunningChunkBy_tuple]", "flow": "Iter[V]"}, generator=True, yields="Any",
                 requires=["pulled(flow) == 0"],
                 loops={0: loop_inv("yield_count()", []), 1: loop_inv("yield_count()", [])},
                 at_yield=["isinstance(yielded, tuple)", "len(yielded) == %s" % CS,
                           "all(yielded[j] is %s[yield_count() + j] for j in range(%s))" % (XS, CS),
                           "yield_count() + %s <= %s" % (CS, N), LAZY.format(k="yield_count()")],
                 ensures=["yield_count() == %s" % COUNT, "pulled(flow) == %s" % N],
                 modifies=["flow"]),
        Contract(FE, "RunningChunkBy.run", name="RunningChunkBy.run[abstract container]",
                 params={"self": "Self[RunningChunkBy]", "flow": "Iter[V]"}, generator=True, yields="V",
                 requires=["pulled(flow) == 0"],
                 loops={k: loop_inv("len(out)", ["all(out[k] is %s for k in range(_i))" % REFV.format(k="k")]) for k in (0, 1)},
                 raises={"Exception": "?"},          # the container's constructor may raise
                 at_yield=["yielded is %s" % REFV.format(k="len(out)"), "len(out) + %s <= %s" % (CS, N),
                           LAZY.format(k="len(out)")],
                 ensures=["len(out) == %s" % COUNT, "all(out[k] is %s for k in range(len(out)))" % REFV.format(k="k"),
                          "pulled(flow) == %s" % N],
                 modifies=["flow"]),
    ]))


# ---------------------------------------------------------------------------------------------- Progress
def register_progress(ix):
    """`Consume the flow, then yield values one by one and print progress`: a pass-through that is documented to be eager
    (it must know the total); the values come out unchanged and in order"""
    PG = "lena/flow/progress.py"
    XS, N = "content(flow)", "len(content(flow))"
    ix.add_class(ClassSpec("Progress", PG, fields={"_format": "Str", "_name": "Str"}))
    ix.add(Contract(
        PG, "Progress.run", props=["C02"],
        params={"self": "Self[Progress]", "flow": "Iter[V]"}, generator=True, yields="V",
        requires=["pulled(flow) == 0"],
        loops={0: LoopSpec(invariant=["len(out) == _i", "total == %s" % N, "len(values) == total - _i",
                                      "all(values[j] is %s[_i + j] for j in range(len(values)))" % XS,
                                      "all(out[k] is %s[k] for k in range(_i))" % XS, "pulled(flow) == %s" % N])},
        at_yield=["yielded is %s[len(out)]" % XS, "pulled(flow) == %s" % N],
        ensures=["len(out) == %s" % N, "all(out[k] is %s[k] for k in range(len(out)))" % XS, "pulled(flow) == %s" % N],
        modifies=["flow"]))


# ---------------------------------------------------------------------------------------------- Chain
def register_chain(ix):
    """C17: `Chain ... equal[s] itertools.chain`: `after the first [iterable] is exhausted, the second is called, etc.` --
    for sequences (lists): the concatenation, for 0..3 of them"""
    ix.add_class(ClassSpec("Chain0", IT, fields={}, alias_of="Chain"))
    ccases, icases = [], []
    for n in range(4):
        ty = "Tuple[%s]" % ",".join(["Lst[V]"] * n)
        cs = "Chain_%d" % n
        ix.add_class(ClassSpec(cs, IT, fields={"_iterables": ty}, alias_of="Chain"))
        ref = "None"
        off = " + ".join("len(self._iterables[%d])" % j for j in range(n)) or "0"
        for j in reversed(range(n)):
            start = " + ".join("len(self._iterables[%d])" % i for i in range(j)) or "0"
            item = "self._iterables[%d][k - (%s)]" % (j, start)
            ref = item if j == n - 1 else "(%s if k < %s + len(self._iterables[%d]) else %s)" % (item, start, j, ref)
        inv = ["len(out) == _i"] + (["all(out[k] is %s for k in range(_i))" % ref] if n else [])
        ccases.append(Contract(
            IT, "Chain.__call__", name="Chain.__call__[%d lists]" % n,
            params={"self": "Self[%s]" % cs}, generator=True, yields="V",
            loops={0: LoopSpec(invariant=inv)} if n else {},
            ensures=["len(out) == %s" % off] + (["all(out[k] is %s for k in range(len(out)))" % ref] if n else [])))
        icases.append(Contract(IT, "Chain.__init__", name="Chain.__init__[%d lists]" % n,
                               params={"self": "Self[Chain0]", "iterables": ty}, vararg="iterables",
                               ensures=["self._iterables is iterables"], modifies=["self._iterables"]))
    ix.add(Contract(IT, "Chain.__call__", props=["C17"], cases=ccases))
    ix.add(Contract(IT, "Chain.__init__", props=["C17"], cases=icases))
