"""P_flow -- flow elements of C17 (iterators equal their python reference), C02 (laziness) and C15 (selectors).
Sidecar contracts of lena/flow/iterators.py, lena/flow/elements.py, lena/flow/filter.py, lena/flow/selectors.py.
Slice.fill_into / Reverse.run are in C17.py, RunIf.run in C02.py, Selector.__call__ / Not / And / Or in C15.py."""
from pyvc.contracts import Contract, LoopSpec, ClassSpec

IT = "lena/flow/iterators.py"
FE = "lena/flow/elements.py"
FI = "lena/flow/filter.py"
SE = "lena/flow/selectors.py"


def register(ix):
    register_specs(ix)
    register_end(ix)
    register_filter(ix)
    register_selectors(ix)


# ---------------------------------------------------------------------------------------------- reference functions
def register_specs(ix):
    from pyvc.smt import T
    from pyvc.sym import Num, Bool
    from pyvc.speclib import lst_term, obj_term, v_term

    def selected_decl(reg):
        """selected(s, v): the callable s applied to v returns normally and its result is true"""
        reg.ufun("el_call", ["Obj", "V"], "V")
        reg.ufun("el_call_raises", ["Obj", "V"], "Bool")
        reg.ufun("v_truthy", ["V"], "Bool")
        reg.fun_decl("selected", "(define-fun selected ((s Obj) (v V)) Bool (and (not (el_call_raises s v)) (v_truthy (el_call s v))))")

    def sp_selected(ip, st, pos, kws):
        selected_decl(ip.reg)
        return Bool(T("(selected %s %s)" % (obj_term(pos[0]).s, v_term(ip, pos[1]).s), "Bool"))

    def sp_nsel(ip, st, pos, kws):
        """nsel(s, xs, n): how many of xs[0..n) the callable s selects (reference for filtering: the k-th selected value
        of xs is the one with nsel(s, xs, index) == k)"""
        reg = ip.reg
        sort = reg.lst("V")
        selected_decl(reg)
        reg.fun_decl("nsel", "(define-fun-rec nsel ((s Obj) (xs %s) (n Int)) Int (ite (<= n 0) 0 "
                             "(+ (nsel s xs (- n 1)) (ite (selected s (select (arr_%s xs) (- n 1))) 1 0))))" % (sort, sort))
        xs = lst_term(ip, st, pos[1], sort)
        return Num(T("(nsel %s %s %s)" % (obj_term(pos[0]).s, xs.s, ip.num(pos[2]).s), "Int"))
    ix.spec_names["selected"] = sp_selected
    ix.spec_names["nsel"] = sp_nsel

    # ---- leaves of selectors: a leaf is a python callable -- an abstract one (sort Obj) or a closure created by the code
    # under verification (a lambda with its environment, applied by running its own body)
    from pyvc.sym import Opaque, Fun
    from pyvc.smt import AND, OR, IMP, NOT, TRUE, FALSE

    def apply_leaf(ip, st, f, v):
        """all outcomes of f(v): ([(extra path conditions, value)], [(extra path conditions, exception)])"""
        from pyvc.calls import call_value
        from pyvc.interp import Unsupported
        if not (isinstance(f, Fun) and f.kind == "lambda"):
            raise Unsupported("leaf of a selector: abstract callable or lambda expected, got %r" % (f,))
        s0 = st.copy()
        n, ne = len(s0.pc), len(ip._exc_out)
        saved, ip.spec_mode = ip.spec_mode, 0        # the closure's body is code, not a specification: exceptions are explored
        try:
            outs = call_value(ip, s0, f, [v], {})
        finally:
            ip.spec_mode = saved
        exc = ip._exc_out[ne:]
        del ip._exc_out[ne:]
        return [(s.pc[n:], r) for s, r in outs], [(s.pc[n:], e) for s, e in exc]

    def sp_leaf_true(ip, st, pos, kws):
        """leaf_true(f, v): f(v) returns normally with a true value"""
        f, v = pos
        if isinstance(f, Opaque) and f.sort == "Obj":
            return sp_selected(ip, st, [f, v], {})
        outs, _ = apply_leaf(ip, st, f, v)
        return Bool(OR(*[AND(*(list(h) + [ip.truth(st, r)])) for h, r in outs]))

    def sp_leaf_raises(ip, st, pos, kws):
        """leaf_raises(f, v): f(v) raises"""
        f, v = pos
        if isinstance(f, Opaque) and f.sort == "Obj":
            ip.reg.ufun("el_call_raises", ["Obj", "V"], "Bool")
            return Bool(T("(el_call_raises %s %s)" % (f.t.s, v_term(ip, v).s), "Bool"))
        _, exc = apply_leaf(ip, st, f, v)
        return Bool(OR(*[AND(*h) for h, e in exc]))

    def sp_forall_v(ip, st, pos, kws):
        """forall_v(lambda v: body): body holds for every flow value v"""
        from pyvc.calls import call_value
        f = pos[0]
        ip.reg.need("V")
        q = T("fv%d" % next(ip.bound), "V")
        outs = call_value(ip, st.copy(), f, [Opaque(q)], {})
        if len(outs) != 1:
            raise U_("forall_v: the body forks")
        body = ip.truth(st, outs[0][1])
        extra = outs[0][0].pc[len(st.pc):]
        return Bool(T("(forall ((%s V)) %s)" % (q.s, IMP(AND(*extra), body).s), "Bool"))

    def U_(msg):
        from pyvc.interp import Unsupported
        return Unsupported(msg)

    def is_class_term(ip, v):
        """inspect.isclass(v): abstract objects may be classes (a predicate of the object); python values that the
        encoding knows are instances (numbers, strings, None, containers, objects) are not; class objects are"""
        if isinstance(v, Opaque) and v.sort == "Obj":
            f = ip.reg.ufun("is_class_Obj", ["Obj"], "Bool")
            return T("(%s %s)" % (f, v.t.s), "Bool")
        if isinstance(v, Fun):
            if v.kind in ("class", "exc", "namedtuple"):
                return TRUE
            if v.kind == "builtin":
                return TRUE if v.name in ("int", "float", "bool", "str", "list", "tuple", "dict", "object", "type", "set") else FALSE
            if v.kind in ("lambda", "def", "bound", "contract", "elem-method", "method"):
                return FALSE
            raise U_("inspect.isclass of %r" % (v,))
        from pyvc.sym import Num as N_, Str as S_, NoneV as No_, Tup as Tu_, Ref as R_, View as V_
        if isinstance(v, (N_, Bool, S_, No_, Tu_, R_, V_)) or (isinstance(v, Opaque) and v.sort in ("Key", "Val")):
            return FALSE
        raise U_("inspect.isclass of %r" % (v,))

    def lib_isclass(ip, st, pos, kws):
        ip.assumptions.add("library contract (tier A): inspect.isclass(x) is a predicate of x (False for instances)")
        return [(st, Bool(is_class_term(ip, pos[0])))]
    ix.lib[("inspect", "isclass")] = lib_isclass

    def sp_ctx_contains(ip, st, pos, kws):
        """ctx_contains(d, s): lena.context.contains(d, s) as a function of the VALUE of the dictionary and the string"""
        from pyvc.dicts import dterm
        ip.reg.need_val()
        f = ip.reg.ufun("ctx_contains", ["Val", "Key"], "Bool")
        return Bool(T("(%s %s %s)" % (f, dterm(ip, st, pos[0]).s, ip.key_term(pos[1]).s), "Bool"))
    for name, fn in [("leaf_true", sp_leaf_true), ("leaf_raises", sp_leaf_raises), ("forall_v", sp_forall_v),
                     ("isclass", lambda ip, st, pos, kws: Bool(is_class_term(ip, pos[0]))), ("ctx_contains", sp_ctx_contains)]:
        ix.spec_names[name] = fn


# ---------------------------------------------------------------------------------------------- End
def register_end(ix):
    """`Exhaust all preceding flow and stop iteration (yield nothing to the following flow)`"""
    ix.add_class(ClassSpec("End", FE, fields={}))
    ix.add(Contract(
        FE, "End.run", props=["C02"],
        params={"self": "Self[End]", "flow": "Iter[V]"}, generator=True, yields="V",
        loops={0: LoopSpec(invariant=["len(out) == 0"])},
        ensures=["len(out) == 0", "pulled(flow) == len(content(flow))"],
        modifies=["flow"]))


# ---------------------------------------------------------------------------------------------- Filter
def register_filter(ix):
    """`Yield values from the flow for which the selector is True` / `Fill value into an element if selector(value) is
    True`: the results are the selected values, in order, each the very object that came in (C15: Filter keeps exactly the
    selected values); C02: when the k-th result is handed over nothing beyond the value it came from has been pulled."""
    S = "self._selector"
    XS = "content(flow)"
    ix.add_class(ClassSpec("Filter", FI, fields={"_selector": "Obj"}))
    INV = ["pulled(flow) == _i", "len(out) == nsel(%s, %s, _i)" % (S, XS),
           # position of every selected value among the results (with the two bounds that make it inductive)
           "all(implies(selected(%s, %s[k]), nsel(%s, %s, k) < len(out) and out[nsel(%s, %s, k)] is %s[k]) for k in range(_i))"
           % (S, XS, S, XS, S, XS, XS),
           "all(nsel(%s, %s, k) <= len(out) for k in range(_i + 1))" % (S, XS),
           "all(not el_call_raises(%s, %s[k]) for k in range(_i))" % (S, XS)]
    ix.add(Contract(
        FI, "Filter.run", props=["C15", "C02"],
        params={"self": "Self[Filter]", "flow": "Iter[V]"}, generator=True, yields="V",
        requires=["pulled(flow) == 0"],
        loops={0: LoopSpec(invariant=INV)},
        # an exception of the selector travels through the generator (Selector objects decide themselves: raise_on_error)
        raises={"Exception": "any(el_call_raises(%s, %s[k]) for k in range(len(%s)))" % (S, XS, XS)},
        at_yield=["pulled(flow) == _i + 1", "yielded is %s[_i]" % XS, "selected(%s, yielded)" % S,
                  "len(out) == nsel(%s, %s, _i)" % (S, XS)],
        ensures=["len(out) == nsel(%s, %s, len(%s))" % (S, XS, XS),
                 "all(implies(selected(%s, %s[k]), out[nsel(%s, %s, k)] is %s[k]) for k in range(len(%s)))" % (S, XS, S, XS, XS, XS),
                 "pulled(flow) == len(%s)" % XS],
        modifies=["flow"]))
    ix.add(Contract(
        FI, "Filter.fill_into", props=["C15"],
        params={"self": "Self[Filter]", "element": "Obj", "value": "V"}, result=None, ghost={"elstate": True},
        # (LenaStopFill first: the more specific class is matched first; any OTHER exception comes from the selector)
        raises={"LenaStopFill": "selected(%s, value) and el_fill_stops(element, old(elstate(element)), value)" % S,
                "Exception": "el_call_raises(%s, value)" % S},
        ensures=["selected(%s, value) implies elstate(element) == el_fill(element, old(elstate(element)), value)" % S,
                 "not selected(%s, value) implies elstate(element) == old(elstate(element))" % S],
        exc_ensures={"Exception": ["elstate(element) == old(elstate(element))"]}))


# ---------------------------------------------------------------------------------------------- selectors
def register_selectors(ix):
    """C15: `a string tests the context with contains, a class tests the type of the data, a callable is applied, a list
    is OR, a tuple is AND` -- what the constructors make of a specification.  A leaf is characterised by what applying it
    to ANY flow value gives (leaf_true / leaf_raises, quantified by forall_v); callers see a new Selector as an object whose
    `_selector` is an abstract callable with exactly these facts (post_class), which is what Selector.__call__ / Not / And /
    Or of C15.py start from."""
    CF = "lena/context/functions.py"
    ix.add(Contract(CF, "contains", props=[], trusted=True, params={"d": "Dict", "s": "Str"}, result="Bool",
                    ensures=["result == ctx_contains(d, s)"],
                    notes="assumed at the call in the string leaf of Selector.__init__: lena.context.contains is a function "
                          "of the value of the dictionary and the string, raises nothing and changes nothing (its own "
                          "behaviour -- splitting the string at dots -- is outside the encoding of strings)"))
    ix.add_class(ClassSpec("Selector0", SE, fields={}, alias_of="Selector"))
    MOD = ["self._selector_repr", "self._from_callable", "self._orig_class", "self._orig_str", "self._selector",
           "self._raise_on_error"]
    NOT_CONTAINER = ["not isinstance(%s, str)", "not isinstance(%s, list)", "not isinstance(%s, tuple)"]
    CLS_REF = "(isinstance(vdata(v), {x}) if v_has_context(v) else isinstance(v, {x}))"

    def leaf_post(leaf, x):
        """the leaf made of the abstract object x (a class or a callable)"""
        return ["isclass({x}) implies forall_v(lambda v: leaf_true({l}, v) == %s)" % CLS_REF,
                "isclass({x}) implies forall_v(lambda v: not leaf_raises({l}, v))",
                "not isclass({x}) implies {l} is {x}"], "not isclass({x}) and not callable({x})"

    def fmt(clauses, **kw):
        return [c.format(**kw) for c in clauses]
    post, bad = leaf_post("self._selector", "selector")
    cases = [
        Contract(SE, "Selector.__init__", name="Selector.__init__[class, callable or other object]",
                 params={"self": "Self[Selector0]", "selector": "Obj", "raise_on_error": "Bool"},
                 requires=[r % "selector" for r in NOT_CONTAINER],
                 raises={"LenaTypeError": bad.format(x="selector")},
                 ensures=["self._raise_on_error == raise_on_error"] + fmt(post, l="self._selector", x="selector"),
                 modifies=MOD, post_class="Selector"),
        Contract(SE, "Selector.__init__", name="Selector.__init__[string]",
                 params={"self": "Self[Selector0]", "selector": "Str", "raise_on_error": "Bool"},
                 ensures=["self._raise_on_error == raise_on_error",
                          "forall_v(lambda v: leaf_true(self._selector, v) == ctx_contains(vctx(v), selector))",
                          "forall_v(lambda v: not leaf_raises(self._selector, v))"],
                 modifies=MOD, post_class="Selector"),
    ]
    for ty in ("Int", "Real", "None", "Bool"):
        cases.append(Contract(SE, "Selector.__init__", name="Selector.__init__[%s]" % ty.lower(),
                              params={"self": "Self[Selector0]", "selector": ty, "raise_on_error": "Bool"},
                              raises={"LenaTypeError": "True"}, modifies=MOD))
    ix.add(Contract(SE, "Selector.__init__", props=["C15"], cases=cases))
