"""C05 -- adapters accept exactly the documented kinds, delegate to exactly the named method and raise LenaTypeError
otherwise (loop-free: the proof is complete over the abstract predicate space callable(el) / callable_m(el, name) / ...).
Sidecar contracts of lena/core/adapters.py and lena/core/check_sequence_type.py."""
from pyvc.contracts import Contract, LoopSpec, ClassSpec

AD = "lena/core/adapters.py"
CT = "lena/core/check_sequence_type.py"
SENT = "Sentinel[lena.core.adapters._SENTINEL]"

IS_FC = "(has_attr(el, 'fill') and has_attr(el, 'compute') and callable_m(el, 'fill') and callable_m(el, 'compute'))"
IS_RUN = "(has_attr(el, 'run') and callable_m(el, 'run'))"


def register(ix):
    # tiny predicates of check_sequence_type are executed in place from their real ASTs (inline)
    for fn in ("is_fill_compute_el", "is_fill_request_el", "is_run_el"):
        ix.add(Contract(CT, fn, props=[], params={"obj": "Obj"}, result="Bool", inline=True))

    # ------------------------------------------------------------------ Run.__init__
    ix.add_class(ClassSpec("Run0", AD, fields={}, alias_of="Run"))
    ix.add(Contract(
        AD, "Run.__init__", props=["C05", "C01"], inline=True,
        cases=[
            Contract(AD, "Run.__init__", name="Run.__init__[no method name]",
                     params={"self": "Self[Run0]", "el": "Obj", "run": SENT},
                     raises={"LenaTypeError": "not (callable_m(el, 'run') or callable(el) or %s)" % IS_FC},
                     ensures=["self._el is el", "self._run_name is None",
                              "callable_m(el, 'run') implies self.run is method(el, 'run')",
                              "not callable_m(el, 'run') and callable(el) implies self.run is self._call_run",
                              "not callable_m(el, 'run') and not callable(el) implies self.run is self._fc_run"],
                     modifies=["self.run", "self._run_name", "self._el"]),
            Contract(AD, "Run.__init__", name="Run.__init__[method name, element]",
                     params={"self": "Self[Run0]", "el": "Obj", "run": "Str"},
                     raises={"LenaTypeError": "not callable_m(el, run)"},
                     ensures=["self._el is el", "self._run_name == run", "self.run is method(el, run)"],
                     modifies=["self.run", "self._run_name", "self._el"]),
            Contract(AD, "Run.__init__", name="Run.__init__[function, no element]",
                     params={"self": "Self[Run0]", "el": "None", "run": "Obj"},
                     ensures=["self._el is None", "self.run is run"],
                     modifies=["self.run", "self._run_name", "self._el"]),
        ]))
    # ------------------------------------------------------------------ Call / SourceEl: _init_callable
    ix.add_class(ClassSpec("Call0", AD, fields={}, alias_of="Call"))
    ix.add(Contract(
        AD, "_init_callable", props=["C05"], inline=True,
        cases=[
            Contract(AD, "_init_callable", name="_init_callable[no method name]",
                     params={"self": "Self[Call0]", "el": "Obj", "call": SENT},
                     raises={"LenaTypeError": "not callable(el)"},
                     ensures=["self._el is el", "self._call is el"],
                     modifies=["self._call", "self._el"]),
            Contract(AD, "_init_callable", name="_init_callable[method name]",
                     params={"self": "Self[Call0]", "el": "Obj", "call": "Str"},
                     raises={"LenaTypeError": "not callable_m(el, call)"},
                     ensures=["self._el is el", "self._call is method(el, call)"],
                     modifies=["self._call", "self._el"]),
        ]))
    ix.add(Contract(
        AD, "Call.__init__", props=["C05"],
        cases=[
            Contract(AD, "Call.__init__", name="Call.__init__[no method name]",
                     params={"self": "Self[Call0]", "el": "Obj", "call": SENT},
                     raises={"LenaTypeError": "not callable(el)"},
                     ensures=["self._el is el", "self._call is el"],
                     modifies=["self._call", "self._el"]),
            Contract(AD, "Call.__init__", name="Call.__init__[method name]",
                     params={"self": "Self[Call0]", "el": "Obj", "call": "Str"},
                     raises={"LenaTypeError": "not callable_m(el, call)"},
                     ensures=["self._el is el", "self._call is method(el, call)"],
                     modifies=["self._call", "self._el"]),
        ]))
    ix.add_class(ClassSpec("Call1", AD, fields={"_call": "Obj", "_el": "Obj"}, alias_of="Call"))
    ix.add(Contract(
        AD, "Call.__call__", props=["C05"],
        params={"self": "Self[Call1]", "value": "V"}, result="V",
        ensures=["result == el_call(self._call, value)"]))
    # ------------------------------------------------------------------ SourceEl
    ix.add_class(ClassSpec("SourceEl0", AD, fields={}, alias_of="SourceEl"))
    ix.add(Contract(
        AD, "SourceEl.__init__", props=["C05"],
        cases=[
            Contract(AD, "SourceEl.__init__", name="SourceEl.__init__[no method name, callable]",
                     params={"self": "Self[SourceEl0]", "el": "Obj", "call": SENT},
                     requires=["callable(el)"],
                     ensures=["self._el is el", "self._call is el"],
                     modifies=["self._call", "self._el"]),
            Contract(AD, "SourceEl.__init__", name="SourceEl.__init__[no method name, not callable]",
                     params={"self": "Self[SourceEl0]", "el": "Obj", "call": SENT},
                     requires=["not callable(el)"],
                     raises={"LenaTypeError": "not has_attr(el, '__iter__')"},
                     ensures=["self._el is el"],
                     modifies=["self._call", "self._el"]),
            Contract(AD, "SourceEl.__init__", name="SourceEl.__init__[method name]",
                     params={"self": "Self[SourceEl0]", "el": "Obj", "call": "Str"},
                     raises={"LenaTypeError": "not callable_m(el, call)"},
                     ensures=["self._el is el", "self._call is method(el, call)"],
                     modifies=["self._call", "self._el"]),
        ]))
    # ------------------------------------------------------------------ FillCompute
    ix.add_class(ClassSpec("FillCompute0", AD, fields={}, alias_of="FillCompute"))
    ix.add(Contract(
        AD, "FillCompute.__init__", props=["C05"],
        params={"self": "Self[FillCompute0]", "el": "Obj", "fill": "Str", "compute": "Str"},
        raises={"LenaTypeError": "not callable_m(el, fill) or not (callable_m(el, compute) or callable_m(el, 'request'))"},
        ensures=["self._el is el", "self.fill is method(el, fill)",
                 "callable_m(el, compute) implies self.compute is method(el, compute)",
                 "not callable_m(el, compute) implies self.compute is method(el, 'request')"],
        modifies=["self.fill", "self.compute", "self._el"]))
    # ------------------------------------------------------------------ FillInto
    ix.add_class(ClassSpec("FillInto0", AD, fields={}, alias_of="FillInto"))
    ix.add(Contract(
        AD, "FillInto.__init__", props=["C05"],
        cases=[
            Contract(AD, "FillInto.__init__", name="FillInto.__init__[no method name]",
                     params={"self": "Self[FillInto0]", "el": "Obj", "fill_into": SENT},
                     raises={"LenaTypeError": "not (callable_m(el, 'fill_into') or (callable(el) and not is_instance_of(el, 'Split')) "
                                              "or (%s and has_attr(el, '_can_break_flow')))" % IS_RUN},
                     ensures=["self._el is el",
                              "callable_m(el, 'fill_into') implies self.fill_into is method(el, 'fill_into')",
                              # a callable keeps the default implementation: element.fill(self._el(value))
                              "not callable_m(el, 'fill_into') and callable(el) and not is_instance_of(el, 'Split') implies self.fill_into is class_method(self, 'fill_into')",
                              "not callable_m(el, 'fill_into') and not (callable(el) and not is_instance_of(el, 'Split')) implies self.fill_into is self._run_fill_into"],
                     modifies=["self.fill_into", "self._el"]),
            Contract(AD, "FillInto.__init__", name="FillInto.__init__[method name]",
                     params={"self": "Self[FillInto0]", "el": "Obj", "fill_into": "Str"},
                     raises={"LenaTypeError": "not callable_m(el, fill_into)"},
                     ensures=["self._el is el", "self.fill_into is method(el, fill_into)"],
                     modifies=["self.fill_into", "self._el"]),
        ]))
    ix.add_class(ClassSpec("FillInto1", AD, fields={"_el": "Obj"}, alias_of="FillInto"))
    ix.add(Contract(
        AD, "FillInto.fill_into", props=["C05"],
        params={"self": "Self[FillInto1]", "element": "Obj", "value": "V"},
        raises={"LenaStopFill": "?"}, ghost={"elstate": True},
        ensures=["elstate(element) == el_fill(element, old(elstate(element)), el_call(self._el, value))"]))
    ix.add(Contract(
        AD, "FillInto._run_fill_into", props=["C05"],
        params={"self": "Self[FillInto1]", "element": "Obj", "value": "V"},
        raises={"LenaStopFill": "?"}, ghost={"elstate": True},
        loops={0: LoopSpec(invariant=[
            "elstate(element) == fold_fill(element, old(elstate(element)), el_run(self._el, [value]), _i)"])},
        ensures=["elstate(element) == fold_fill(element, old(elstate(element)), el_run(self._el, [value]), "
                 "len(el_run(self._el, [value])))"]))

