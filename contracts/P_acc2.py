"""P_acc2 -- third wave, accumulators: the parts of C09 / C04 / C10 / C19 that were bounded-only after P_acc.py.

  * lena/math/elements.py  Vectorize.__init__ (components, LenaTypeError conditions, reset installed iff every component can
    be reset) + the lemma `reset() equals a new Vectorize over new components`.
"""
from pyvc.contracts import Contract, LoopSpec, ClassSpec
from pyvc.verify import Lemma

ME = "lena/math/elements.py"


def sp_attr_of(ip, st, pos, kws):
    """attr_of(el, 'name'): the object held by the data attribute <name> of the abstract element el (meaningful when
    has_attr(el, 'name'); ghost obj_attrs, pyvc/vmembers.py)"""
    from pyvc.vmembers import obj_attr_term
    from pyvc.sym import Opaque
    return Opaque(obj_attr_term(ip, pos[0], pos[1].s))


def register(ix):
    ix.spec_names["attr_of"] = sp_attr_of
    register_vectorize_init(ix)
    register_graph_el(ix)


# ---------------------------------------------------------------------------------------------- Vectorize.__init__
# the FillCompute element of a component: `_seq._fill_compute` for a FillComputeSeq, the component itself otherwise
FC = "(attr_of({s}, '_fill_compute') if has_attr({s}, '_fill_compute') else {s})"
RESETTABLE = "(has_attr({e}, 'reset') and callable_m({e}, 'reset'))"
IS_FC = "(has_attr({e}, 'fill') and has_attr({e}, 'compute') and callable_m({e}, 'fill') and callable_m({e}, 'compute'))"
DISTINCT = ("all(all(implies(i != j, self._seqs[i] is not self._seqs[j]) for j in range(len(self._seqs))) "
            "for i in range(len(self._seqs)))")
FCK = FC.format(s="self._seqs[k]")
ALLRES = "all(%s for k in range(len(self._seqs)))" % RESETTABLE.format(e=FCK)


def register_vectorize_init(ix):
    """`seq must be a FillCompute element or sequence.  dim is the dimension of the input data (and of the constructed
    structure).  seq may also be a list of sequences, in that case dim may be omitted.`  The components are the given
    sequences, or the element and dim - 1 deep copies of it (new, pairwise different objects: what fill relies on, the
    object invariant of the Vectorize view of P_acc.py).  `_reset`: `If every sequence has a reset() method, this class is
    reset by resetting each FillCompute element ... available as reset only if all sequences have reset methods`."""
    ix.add_class(ClassSpec("Vectorize0", ME, fields={}, alias_of="Vectorize"))
    MOD = ["self._seqs", "self._fc_els", "self.reset", "self._construct", "self._dim", "self._cur_context", "self._filled_once"]
    LOOP = {0: LoopSpec(invariant=[
        "len(fc_els) == _i", "0 <= nresets <= _i",
        "all(fc_els[k] is %s for k in range(_i))" % FCK,
        # (the counter reaches the number of components iff every one of them can be reset)
        "(nresets == _i) == all(%s for k in range(_i))" % RESETTABLE.format(e=FCK)])}
    COMMON = ["self._dim == len(self._seqs)", "self._cur_context == emptydict()", "self._construct is construct",
              # reset is installed exactly when the FillCompute element of every component has a callable reset ...
              "has_attr(self, 'reset') == %s" % ALLRES,
              # ... and then it resets exactly those elements, one per component, in order
              "%s implies len(self._fc_els) == len(self._seqs) and all(self._fc_els[k] is %s for k in range(len(self._seqs)))"
              % (ALLRES, FCK)]

    def list_case(cty, extra_req=(), name=""):
        return Contract(
            ME, "Vectorize.__init__", name="Vectorize.__init__[list of sequences, construct:%s%s]" % (cty, name),
            params={"self": "Self[Vectorize0]", "seq": "Lst[Obj]", "dim": "Int", "construct": cty},
            defaults={"dim": -1, "construct": None}, ghost={"obj_attrs": {"_fill_compute": "Obj"}, "elstate": True},
            requires=list(extra_req),
            # `seq may also be a list of sequences, in that case dim may be omitted` (-1 = omitted)
            raises={"LenaTypeError": "dim != -1"},
            local_types={"fc_els": "Lst[Obj]"}, loops=LOOP,
            ensures=["len(self._seqs) == len(seq)", "all(self._seqs[k] is seq[k] for k in range(len(seq)))",
                     # constructing the vector runs no component: their states are those the caller handed over
                     "all(elstate(seq[k]) == old(elstate(seq[k])) for k in range(len(seq)))",
                     "all(elstate({f}) == old(elstate({f})) for k in range(len(seq)))".format(f=FC.format(s="seq[k]"))] + COMMON,
            modifies=MOD)

    def el_case(cty, req, name=""):
        return Contract(
            ME, "Vectorize.__init__", name="Vectorize.__init__[element or sequence, dim, construct:%s%s]" % (cty, name),
            params={"self": "Self[Vectorize0]", "seq": "Obj", "dim": "Int", "construct": cty},
            defaults={"dim": -1, "construct": None}, ghost={"obj_attrs": {"_fill_compute": "Obj"}, "elstate": True},
            requires=["not isinstance(seq, list)"] + list(req),
            # `seq must be a FillCompute element or sequence`; the dimension must be given
            raises={"LenaTypeError": "dim == -1 or not %s" % IS_FC.format(e="seq")},
            local_types={"fc_els": "Lst[Obj]"}, loops=LOOP,
            ensures=["len(self._seqs) == dim", "self._seqs[0] is seq",
                     # the other components are deep copies of seq made by this call: none of them existed before
                     "all(copy_of(self._seqs[k], seq) and new_object(self._seqs[k]) for k in range(1, dim))",
                     "elstate(seq) == old(elstate(seq))", DISTINCT] + COMMON,
            modifies=MOD)
    ix.add(Contract(ME, "Vectorize.__init__", props=["C09"],
                    cases=[list_case("None"), list_case("Obj"),
                           el_case("None", ["dim == -1 or dim >= 1"]), el_case("Obj", ["dim == -1 or dim >= 1"])]))
    # ---- FINDING on the unchanged tree (props=[]): `dim is the dimension of the input data (and of the constructed structure)`
    # read for every integer but the `omitted` marker -1: a dimension below 1 is accepted silently and a ONE-component element is built
    ix.add(Contract(ME, "Vectorize.__init__", qualkey="Vectorize.__init__#any-dim", props=[],
                    cases=[el_case("None", [], " (FAILS: dim < 1 builds one component)")]))

    # ---- lemma: reset() equals a newly constructed element
    # the view of a Vectorize that has `reset` (what __init__ establishes when every component can be reset)
    P = ix.classes["Vectorize"]
    ix.add_class(ClassSpec("Vectorize_r", ME, fields=dict(P.fields), alias_of="Vectorize",
                           invariant=list(P.invariant) + [
                               ALLRES, "self._dim == len(self._seqs)", "len(self._fc_els) == len(self._seqs)",
                               "all(self._fc_els[k] is %s for k in range(len(self._seqs)))" % FCK]))
    ix.lemmas.append(Lemma("Vectorize: reset() equals a newly constructed element", ME, ["C09"], vectorize_reset_new,
                           notes="over the contracts of _reset (installed as reset by __init__) and __init__[list of sequences]: "
                                 "an arbitrary resettable Vectorize after reset() has the fields of Vectorize(its components) and "
                                 "every FillCompute element it resets is in its el_reset state -- the state of a new element by the "
                                 "element interface (DESIGN 2.3)"))


def vectorize_reset_new(ip, st):
    from pyvc.calls import apply_contract, instantiate, eval_spec
    from pyvc.interp import VC, Unsupported
    from pyvc.smt import FALSE
    from pyvc.sym import Fun
    cs = ip.contracts.classes["Vectorize_r"]
    a = ip.make("Self[Vectorize_r]", "a", st)
    for inv in cs.invariant:
        st.assume(eval_spec(ip, st, {"self": a}, inv))
    ip.entry = st.copy()
    ip.oldst = ip.entry
    k = ip.contracts.find_method("Vectorize", "_reset")
    if k is None:
        raise Unsupported("no contract for Vectorize._reset")
    s1 = apply_contract(ip, st, k, [a], {})[0][0]
    seqs = s1.heap[a.cid].fields["_seqs"]
    outs = instantiate(ip, s1, Fun("class", name="Vectorize", mod=None), [seqs], {})
    if len(outs) != 1:
        raise Unsupported("Vectorize(list) forks")
    s2, b = outs[0]
    env = {"a_": a, "b_": b, "$elst": s2.env["$elst"]}
    for cl in ["b_._cur_context == a_._cur_context", "b_._cur_context == emptydict()",
               "len(b_._seqs) == len(a_._seqs)", "all(b_._seqs[k] is a_._seqs[k] for k in range(len(a_._seqs)))",
               "b_._dim == a_._dim", "has_attr(b_, 'reset')",
               "len(b_._fc_els) == len(a_._fc_els)", "all(b_._fc_els[k] is a_._fc_els[k] for k in range(len(a_._fc_els)))",
               "all(elstate(a_._fc_els[k]) == el_reset(a_._fc_els[k]) for k in range(len(a_._fc_els)))"]:
        ip.emit("lemma", "reset-equals-new-element: %s" % cl, s2, eval_spec(ip, s2, env, cl))
    ip.vcs.append(VC("cover requires", "cover", list(s2.pc), FALSE, ""))


# ---------------------------------------------------------------------------------------------- Graph (element)
GR = "lena/structures/graph.py"


def sp_has_vitem(ip, st, pos, kws):
    """has_vitem(v, k): the flow value v is a sequence with an item k (v[k] raises nothing); ghost v_members __getitem__"""
    from pyvc.vmembers import v_item_terms
    from pyvc.smt import lit_int
    from pyvc.sym import Bool
    return Bool(v_item_terms(ip, pos[0], lit_int(pos[1].t))[1])


VM = {"__getitem__": "item:V", "__len__": "attr:Int"}
# dimension of the coordinate of a point (Graph._update, coord_dim)
CDIM = "(len({p}[0]) if hasattr({p}[0], '__len__') else 1)"


def register_graph_el(ix):
    from pyvc import lib_acc2
    lib_acc2.register(ix)            # sorted_of(xs), sortable(xs): library contract of sorted() on flow values
    ix.spec_names["has_vitem"] = sp_has_vitem
    F = {"_points": "Lst[V]", "_cur_context": "Dict", "_scale": "Val", "_init_context": "KwDict[scale:Val]", "_sort": "Bool"}
    ix.add_class(ClassSpec("Graph", GR, fields=F, invariant=["isdict(self._cur_context)"]))
    ix.add(Contract(GR, "Graph.fill", props=["C09"],
                    cases=[
                        Contract(GR, "Graph.fill", name="Graph.fill[(data, context)]",
                                 params={"self": "Self[Graph]", "value": "Tuple[V,Dict]"}, requires=["isdict(value[1])"],
                                 ensures=["len(self._points) == old(len(self._points)) + 1",
                                          "all(self._points[k] == old(self._points)[k] for k in range(old(len(self._points))))",
                                          "self._points[len(self._points) - 1] == value[0]", "self._cur_context is value[1]"],
                                 modifies=["self._points", "self._cur_context"]),
                    ]))
    ix.add(Contract(GR, "Graph.reset", props=["C09"], params={"self": "Self[Graph]"},
                    ensures=["len(self._points) == 0", "self._cur_context == emptydict()"],
                    modifies=["self._points", "self._cur_context", "self._scale"]))
    CS = "self._cur_context.get('scale')"
    PAIRS = "all(has_vitem(self._points[k], 0) for k in range(len(self._points)))"
    BAD_SCALE = "(%s is not None and self._scale is not None and self._scale != %s)" % (CS, CS)
    UNSORTABLE = "(self._sort and not sortable(self._points))"
    def mixed(pts):
        return "(len(%s) > 0 and not all(%s == %s for k in range(len(%s))))" % (
            pts, CDIM.format(p=pts + "[k]"), CDIM.format(p=pts + "[0]"), pts)
    MIXED = "((self._sort and %s) or (not self._sort and %s))" % (mixed("sorted_of(self._points)"), mixed("self._points"))
    ix.add(Contract(GR, "Graph._update", props=["C09"], params={"self": "Self[Graph]"},
                    ghost={"v_members": VM}, requires=[PAIRS],
                    raises={"LenaRuntimeError": BAD_SCALE,
                            "TypeError": "not %s and %s" % (BAD_SCALE, UNSORTABLE),
                            "LenaValueError": "not %s and not %s and %s" % (BAD_SCALE, UNSORTABLE, MIXED)},
                    ensures=["self._sort implies same(self._points, sorted_of(old(self._points)))",
                             "not self._sort implies same(self._points, old(self._points))",
                             # a scale found in the context of the flow is taken over
                             "%s is not None implies self._scale == %s" % (CS, CS),
                             "%s is None implies self._scale == old(self._scale)" % CS,
                             # the context handed out: a deep copy of the current one, with the scale and the dimension
                             "is_deep_copy(self._context)", "self._context is not self._cur_context",
                             "all_keys(lambda k: k == 'scale' or k == 'dim' or item(self._context, k) == item(self._cur_context, k))",
                             "item(self._context, 'scale') == present(self._scale)",
                             "len(self._points) > 0 implies self.dim == %s and item(self._context, 'dim') == present(self.dim)"
                             % CDIM.format(p="self._points[0]"),
                             "len(self._points) == 0 implies item(self._context, 'dim') == item(self._cur_context, 'dim')"],
                    modifies=["self._points", "self._scale", "self._context", "self.dim"]))
