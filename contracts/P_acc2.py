"""P_acc2 -- third wave, accumulators and groups: the parts of C09 / C04 / C10 / C19 that were bounded-only after P_acc.py,
P_sel.py, P_flow.py.  (Registered after P_ctx2.py: see register_group_plots.)

  lena/math/elements.py        Vectorize.__init__ (components, LenaTypeError conditions, reset installed iff every component can
                               be reset) + lemma reset() == new element; Mean with a user sum_seq (__init__, fill, compute,
                               reset, _reset_missing) + lemma; DSum.fill once more with a termination argument
  lena/structures/graph.py     the element Graph: __init__, fill, _update, compute, reset (two views: no scale / any scale) + lemma
  lena/structures/histogram.py Histogram.__init__ / reset with make_bins + lemma
  lena/flow/group_plots.py     group_plots, _update_with_group, GroupPlots.run
  lena/flow/functions.py       seq_map;   lena/flow/group_by.py  _GroupBy.fill / update;   lena/flow/group_scale.py  GroupScale
Findings on the unchanged tree (contracts with props=[], each ends in `failed` obligations):
  Vectorize.__init__#any-dim   a dimension < 1 (other than the marker -1) silently builds a ONE-component element
  Mean_falsy.reset             a sum element that is false as an object: the internal sum survives reset()
Engine additions made for this module: pyvc/lib_acc2.py (sorted, make_bins, lists / sets of context values, dec_digits,
warnings.warn), pyvc/vmembers.py (obj_attrs, v[k], emit_closed), and small hooks named there.
"""
from pyvc.contracts import Contract, LoopSpec, ClassSpec
from pyvc.verify import Lemma

ME = "lena/math/elements.py"


def sp_attr_of(ip, st, pos, kws):
    """attr_of(el, 'name'): the object held by the data attribute <name> of the abstract element el (meaningful when
    has_attr(el, 'name'); ghost obj_attrs, pyvc/vmembers.py)"""
    from pyvc.vmembers import obj_attr_term
    from pyvc.sym import Opaque
    return Opaque(obj_attr_term(ip, pos[0], pos[1].s))


def register(ix):
    ix.spec_names["attr_of"] = sp_attr_of
    register_vectorize_init(ix)
    register_graph_el(ix)
    register_histogram_make_bins(ix)
    register_group_plots(ix)
    register_update_with_group(ix)
    register_seq_map(ix)
    register_old_group_by(ix)
    register_group_plots_el(ix)
    register_group_scale(ix)
    register_dsum_termination(ix)
    register_mean_seq(ix)


# ---------------------------------------------------------------------------------------------- Vectorize.__init__
# the FillCompute element of a component: `_seq._fill_compute` for a FillComputeSeq, the component itself otherwise
FC = "(attr_of({s}, '_fill_compute') if has_attr({s}, '_fill_compute') else {s})"
RESETTABLE = "(has_attr({e}, 'reset') and callable_m({e}, 'reset'))"
IS_FC = "(has_attr({e}, 'fill') and has_attr({e}, 'compute') and callable_m({e}, 'fill') and callable_m({e}, 'compute'))"
DISTINCT = ("all(all(implies(i != j, self._seqs[i] is not self._seqs[j]) for j in range(len(self._seqs))) "
            "for i in range(len(self._seqs)))")
FCK = FC.format(s="self._seqs[k]")
ALLRES = "all(%s for k in range(len(self._seqs)))" % RESETTABLE.format(e=FCK)


def register_vectorize_init(ix):
    """`seq must be a FillCompute element or sequence.  dim is the dimension of the input data (and of the constructed
    structure).  seq may also be a list of sequences, in that case dim may be omitted.`  The components are the given
    sequences, or the element and dim - 1 deep copies of it (new, pairwise different objects: what fill relies on, the
    object invariant of the Vectorize view of P_acc.py).  `_reset`: `If every sequence has a reset() method, this class is
    reset by resetting each FillCompute element ... available as reset only if all sequences have reset methods`."""
    ix.add_class(ClassSpec("Vectorize0", ME, fields={}, alias_of="Vectorize"))
    MOD = ["self._seqs", "self._fc_els", "self.reset", "self._construct", "self._dim", "self._cur_context", "self._filled_once"]
    LOOP = {0: LoopSpec(invariant=[
        "len(fc_els) == _i", "0 <= nresets <= _i",
        "all(fc_els[k] is %s for k in range(_i))" % FCK,
        # (the counter reaches the number of components iff every one of them can be reset)
        "(nresets == _i) == all(%s for k in range(_i))" % RESETTABLE.format(e=FCK)])}
    COMMON = ["self._dim == len(self._seqs)", "self._cur_context == emptydict()", "self._construct is construct",
              # reset is installed exactly when the FillCompute element of every component has a callable reset ...
              "has_attr(self, 'reset') == %s" % ALLRES,
              # ... and then it resets exactly those elements, one per component, in order
              "%s implies len(self._fc_els) == len(self._seqs) and all(self._fc_els[k] is %s for k in range(len(self._seqs)))"
              % (ALLRES, FCK)]

    def list_case(cty, extra_req=(), name=""):
        return Contract(
            ME, "Vectorize.__init__", name="Vectorize.__init__[list of sequences, construct:%s%s]" % (cty, name),
            params={"self": "Self[Vectorize0]", "seq": "Lst[Obj]", "dim": "Int", "construct": cty},
            defaults={"dim": -1, "construct": None}, ghost={"obj_attrs": {"_fill_compute": "Obj"}, "elstate": True},
            requires=list(extra_req),
            # `seq may also be a list of sequences, in that case dim may be omitted` (-1 = omitted)
            raises={"LenaTypeError": "dim != -1"},
            local_types={"fc_els": "Lst[Obj]"}, loops=LOOP,
            ensures=["len(self._seqs) == len(seq)", "all(self._seqs[k] is seq[k] for k in range(len(seq)))",
                     # constructing the vector runs no component: their states are those the caller handed over
                     "all(elstate(seq[k]) == old(elstate(seq[k])) for k in range(len(seq)))",
                     "all(elstate({f}) == old(elstate({f})) for k in range(len(seq)))".format(f=FC.format(s="seq[k]"))] + COMMON,
            modifies=MOD)

    def el_case(cty, req, name=""):
        return Contract(
            ME, "Vectorize.__init__", name="Vectorize.__init__[element or sequence, dim, construct:%s%s]" % (cty, name),
            params={"self": "Self[Vectorize0]", "seq": "Obj", "dim": "Int", "construct": cty},
            defaults={"dim": -1, "construct": None}, ghost={"obj_attrs": {"_fill_compute": "Obj"}, "elstate": True},
            requires=["not isinstance(seq, list)"] + list(req),
            # `seq must be a FillCompute element or sequence`; the dimension must be given
            raises={"LenaTypeError": "dim == -1 or not %s" % IS_FC.format(e="seq")},
            local_types={"fc_els": "Lst[Obj]"}, loops=LOOP,
            ensures=["len(self._seqs) == dim", "self._seqs[0] is seq",
                     # the other components are deep copies of seq made by this call: none of them existed before
                     "all(copy_of(self._seqs[k], seq) and new_object(self._seqs[k]) for k in range(1, dim))",
                     "elstate(seq) == old(elstate(seq))", DISTINCT] + COMMON,
            modifies=MOD)
    ix.add(Contract(ME, "Vectorize.__init__", props=["C09"],
                    cases=[list_case("None"), list_case("Obj"),
                           el_case("None", ["dim == -1 or dim >= 1"]), el_case("Obj", ["dim == -1 or dim >= 1"])]))
    # ---- FINDING on the unchanged tree (props=[]): `dim is the dimension of the input data (and of the constructed structure)`
    # read for every integer but the `omitted` marker -1: a dimension below 1 is accepted silently and a ONE-component element is built
    ix.add(Contract(ME, "Vectorize.__init__", qualkey="Vectorize.__init__#any-dim", props=[],
                    cases=[el_case("None", [], " (FAILS: dim < 1 builds one component)")]))

    # ---- lemma: reset() equals a newly constructed element
    # the view of a Vectorize that has `reset` (what __init__ establishes when every component can be reset)
    P = ix.classes["Vectorize"]
    ix.add_class(ClassSpec("Vectorize_r", ME, fields=dict(P.fields), alias_of="Vectorize",
                           invariant=list(P.invariant) + [
                               ALLRES, "self._dim == len(self._seqs)", "len(self._fc_els) == len(self._seqs)",
                               "all(self._fc_els[k] is %s for k in range(len(self._seqs)))" % FCK]))
    ix.lemmas.append(Lemma("Vectorize: reset() equals a newly constructed element", ME, ["C09"], vectorize_reset_new,
                           notes="over the contracts of _reset (installed as reset by __init__) and __init__[list of sequences]: "
                                 "an arbitrary resettable Vectorize after reset() has the fields of Vectorize(its components) and "
                                 "every FillCompute element it resets is in its el_reset state -- the state of a new element by the "
                                 "element interface (DESIGN 2.3)"))


def vectorize_reset_new(ip, st):
    from pyvc.calls import apply_contract, instantiate, eval_spec
    from pyvc.interp import VC, Unsupported
    from pyvc.smt import FALSE
    from pyvc.sym import Fun
    cs = ip.contracts.classes["Vectorize_r"]
    a = ip.make("Self[Vectorize_r]", "a", st)
    for inv in cs.invariant:
        st.assume(eval_spec(ip, st, {"self": a}, inv))
    ip.entry = st.copy()
    ip.oldst = ip.entry
    k = ip.contracts.find_method("Vectorize", "_reset")
    if k is None:
        raise Unsupported("no contract for Vectorize._reset")
    s1 = apply_contract(ip, st, k, [a], {})[0][0]
    seqs = s1.heap[a.cid].fields["_seqs"]
    outs = instantiate(ip, s1, Fun("class", name="Vectorize", mod=None), [seqs], {})
    if len(outs) != 1:
        raise Unsupported("Vectorize(list) forks")
    s2, b = outs[0]
    env = {"a_": a, "b_": b, "$elst": s2.env["$elst"]}
    for cl in ["b_._cur_context == a_._cur_context", "b_._cur_context == emptydict()",
               "len(b_._seqs) == len(a_._seqs)", "all(b_._seqs[k] is a_._seqs[k] for k in range(len(a_._seqs)))",
               "b_._dim == a_._dim", "has_attr(b_, 'reset')",
               "len(b_._fc_els) == len(a_._fc_els)", "all(b_._fc_els[k] is a_._fc_els[k] for k in range(len(a_._fc_els)))",
               "all(elstate(a_._fc_els[k]) == el_reset(a_._fc_els[k]) for k in range(len(a_._fc_els)))"]:
        ip.emit("lemma", "reset-equals-new-element: %s" % cl, s2, eval_spec(ip, s2, env, cl))
    ip.vcs.append(VC("cover requires", "cover", list(s2.pc), FALSE, ""))


# ---------------------------------------------------------------------------------------------- Graph (element)
GR = "lena/structures/graph.py"


def sp_has_vitem(ip, st, pos, kws):
    """has_vitem(v, k): the flow value v is a sequence with an item k (v[k] raises nothing); ghost v_members __getitem__"""
    from pyvc.vmembers import v_item_terms
    from pyvc.smt import lit_int
    from pyvc.sym import Bool
    return Bool(v_item_terms(ip, pos[0], lit_int(pos[1].t))[1])


VM = {"__getitem__": "item:V", "__len__": "attr:Int"}
# dimension of the coordinate of a point (Graph._update, coord_dim)
CDIM = "(len({p}[0]) if hasattr({p}[0], '__len__') else 1)"


def register_graph_el(ix):
    """`Graph`: the (deprecated) element that collects points.  fill: `Fill the graph with value.  Value can be a (data,
    context) tuple`: one more point, the data part, kept in the order of the fills; the context of the value becomes the
    current one.  compute: `Yield graph with context.  If sort was initialized True, graph points will be sorted`: the very
    element and a context that is a deep copy of the current one (C04) extended by the element's own keys scale and dim.
    reset: `Reset points to an empty list and current context to an empty dict`, and the scale to the one given at
    initialization (`a scale taken from the flow context belongs to the old data`).
    Points are abstract flow values; a point must be a (coordinate, value) pair (`Data part must be a (coordinates, value)
    pair`): has_vitem(p, 0).  Sorting is python's sorted() (library contract pyvc/lib_acc2.py).
    Two views: `Graph` -- no scale given and none in the flow (the default); `Graph_s` -- arbitrary scales (context values)."""
    from pyvc import lib_acc2
    lib_acc2.register(ix)            # sorted_of(xs), sortable(xs): library contract of sorted() on flow values
    ix.spec_names["has_vitem"] = sp_has_vitem
    FA = {"_points": "Lst[V]", "_cur_context": "Dict", "_scale": "None", "_init_context": "KwDict[scale:None]", "_sort": "Bool"}
    FB = dict(FA, _scale="Val", _init_context="KwDict[scale:Val]")
    ix.add_class(ClassSpec("Graph", GR, fields=FA, invariant=["isdict(self._cur_context)"]))
    ix.add_class(ClassSpec("Graph_s", GR, fields=FB, alias_of="Graph", invariant=["isdict(self._cur_context)"]))
    CS = "self._cur_context.get('scale')"
    VIEWS = [("Graph", "no scale", ["%s is None" % CS]), ("Graph_s", "any scale", [])]
    # ---- fill
    APPENDED = ["len(self._points) == old(len(self._points)) + 1",
                "all(self._points[k] == old(self._points)[k] for k in range(old(len(self._points))))"]

    def fill_cases(view, tag):
        return [Contract(GR, "Graph.fill", name="Graph.fill[(data, context), %s]" % tag,
                         params={"self": "Self[%s]" % view, "value": "Tuple[V,Dict]"}, requires=["isdict(value[1])"],
                         ensures=APPENDED + ["self._points[len(self._points) - 1] == value[0]", "self._cur_context is value[1]"],
                         modifies=["self._points", "self._cur_context"]),
                Contract(GR, "Graph.fill", name="Graph.fill[bare data, %s]" % tag,
                         params={"self": "Self[%s]" % view, "value": "V"}, requires=["not v_has_context(value)"],
                         ensures=APPENDED + ["self._points[len(self._points) - 1] == value", "self._cur_context == emptydict()"],
                         modifies=["self._points", "self._cur_context"])]
    ix.add(Contract(GR, "Graph.fill", props=["C09"], cases=fill_cases("Graph", "no scale")))
    ix.add(Contract(GR, "Graph.fill", qualkey="Graph_s.fill", props=["C09"], cases=fill_cases("Graph_s", "any scale")))
    # ---- reset
    ix.add(Contract(GR, "Graph.reset", props=["C09"], params={"self": "Self[Graph]"},
                    ensures=["len(self._points) == 0", "self._cur_context == emptydict()", "self._scale is None"],
                    modifies=["self._points", "self._cur_context", "self._scale"]))
    ix.add(Contract(GR, "Graph.reset", qualkey="Graph_s.reset", name="Graph.reset[any scale]", props=["C09"],
                    params={"self": "Self[Graph_s]"},
                    ensures=["len(self._points) == 0", "self._cur_context == emptydict()",
                             "self._scale == self._init_context['scale']"],
                    modifies=["self._points", "self._cur_context", "self._scale"]))
    # ---- _update / compute
    PAIRS = "all(has_vitem(self._points[k], 0) for k in range(len(self._points)))"
    BAD_SCALE = "(%s is not None and self._scale is not None and self._scale != %s)" % (CS, CS)
    UNSORTABLE = "(self._sort and not sortable(self._points))"

    def mixed(pts):
        return "(len(%s) > 0 and not all(%s == %s for k in range(len(%s))))" % (
            pts, CDIM.format(p=pts + "[k]"), CDIM.format(p=pts + "[0]"), pts)
    MIXED = "((self._sort and %s) or (not self._sort and %s))" % (mixed("sorted_of(self._points)"), mixed("self._points"))
    RAISES = {
        # `Initialization and context scale differ`
        "LenaRuntimeError": BAD_SCALE,
        # python's sorted() on points that cannot be compared
        "TypeError": "not %s and %s" % (BAD_SCALE, UNSORTABLE),
        # `coordinates tuples must have same dimension`
        "LenaValueError": "not %s and not %s and %s" % (BAD_SCALE, UNSORTABLE, MIXED)}
    UPDATED = [
        # `If sort was initialized True, graph points will be sorted` -- and otherwise they keep the order of the fills
        "self._sort implies same(self._points, sorted_of(old(self._points)))",
        "not self._sort implies same(self._points, old(self._points))",
        # a scale found in the context of the flow is taken over
        "old(%s) is not None implies self._scale == old(%s)" % (CS, CS),
        "old(%s) is None implies self._scale == old(self._scale)" % CS,
        "self._cur_context == old(self._cur_context)"]
    # the context handed out: the current one, extended only by the element's own keys scale and dim
    CONTEXT = ["all_keys(lambda k: k == 'scale' or k == 'dim' or item({c}, k) == item(self._cur_context, k))",
               "item({c}, 'scale') == present(self._scale)",
               "len(self._points) > 0 implies self.dim == %s and item({c}, 'dim') == present(self.dim)" % CDIM.format(p="self._points[0]"),
               "len(self._points) == 0 implies item({c}, 'dim') == item(self._cur_context, 'dim')"]
    MOD = ["self._points", "self._scale", "self._context", "self.dim"]

    def update_case(view, tag, req):
        return Contract(GR, "Graph._update", name="Graph._update[%s]" % tag, params={"self": "Self[%s]" % view},
                        ghost={"v_members": VM}, requires=[PAIRS] + req, raises=dict(RAISES),
                        ensures=UPDATED + [c.format(c="self._context") for c in CONTEXT] +
                        ["self._context is not self._cur_context"] + (["is_deep_copy(self._context)"] if view == "Graph" else []),
                        modifies=MOD)
    ix.add(Contract(GR, "Graph._update", props=["C09"], inline=True, cases=[update_case(v, t, r) for v, t, r in VIEWS]))

    def compute_case(view, tag, req):
        return Contract(GR, "Graph.compute", name="Graph.compute[%s]" % tag, params={"self": "Self[%s]" % view},
                        generator=True, yields="Any", ghost={"v_members": VM}, requires=[PAIRS] + req, raises=dict(RAISES),
                        at_yield=["yielded[0] is self", "is_fresh(yielded[1])", "yielded[1] is not self._cur_context"] +
                        # C04: the yielded context shares nothing with the context that was filled
                        (["is_deep_copy(yielded[1])"] if view == "Graph" else []),
                        ensures=["len(out) == 1", "len(out[0]) == 2", "out[0][0] is self"] + UPDATED +
                        [c.format(c="out[0][1]") for c in CONTEXT],
                        modifies=MOD)
    ix.add(Contract(GR, "Graph.compute", props=["C09", "C04"], cases=[compute_case(*VIEWS[0])]))
    ix.add(Contract(GR, "Graph.compute", qualkey="Graph_s.compute", props=["C09", "C04"], cases=[compute_case(*VIEWS[1])]))
    # ---- __init__
    ix.add_class(ClassSpec("Graph0", GR, fields={}, alias_of="Graph"))
    IMOD = ["self._points", "self._scale", "self._init_context", "self._cur_context", "self._sort", "self._rescale_value",
            "self._context", "self.dim"]

    def init_case(cty, sty, tag, extra):
        return Contract(
            GR, "Graph.__init__", name="Graph.__init__[no points, context:%s, %s]" % (cty, tag),
            params={"self": "Self[Graph0]", "points": "None", "context": cty, "scale": sty, "sort": "Bool"},
            defaults={"points": None, "context": None, "scale": None, "sort": True}, ghost={"v_members": VM},
            # `context must be a dict`; a scale in that context must agree with the one given
            raises={"LenaTypeError": "False" if cty == "None" else "not isdict(context)",
                    "LenaRuntimeError": "False" if cty == "None" else
                    "isdict(context) and context.get('scale') is not None and scale is not None and scale != context.get('scale')"},
            ensures=["len(self._points) == 0", "self._sort == sort", "self._init_context['scale'] == scale",
                     "self._cur_context == emptydict()" if cty == "None" else "self._cur_context is context"] + extra,
            modifies=IMOD)
    ix.add(Contract(GR, "Graph.__init__", props=["C09"], cases=[
        init_case("None", "None", "no scale", ["self._scale is None"]),
        init_case("None", "Val", "scale", ["self._scale == scale"]),
        init_case("Dict", "Val", "scale", ["context.get('scale') is None implies self._scale == scale",
                                           "context.get('scale') is not None implies self._scale == context.get('scale')"])]))
    from contracts.P_acc import reset_equals_new
    ix.lemmas.append(Lemma(
        "Graph: reset() equals a newly constructed element", GR, ["C09"],
        reset_equals_new("Graph", "reset", ["len(self._points)", "self._cur_context", "self._scale", "self._init_context['scale']"],
                         lambda ip, st, a: [NONE_(), NONE_(), NONE_(), st.heap[a.cid].fields["_sort"]]),
        notes="default view (no scale): points, current context and scale after reset() equal those of Graph(sort=the element's sort)"))


def NONE_():
    from pyvc.sym import NONE
    return NONE


# ---------------------------------------------------------------------------------------------- Histogram with make_bins
HI = "lena/structures/histogram.py"


def register_histogram_make_bins(ix):
    """`make_bins is a function without arguments that creates new bins (it will be called during __init__ and reset).
    initial_value in this case is ignored, but bin check is made.  If both bins and make_bins are provided, LenaTypeError is
    raised.`  reset: `Current context is reset to an empty dict.  Bins are reinitialized ... with make_bins()`.
    The user's function is an assumption (pyvc/lib_acc2.py: a new list with the same content on every call); one-dimensional."""
    import contracts.C06 as C06
    from pyvc import lib_acc2
    lib_acc2.register_make_bins(ix)
    MB = "Lib[user.make_bins]"
    P = ix.classes["Histogram"]
    F = dict(P.fields, _make_bins=MB, _initial_bins="None")
    # (the bin check of __init__ passed: the bins the function makes fit the edges)
    ix.add_class(ClassSpec("Histogram_mb", HI, fields=F, alias_of="Histogram",
                           invariant=list(P.invariant) + ["len(made_bins()) == len(self._hist.edges) - 1"]))
    NEW = ["self._hist is not old(self._hist)",          # `a new structure ... earlier yielded histograms stay intact`
           "self._hist.edges == old(self._hist.edges)", "self._hist.n_out_of_range == 0", "self._hist.dim == 1",
           "self._cur_context == emptydict()", "self._hist.bins == made_bins()"]
    ix.add(Contract(HI, "Histogram.reset", qualkey="Histogram_mb.reset", name="Histogram.reset[make_bins]", props=["C09", "C06"],
                    params={"self": "Self[Histogram_mb]"}, ensures=NEW, modifies=["self._hist", "self._cur_context"]))
    BAD_EDGES = "len(edges) <= 1 or not " + C06.incr("edges")
    IMOD = ["self._hist", "self._cur_context", "self._initial_bins", "self._initial_value", "self._make_bins"]
    ix.add(Contract(
        HI, "Histogram.__init__", qualkey="Histogram_mb.__init__", props=["C09"],
        cases=[
            Contract(HI, "Histogram.__init__", name="Histogram.__init__[make_bins]",
                     params={"self": "Self[Histogram0]", "edges": "Lst[Real]", "bins": "None", "make_bins": MB, "initial_value": "Real"},
                     defaults={"bins": None, "initial_value": 0},
                     # `bin check is made`
                     raises={"LenaValueError": BAD_EDGES + " or len(made_bins()) != len(edges) - 1"},
                     ensures=["self._hist.edges == edges", "self._hist.bins == made_bins()", "self._hist.n_out_of_range == 0",
                              "self._hist.dim == 1", "self._cur_context == emptydict()", "self._initial_bins is None",
                              "self._make_bins is make_bins", "len(made_bins()) == len(self._hist.edges) - 1"],
                     modifies=IMOD),
            Contract(HI, "Histogram.__init__", name="Histogram.__init__[bins and make_bins]",
                     params={"self": "Self[Histogram0]", "edges": "Lst[Real]", "bins": "Lst[Real]", "make_bins": MB, "initial_value": "Real"},
                     defaults={"initial_value": 0},
                     raises={"LenaTypeError": "True"}, modifies=IMOD),
        ]))

    def same_config(ip, st, a):
        from pyvc.sym import NONE
        h = st.heap[st.heap[a.cid].fields["_hist"].cid]
        return [h.fields["edges"], NONE, st.heap[a.cid].fields["_make_bins"], st.heap[a.cid].fields["_initial_value"]]
    from contracts.P_acc import reset_equals_new
    ix.lemmas.append(Lemma(
        "Histogram[make_bins]: reset() equals a newly constructed element", HI, ["C09"],
        reset_equals_new("Histogram_mb", "reset", ["self._hist.edges", "self._hist.bins", "self._hist.n_out_of_range",
                                                   "self._hist.dim", "self._cur_context"], same_config),
        notes="one-dimensional, bins from make_bins (assumed to make the same bins on every call); the new element is built "
              "from the same edges and the same make_bins"))


# ---------------------------------------------------------------------------------------------- group_plots / MapGroup
GP = "lena/flow/group_plots.py"


CF = "lena/context/functions.py"


def sp_opt_truthy(ip, st, pos, kws):
    """opt_truthy(o): the optional context value o is there and true (what `if get_recursively(c, key, False)` tests)"""
    from pyvc.smt import T
    from pyvc.sym import Bool
    o = pos[0].t.s
    return Bool(T("(and (not (= %s none)) (vtruthy (the %s)))" % (o, o), "Bool"))


# context.output.changed of member k of `group`, looked up as get_recursively does (reference `walk` of C08)
WALK_CHANGED = "walk({c}, dot_components('output.changed'), 0, len(dot_components('output.changed')))"
MEMBER_CHANGED = "opt_truthy(%s)" % WALK_CHANGED.format(c="local(contexts)[k]")
# (inter_all is an uninterpreted function of the list TERM: the clauses name the function's own list of the members' contexts)
INTER = "inter_all(local(contexts))"
_ANYM = "any(opt_truthy(%s) for k in range(len(as_vlist({c}['group']))))" % WALK_CHANGED.format(c="as_vlist({c}['group'])[k]")
GROUP_FLAG = ["opt_truthy(ctx_get({c}, 'output', 'changed')) implies " + _ANYM,
              _ANYM + " implies opt_truthy(ctx_get({c}, 'output', 'changed'))"]


def register_group_plots(ix):
    ix.spec_names["opt_truthy"] = sp_opt_truthy
    # update_recursively(d, "output.changed", value): the dotted-string form with a value.  P_ctx2.py proves the general case
    # (`update_recursively[d, dotted string, value]`); when that module is not registered (before this one) the effect on
    # output.changed is taken from the docstring as an assumed case for this very key
    ur = ix.by_key[(CF, "update_recursively")]
    if not ur.cases:
        import copy
        base = copy.copy(ur)
        base.cases = None
        ur.cases = [base]
    if not any(c.name == "update_recursively[d, 'output.changed', value]" for c in ur.cases):
        # ASSUMED for this very key (first case: chosen by argument fit).  P_ctx2.py proves the general dotted-string case
        # (d == upd(old(d), nestk(split_dots(other), ..))); at the calls in group_plots / _update_with_group the solvers do not
        # get from that form to the items of d.output within the time limit (the nested instance of the definition of upd
        # is missing), so the effect on the items is stated directly, from the docstring
        ur.cases.insert(0, Contract(
            CF, "update_recursively", name="update_recursively[d, 'output.changed', value]", props=[], trusted=True,
            dict_model="Val", params={"d": "Dict", "other": "Str['output.changed']", "value": "Val"}, result=None,
            raises={"LenaTypeError": "not isdict(d)"}, raises_frame="pure",
            ensures=["isdict(d)", "all_keys(lambda k: k == 'output' or item(d, k) == item(old(d), k))",
                     "ctx_get(d, 'output', 'changed') == present(value)",
                     "all_keys(lambda k: k == 'changed' or ctx_get(d, 'output', k) == ctx_get(old(d), 'output', k))"],
            modifies=["d"],
            notes="assumed (stand-in for the proved general case of P_ctx2.py): docstring of update_recursively with a "
                  "dotted string and a value -- only d.output.changed is set, sub-dictionaries are created as needed"))
    from pyvc import lib_acc2
    lib_acc2.register_ctx_lists(ix)
    # intersection(*list of dictionaries) (assumed in C13.py as the uninterpreted inter_all): `This function always returns a
    # dictionary` (docstring) -- one more clause of that assumed contract
    iv = ix.by_key.get((CF, "intersection#variadic"))
    if iv is not None and "isdict(result)" not in iv.ensures:
        iv.ensures.append("isdict(result)")
    ix.add(Contract(
        GP, "group_plots", props=["C19", "C10"], dict_model="Val", ghost={"ctx_lists": True, "prune_defs": True},
        params={"group": "Lst[V]"}, result="Tuple[Lst[V],Dict]",
        ensures=[
            # `Return data parts of the group`: one per member, in order
            "len(result[0]) == len(group)", "all(result[0][k] == dataof(group[k]) for k in range(len(group)))",
            # context.group lists the members' contexts (in order) ...
            "is_vlist(result[1]['group'])", "len(as_vlist(result[1]['group'])) == len(group)",
            "all(as_vlist(result[1]['group'])[k] == vctx(group[k]) for k in range(len(group)))",
            # ... `If any of values has been changed, context.output.changed of the group is set to True` (False otherwise)
            # (member k's context is local(contexts)[k] == vctx(group[k]): the clauses about `contexts` below)
            "local(changed) == any(%s for k in range(len(local(contexts))))" % MEMBER_CHANGED,
            "ctx_get(result[1], 'output', 'changed') == present(local(changed))",
            # (the same, stated on the result alone: the flag of the group is the OR of the flags of the contexts it lists)
            GROUP_FLAG[0].format(c="result[1]"), GROUP_FLAG[1].format(c="result[1]"),
            # ... and the rest is the intersection of the members' contexts (`contexts`: one per member, in order)
            "len(local(contexts)) == len(group)", "all(local(contexts)[k] == vctx(group[k]) for k in range(len(group)))",
            "all_keys(lambda k: k == 'output' or k == 'group' or item(result[1], k) == item(%s, k))" % INTER,
            "all_keys(lambda k: k == 'changed' or ctx_get(result[1], 'output', k) == ctx_get(%s, 'output', k))" % INTER]))


def register_update_with_group(ix):
    """_update_with_group(context, new_grp_context, old_inter_context) (MapGroup.run): `Common changes of group context
    update common context (that of the value).  context.output.changed is set appropriately` -- the changed flags of the
    value and of the new members are combined: True if any is true, else False if one of them IS False (`this is known, not
    None`), else left as the update made it; context.group becomes the list of the new members' contexts."""
    W = WALK_CHANGED
    ANY_TRUE = "(opt_truthy(%s) or any(opt_truthy(%s) for k in range(len(new_grp_context))))" % (
        W.format(c="old(context)"), W.format(c="new_grp_context[k]"))
    ANY_FALSE = "(%s == present(False) or any(%s == present(False) for k in range(len(new_grp_context))))" % (
        W.format(c="old(context)"), W.format(c="new_grp_context[k]"))
    # (prune_defs: definitions a query does not use are left out of its script -- a conservative extension cannot turn a
    #  satisfiable query unsatisfiable; two dictionary queries of these units needed 8..17 s with every definition in the
    #  script and flipped to `undecided` on a busy machine)
    UPDATED = "upd_spec(old(context), diff_spec(inter_all(new_grp_context), old_inter_context, -1))"
    ix.add(Contract(
        GP, "_update_with_group", props=["C19", "C10"], dict_model="Val", ghost={"ctx_lists": True, "prune_defs": True},
        params={"context": "Dict", "new_grp_context": "Lst[Val]", "old_inter_context": "Val"}, result=None,
        requires=["isdict(context)", "isdict(old_inter_context)",
                  "all(isdict(new_grp_context[k]) for k in range(len(new_grp_context)))"],
        ensures=[
            "isdict(context)", "isdict(%s)" % UPDATED,
            # context.group lists the contexts of the new members
            "is_vlist(context['group'])", "len(as_vlist(context['group'])) == len(new_grp_context)",
            "all(as_vlist(context['group'])[k] == new_grp_context[k] for k in range(len(new_grp_context)))",
            # what the members' contexts have in common now, but had not before, is added to the context of the value
            "all_keys(lambda k: k == 'group' or k == 'output' or item(context, k) == item(%s, k))" % UPDATED,
            "all_keys(lambda k: k == 'changed' or ctx_get(context, 'output', k) == ctx_get(%s, 'output', k))" % UPDATED,
            # output.changed: the OR of the value's own flag and the members' flags
            "%s implies ctx_get(context, 'output', 'changed') == present(True)" % ANY_TRUE,
            "not %s implies %s implies ctx_get(context, 'output', 'changed') == present(False)" % (ANY_TRUE, ANY_FALSE),
            "not %s implies not %s implies ctx_get(context, 'output', 'changed') == ctx_get(%s, 'output', 'changed')"
            % (ANY_TRUE, ANY_FALSE, UPDATED)],
        modifies=["context"]))


# ---------------------------------------------------------------------------------------------- seq_map, _GroupBy, GroupPlots
FF = "lena/flow/functions.py"
GB = "lena/flow/group_by.py"


def register_seq_map(ix):
    """`For each value from the container, calculate seq.run([value]) ... If one_result is True, the result must be a single
    value.  In this case, if results contain less than or more than one element, LenaValueError is raised.  The list of
    results is returned.  The results are in the same order as read from the container.`"""
    RUN = "el_run(seq, [container[k]])"
    ix.add(Contract(
        FF, "seq_map", props=["C19", "C10"],
        params={"seq": "Obj", "container": "Lst[V]", "one_result": "Bool"}, result="Lst[V]",
        defaults={"one_result": True}, requires=["one_result"],
        raises={"LenaValueError": "any(len(%s) != 1 for k in range(len(container)))" % RUN},
        ensures=["len(result) == len(container)", "all(result[k] == %s[0] for k in range(len(container)))" % RUN]))


def register_old_group_by(ix):
    """`_GroupBy` (the deprecated grouping element of GroupPlots): `Find the corresponding group and fill it with val.  A group
    key is calculated by group_by.  If no such key exists, a new group is created.`  The key function is an abstract TOTAL
    function from flow values to strings (Fn[V,Str]: it raises nothing, so the LenaValueError of a missing key is not
    reachable in this model)."""
    from pyvc import lib_acc2
    lib_acc2.register_warn(ix)
    ix.add_class(ClassSpec("_GroupBy", GB, fields={"groups": "KeyMap[V]", "_group_by": "Fn[V,Str]"}))
    K = "self._group_by(val)"
    G, G0 = "group(self.groups, %s)" % K, "old(group(self.groups, %s))" % K
    FILLED = [
        "has_group(self.groups, %s)" % K,
        "not old(has_group(self.groups, %s)) implies len(%s) == 1 and %s[0] == val" % (K, G, G),
        "old(has_group(self.groups, %s)) implies len(%s) == len(%s) + 1 and %s[len(%s)] == val and "
        "all(%s[i] == %s[i] for i in range(len(%s)))" % (K, G, G0, G, G0, G, G0, G0),
        "all_keys(lambda k: k == %s or (has_group(self.groups, k) == old(has_group(self.groups, k)) and "
        "same(group(self.groups, k), old(group(self.groups, k)))))" % K]
    for m in ("fill", "update"):          # (`update` is the deprecated name: it warns and fills)
        ix.add(Contract(GB, "_GroupBy.%s" % m, props=["C19", "C10"],
                        params={"self": "Self[_GroupBy]", "val": "V"}, ensures=FILLED, modifies=["self.groups"]))


def register_group_plots_el(ix):
    """GroupPlots.run: `Each item of the flow is checked with the selector.  If it is selected, it is added to groups.
    Otherwise, it is yielded.  After the flow is finished, groups are yielded.  Groups are lists of items, which have same keys
    returned from group_by.  Each group's context ... is inserted into a list in context.group.  If any element's
    context.output.changed is True, the final context.output.changed is set to True (and to False otherwise).`
    View: selector an abstract callable, group_by an abstract total key function (register_old_group_by), no scale,
    transform an abstract sequence.  Reference of the grouping (recursive over the prefix of the flow):
      gp_has(S, G, xs, n, k)    some selected value among xs[0..n) has the key k
      gp_group(S, G, xs, n, k)  the selected values among xs[0..n) with key k, in the order of the flow"""
    from pyvc.smt import T
    from pyvc.sym import Opaque, Bool
    from pyvc.speclib import lst_term, obj_term

    def decls(ip, st, sel, keyfn):
        from pyvc.histlib import call_absfn
        reg = ip.reg
        sort = reg.lst("V")
        ix.spec_names["selected"](ip, st, [sel, Opaque(T("dflt_v_probe", "V"))], {})          # declares `selected`
        probe = call_absfn(ip, st, keyfn, [Opaque(T("PROBE", "V"))], {})[0][1].t.s
        fname = probe[1:].split()[0]
        key = "(%s g (select (arr_%s xs) (- n 1)))" % (fname, sort)
        hit = "(and (selected s (select (arr_{ls} xs) (- n 1))) (= {key} k))".format(ls=sort, key=key)
        reg.fun_decl("gp_has", "(define-fun-rec gp_has ((s Obj) (g Obj) (xs {ls}) (n Int) (k Key)) Bool "
                               "(ite (<= n 0) false (or (gp_has s g xs (- n 1) k) {hit})))".format(ls=sort, hit=hit))
        reg.fun_decl("gp_group", "(define-fun-rec gp_group ((s Obj) (g Obj) (xs {ls}) (n Int) (k Key)) {ls} "
                                 "(ite (<= n 0) {empty} (let ((p (gp_group s g xs (- n 1) k))) (ite {hit} "
                                 "(mk_{ls} (store (arr_{ls} p) (len_{ls} p) (select (arr_{ls} xs) (- n 1))) (+ (len_{ls} p) 1)) p))))".format(
                                     ls=sort, hit=hit, empty=reg.l_empty_canonical(sort).s))
        return sort

    def args5(ip, st, pos):
        sort = decls(ip, st, pos[0], pos[1])
        return "%s %s %s %s %s" % (obj_term(pos[0]).s, pos[1].obj.t.s, lst_term(ip, st, pos[2], sort).s, ip.num(pos[3]).s,
                                    ip.key_term(pos[4]).s)

    def sp_gp_has(ip, st, pos, kws):
        return Bool(T("(gp_has %s)" % args5(ip, st, pos), "Bool"))

    def sp_gp_group(ip, st, pos, kws):
        a = args5(ip, st, pos)
        return ip.lst_view(T("(gp_group %s)" % a, ip.reg.lst("V")))
    ix.spec_names["gp_has"] = sp_gp_has
    ix.spec_names["gp_group"] = sp_gp_group

    ix.add_class(ClassSpec("GroupPlots", GP, fields={"_selector": "Obj", "_group_by": "Inst[_GroupBy]", "_scale": "None",
                                                     "_transform": "Obj", "_yield_selected": "Bool"}))
    X, S, KF, G = "content(flow)", "self._selector", "self._group_by._group_by", "self._group_by.groups"
    REF = "%s, %s, %s, {n}, k" % (S, KF, X)
    GROUPED = ["all_keys(lambda k: has_group(%s, k) == gp_has(%s))" % (G, REF),
               "all_keys(lambda k: implies(has_group(%s, k), group(%s, k) == gp_group(%s)))" % (G, G, REF),
               # (a key without a group: no selected value with that key so far)
               "all_keys(lambda k: implies(not has_group(%s, k), len(gp_group(%s)) == 0))" % (G, REF)]
    M = "group(%s, _key)" % G                     # the members of the group being yielded
    R = "el_run(self._transform, [%s[k]])" % M    # what the transform makes of member k
    ix.add(Contract(
        GP, "GroupPlots.run", props=["C19", "C10"], dict_model="Val",
        ghost={"ctx_lists": True, "v_copy_distinct": True},
        params={"self": "Self[GroupPlots]", "flow": "Iter[V]"}, generator=True, yields="Any",
        requires=["pulled(flow) == 0", "all_keys(lambda k: not has_group(%s, k))" % G],
        raises={"Exception": "?", "LenaValueError": "?"},
        loops={0: LoopSpec(invariant=["pulled(flow) == _i"] + [c.format(n="_i") for c in GROUPED]),
               1: LoopSpec(invariant=["pulled(flow) == len(%s)" % X] + [c.format(n="len(%s)" % X) for c in GROUPED],
                           # every group visited gives exactly one value
                           body_ghost={"_yc1": "yield_count()"}, body_end=["yield_count() == _yc1 + 1"])},
        at_yield=[
            # ---- while the flow is read: a value that is not selected is handed on as the very same object, a selected one
            # only as a deep copy and only if yield_selected
            "in_loop(0) implies pulled(flow) == _i0 + 1",
            "in_loop(0) and not selected(%s, %s[_i0]) implies yielded is %s[_i0]" % (S, X, X),
            "in_loop(0) and selected(%s, %s[_i0]) implies self._yield_selected and yielded == deepcopy_v(%s[_i0])" % (S, X, X),
            # ---- afterwards: one value per group -- the group_plots of its transformed members
            "in_loop(1) implies has_group(%s, _key) and not seen(_key)" % G,
            "in_loop(1) implies len(yielded[0]) == len(%s) and all(yielded[0][k] == dataof(%s[0]) for k in range(len(%s)))" % (M, R, M),
            "in_loop(1) implies len(as_vlist(yielded[1]['group'])) == len(%s) and "
            "all(as_vlist(yielded[1]['group'])[k] == vctx(%s[0]) for k in range(len(%s)))" % (M, R, M),
            # `If any element's context.output.changed is True, the final context.output.changed is set to True (and to False
            # otherwise)`
            "in_loop(1) implies " + GROUP_FLAG[0].format(c="yielded[1]"),
            "in_loop(1) implies " + GROUP_FLAG[1].format(c="yielded[1]")],
        # ... and every group is visited
        ensures=["pulled(flow) == len(%s)" % X, "all_keys(lambda k: implies(has_group(%s, k), seen(k)))" % G] +
        [c.format(n="len(%s)" % X) for c in GROUPED],
        modifies=["flow", "self._group_by.groups"]))


GS = "lena/flow/group_scale.py"


def register_group_scale(ix):
    """GroupScale: `If a number is given, group items are scaled to that` (scale_to itself: contracts/P_hist2.py, C12).
    __call__: `Scale the group.  If group is not iterable, LenaValueError is raised` -- and the group itself is handed back."""
    ix.add_class(ClassSpec("GroupScale0", GS, fields={}, alias_of="GroupScale"))
    ix.add_class(ClassSpec("GroupScale", GS, fields={"_scale_to": "Real", "_allow_zero_scale": "Bool", "_allow_unknown_scale": "Bool"}))
    ix.add(Contract(GS, "GroupScale.__init__", props=["C19"],
                    params={"self": "Self[GroupScale0]", "scale_to": "Real", "allow_zero_scale": "Bool", "allow_unknown_scale": "Bool"},
                    defaults={"allow_zero_scale": False, "allow_unknown_scale": False},
                    ensures=["self._scale_to == scale_to", "self._allow_zero_scale == allow_zero_scale",
                             "self._allow_unknown_scale == allow_unknown_scale"],
                    modifies=["self._scale_to", "self._allow_zero_scale", "self._allow_unknown_scale"]))
    H = "group[0][0]"
    ix.add(Contract(
        GS, "GroupScale.__call__", props=["C19"], dict_model="Val",
        cases=[
            Contract(GS, "GroupScale.__call__", name="GroupScale.__call__[not a list or tuple]",
                     params={"self": "Self[GroupScale]", "group": "Real"}, raises={"LenaValueError": "True"}),
            Contract(GS, "GroupScale.__call__", name="GroupScale.__call__[one histogram]", dict_model="Val",
                     params={"self": "Self[GroupScale]", "group": "PyList[1,Tuple[Inst[histogram_scaled],Dict]]"},
                     result="Any", result_alias="group",
                     requires=["isdict(group[0][1])"] + [inv.replace("self.", H + ".") for inv in ix.classes["histogram_scaled"].invariant],
                     # `attempts to rescale a structure with ... zero scale raise an error` unless allow_zero_scale
                     raises={"LenaValueError": "not self._allow_zero_scale and %s._scale == 0" % H},
                     ensures=["old(%s._scale) != 0 implies %s._scale == self._scale_to" % (H, H),
                              "old(%s._scale) == 0 implies %s._scale == 0" % (H, H),
                              "group[0][1] == old(group[0][1])"],
                     modifies=["%s.bins" % H, "%s.n_out_of_range" % H, "%s._scale" % H]),
        ]))


# ---------------------------------------------------------------------------------------------- DSum: the precision loop ends
def register_dsum_termination(ix):
    """DSum.fill once more, with a `decreases` argument for the loop `while True: try: add ... except Inexact: prec += 1`.
    P_acc.py proves what the loop computes under the uninterpreted predicate dec_inexact (nothing assumed about it: no
    termination).  Termination needs one more fact about the decimal library: Inexact is signalled iff the exact sum has
    more significant digits than the precision, and that number of digits (dec_digits) is finite -- then
    dec_digits(total + data) - prec is a bound that decreases with every retry and is positive whenever a retry happens."""
    from pyvc import lib_acc2
    lib_acc2.register_dec_digits(ix)
    PAIR = "Tuple[Real,Dict]"

    def case(name, valty, d, req):
        return Contract(
            ME, "DSum.fill", name="DSum.fill[%s, termination]" % name,
            params={"self": "Self[DSum]", "value": valty}, requires=req,
            loops={0: LoopSpec(invariant=["self._total == old(self._total)", "self._dcontext is old(self._dcontext)",
                                          "self._dcontext.traps_inexact", "self._dcontext.prec >= old(self._dcontext.prec)",
                                          "self._dcontext.prec <= max(old(self._dcontext.prec), dec_digits(old(self._total) + %s))" % d],
                               decreases="dec_digits(old(self._total) + %s) - self._dcontext.prec" % d)},
            ensures=["self._total == old(self._total) + %s" % d,
                     # the precision ends at most at the number of digits of the exact sum (or where it was)
                     "self._dcontext.prec <= max(old(self._dcontext.prec), dec_digits(old(self._total) + %s))" % d],
            modifies=["self._total", "self._cur_context", "self._dcontext.prec"])
    ix.add(Contract(ME, "DSum.fill", qualkey="DSum.fill#terminates", props=["C09"],
                    cases=[case("(data, context)", PAIR, "value[0]", ["isdict(value[1])"]), case("bare data", "Real", "value", [])]))


# ---------------------------------------------------------------------------------------------- Mean with a user sum_seq
def register_mean_seq(ix):
    """Mean(sum_seq): `sum_seq is the algorithm to calculate the sum.`  fill hands the data part to it; compute: `If the
    sum_seq yields several values, they are all yielded, but only the first is divided by number of events (considered the mean
    value)`; every yielded context is a new deep copy of the current context updated with the context of that result;
    reset: `the reset method of sum_seq is called`, count to zero and context to {}.
    The sum element is an abstract FillCompute element (el_fill / el_compute / el_reset) that is TRUE as an object (the view's
    invariant: see the finding at the end); float() of a result's data part is an uninterpreted function (v_members)."""
    MF = {"_sum_seq": "Obj", "_sum": "Real", "_pass_on_empty": "Bool", "_count": "Int", "_cur_context": "Dict"}
    ix.add_class(ClassSpec("Mean_seq", ME, fields=MF, alias_of="Mean",
                           invariant=["isdict(self._cur_context)", "self._count >= 0", "obj_truthy(self._sum_seq)"]))
    ix.spec_names["obj_truthy"] = lambda ip, st, pos, kws: __import__("pyvc.sym", fromlist=["Bool"]).Bool(ip.truth(st, pos[0]))
    E = "self._sum_seq"
    ix.add(Contract(
        ME, "Mean.fill", qualkey="Mean_seq.fill", props=["C09"], ghost={"elstate": True},
        cases=[
            Contract(ME, "Mean.fill", name="Mean.fill[sum_seq, (data, context)]", ghost={"elstate": True},
                     params={"self": "Self[Mean_seq]", "value": "Tuple[V,Dict]"}, requires=["isdict(value[1])"],
                     ensures=["elstate({e}) == el_fill({e}, old(elstate({e})), value[0])".format(e=E),
                              "self._count == old(self._count) + 1", "self._cur_context is value[1]"],
                     modifies=["self._count", "self._cur_context"]),
        ]))
    ix.add(Contract(
        ME, "Mean.reset", qualkey="Mean_seq.reset", name="Mean.reset[sum_seq]", props=["C09"], ghost={"elstate": True},
        params={"self": "Self[Mean_seq]"},
        ensures=["elstate({e}) == el_reset({e})".format(e=E), "self._count == 0", "self._cur_context == emptydict()"],
        modifies=["self._count", "self._cur_context"]))
    # ---- compute
    S = "el_compute({e}, elstate({e}))".format(e=E)                   # what the sum element yields now
    CTX = "upd_spec(self._cur_context, vctx(%s[{j}]))" % S            # the context of result j: a copy of the current one, updated
    MEAN = "vattr(dataof(%s[0]), '__float__') / self._count" % S
    WITHC = "isinstance(yielded, tuple) and len(yielded) == 2"

    def yielded_is(where, data, j):
        c = CTX.format(j=j)
        return ["%s and %s implies %s and yielded[0] == %s and yielded[1] == %s" % (where, c, WITHC, data, c),
                "%s and not %s implies yielded == %s" % (where, c, data)]
    ix.add(Contract(
        ME, "Mean.compute", qualkey="Mean_seq.compute", name="Mean.compute[sum_seq]", props=["C09", "C04"],
        ghost={"elstate": True, "v_members": {"__float__": "attr:Real"}}, dict_model="Val",
        params={"self": "Self[Mean_seq]"}, generator=True, yields="Any",
        raises={"LenaZeroDivisionError": "self._count == 0 and not self._pass_on_empty",
                # (`assert sums`: a sum element that yields nothing)
                "AssertionError": "self._count != 0 and len(%s) == 0" % S},
        loops={0: LoopSpec(invariant=["yield_count() == _i + 1", "self._count != 0", "same(sums, %s)" % S])},
        at_yield=[
            # C04: a new context for every result, never the stored one
            "not in_loop(0) and %s implies is_fresh(yielded[1]) and yielded[1] is not self._cur_context" % CTX.format(j="0"),
            "in_loop(0) and %s implies is_fresh(yielded[1]) and yielded[1] is not self._cur_context and "
            "made_in_iteration(yielded[1], 0)" % CTX.format(j="_i0 + 1")] +
            # the first result is the mean; the others are handed on as they are
            yielded_is("not in_loop(0)", MEAN, "0") + yielded_is("in_loop(0)", "dataof(%s[_i0 + 1])" % S, "_i0 + 1"),
        ensures=["self._count == 0 implies yield_count() == 0",
                 "self._count != 0 implies yield_count() == len(%s)" % S,
                 "elstate({e}) == old(elstate({e}))".format(e=E), "self._cur_context == old(self._cur_context)"]))
    # ---- __init__ with a sum element
    RES = RESETTABLE.format(e="sum_seq")
    MM = ["self._sum_seq", "self.reset", "self._sum", "self._pass_on_empty", "self._count", "self._cur_context"]
    ix.add(Contract(
        ME, "Mean.__init__", qualkey="Mean_seq.__init__", name="Mean.__init__[sum_seq]", props=["C09"],
        params={"self": "Self[Mean0]", "sum_seq": "Obj", "pass_on_empty": "Bool"}, defaults={"pass_on_empty": False},
        requires=["obj_truthy(sum_seq)"],
        ensures=["self._sum_seq is sum_seq", "self._count == 0", "self._pass_on_empty == pass_on_empty",
                 "self._cur_context == emptydict()", "obj_truthy(self._sum_seq)",
                 # a sum element without reset(): the reset of the Mean says so (LenaAttributeError)
                 "not %s implies self.reset is self._reset_missing" % RES,
                 "%s implies self.reset is class_method(self, 'reset')" % RES],
        modifies=MM))
    ix.add(Contract(ME, "Mean._reset_missing", props=["C09"], params={"self": "Self[Mean_seq]"},
                    raises={"LenaAttributeError": "True"}))
    # ---- lemma: reset() forgets the history (the sum element in its el_reset state, count 0, context {})
    from contracts.P_acc import reset_forgets_history
    ix.lemmas.append(Lemma(
        "Mean[sum_seq]: reset() forgets the history", ME, ["C09"],
        reset_forgets_history("Mean_seq", "reset", ["_sum_seq"], ["self._count", "self._cur_context", "elstate(self._sum_seq)"]),
        notes="over the contract of reset: two elements with the same sum element and arbitrary histories agree afterwards on "
              "count, context and the state of the sum element (its el_reset state: that of a new one, DESIGN 2.3) -- what "
              "__init__[sum_seq] establishes besides (count 0, context {})"))
    # ---- FINDING on the unchanged tree (props=[]): a sum element that is FALSE as an object (its class defines __bool__ /
    # __len__): __init__, fill and compute test `if sum_seq:` and use the internal sum, reset tests `is not None` and calls
    # sum_seq.reset() -- the internal sum survives reset(): `Sum is reset zero (or the reset method of sum_seq is called)`
    ix.add_class(ClassSpec("Mean_falsy", ME, fields=MF, alias_of="Mean",
                           invariant=["isdict(self._cur_context)", "self._count >= 0", "not obj_truthy(self._sum_seq)"]))
    ix.add(Contract(
        ME, "Mean.reset", qualkey="Mean_falsy.reset", name="Mean.reset[sum_seq that is false as an object] (FAILS: new finding)",
        props=[], ghost={"elstate": True}, params={"self": "Self[Mean_falsy]"},
        ensures=["self._sum == 0", "self._count == 0", "self._cur_context == emptydict()"],
        modifies=["self._sum", "self._count", "self._cur_context"]))
