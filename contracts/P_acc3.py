"""P_acc3 -- C09 / C15 / C17: what `reset() equals a newly constructed element` is OBSERVED through (the `__eq__` of the
accumulators and of the flow elements), the remaining methods of the two grouping elements, the constructor of the old
grouping element, and the lemmas `after reset() the element == a newly constructed one` THROUGH the proved `__eq__`.

  lena/math/elements.py     Sum.__eq__, Sum.total, DSum.__eq__, DSum.total, VarianceMeanCount.__eq__, _maybe_with_context
  lena/flow/elements.py     Count.__eq__, StoreFilled.__eq__, StoreFilled.__init__, End.__eq__
  lena/flow/iterators.py    Reverse.__init__ / __eq__, CountFrom.__eq__, Chain.__eq__, Slice.__eq__,
                            Slice._run_negative_islice.fill_deque (nested helper)
  lena/flow/selectors.py    Selector.__eq__, And.__eq__, Or.__eq__, Not.__eq__
  lena/flow/filter.py       Filter.__eq__, Filter.__ne__
  lena/flow/group_by.py     GroupBy.clear / update / __eq__, _GroupBy.__init__ (with its nested make_grpby / make_tupbg /
                            tupgb, executed from their real ASTs) / clear / reset / __eq__
  lena/context/include_exclude_tree.py   IncludeExcludeTree.__eq__

Every `__eq__`: for an operand of the same class the result is True IFF every field of the documented state (the fields
fill / compute / reset read or write, and the configuration the constructor stores) is equal -- an `__eq__` that ignored a
field would hide a reset() that forgets it; for a foreign operand the result is the singleton NotImplemented (python then
tries the reflected comparison / identity), or False where the source says so (DSum, End).  Nothing is changed (frame:
no `modifies`), nothing is raised.

FINDINGS on the unchanged tree (contracts registered with props=[]: they FAIL): VarianceMeanCount.__eq__ ignores _count;
GroupBy.__eq__ ignores groups; _GroupBy.__eq__ tests isinstance(other, GroupBy) -- the NEW class -- instead of _GroupBy.

Engine additions: pyvc/interp.py `NotImplemented` (a Sentinel: only identity matters) and `obj_eq` (`a == b` for two
instances of a repository class with a contract for __eq__ goes through that contract; it was identity); pyvc/calls.py
inline_lambda (an exception leaving a lambda continues in the caller's frame)."""
from pyvc.contracts import Contract, LoopSpec, ClassSpec
from pyvc.verify import Lemma

ME = "lena/math/elements.py"
FE = "lena/flow/elements.py"
IT = "lena/flow/iterators.py"
GB = "lena/flow/group_by.py"
IE = "lena/context/include_exclude_tree.py"
FI = "lena/flow/filter.py"
SE = "lena/flow/selectors.py"


FOREIGN = (("None", "None"), ("a number", "Real"), ("a string", "Str"))


def eq_contract(ix, f, cls, same, props, foreign="NotImplemented", views=None, foreign_view=None, qualkey=None,
                foreign_requires=(), **kw):
    """the contract of `cls.__eq__`: an operand of the class (views: [(case name, view of self, view of other, clause)]),
    and foreign operands (an abstract object that is no instance, None, a number, a string)"""
    views = views or [(cls, cls, cls, same)]
    fv = foreign_view or views[0][1]
    cases = []
    for nm, sv, ov, cl in [v[:4] for v in views]:
        req = [v[4] for v in views if v[0] == nm and len(v) > 4]
        cases.append(Contract(f, "%s.__eq__" % cls, name="%s.__eq__[other: %s]" % (cls, nm),
                              params={"self": "Self[%s]" % sv, "other": "Inst[%s]" % ov}, result="Bool", raises={},
                              requires=list(req[0]) if req else [],
                              ensures=["result == (%s)" % (cl or same)], **kw))
    cases.append(Contract(f, "%s.__eq__" % cls, name="%s.__eq__[other: an object of another class]" % cls,
                          params={"self": "Self[%s]" % fv, "other": "Obj"}, result="Any", raises={},
                          requires=["not isinstance(other, %s)" % cls] + list(foreign_requires),
                          ensures=["result is %s" % foreign]))
    for nm, ty in FOREIGN:
        cases.append(Contract(f, "%s.__eq__" % cls, name="%s.__eq__[other: %s]" % (cls, nm),
                              params={"self": "Self[%s]" % fv, "other": ty}, result="Any", raises={},
                              ensures=["result is %s" % foreign]))
    # cases that differ only by the VIEW of an operand of another real class (Not / Selector) carry the distinguishing
    # facts as preconditions (true by the typing of the view): a case whose precondition is refuted at a call is passed over
    ghost = {"select_by_requires": True} if any(len(v) > 4 for v in views) else {}
    return ix.add(Contract(f, "%s.__eq__" % cls, props=props, cases=cases, qualkey=qualkey, ghost=ghost))


def reset_then_eq_new(cls, reset, init_args=()):
    """lemma builder: after `reset` on an ARBITRARY element of the class (object invariant assumed) the element `==` a newly
    constructed one (default arguments / the configuration of the element), in both directions, THROUGH the proved
    contract of `__eq__` -- the way the property's `reset() equals a fresh element` is observed."""
    from pyvc.calls import apply_contract, instantiate, eval_spec
    from pyvc.interp import VC, Unsupported
    from pyvc.smt import FALSE
    from pyvc.sym import Fun

    def build(ip, st):
        cs = ip.contracts.classes[cls]
        a = ip.make("Self[%s]" % cls, "a", st)
        for inv in cs.invariant:
            st.assume(eval_spec(ip, st, {"self": a}, inv))
        ip.entry = st.copy()
        ip.oldst = ip.entry
        k = ip.contracts.find_method(cls, reset)
        e = ip.contracts.find_method(cls, "__eq__")
        if k is None or e is None:
            raise Unsupported("no contract for %s.%s / __eq__" % (cls, reset))
        s1 = apply_contract(ip, st, k, [a], {})[0][0]
        args = init_args(ip, s1, a) if callable(init_args) else list(init_args)
        s2, b = instantiate(ip, s1, Fun("class", name=cls, mod=None), args, {})[0]
        for nm, x, y in (("reset element == new element", a, b), ("new element == reset element", b, a)):
            outs = apply_contract(ip, s2, e, [x, y], {})
            if len(outs) != 1:
                raise Unsupported("__eq__ forks")
            s2, res = outs[0]
            ip.emit("lemma", nm, s2, ip.truth(s2, res))
        ip.vcs.append(VC("cover requires", "cover", list(s2.pc), FALSE, ""))
    return build


def default_construction(cls, clauses):
    """lemma builder: the element constructed WITHOUT arguments (defaults as written in the source) satisfies the clauses"""
    from pyvc.calls import instantiate, eval_spec
    from pyvc.interp import VC
    from pyvc.smt import FALSE
    from pyvc.sym import Fun

    def build(ip, st):
        ip.entry = st.copy()
        ip.oldst = ip.entry
        s2, b = instantiate(ip, st, Fun("class", name=cls, mod=None), [], {})[0]
        for cl in clauses:
            ip.emit("lemma", "default construction: %s" % cl, s2, eval_spec(ip, s2, {"self": b}, cl))
        ip.vcs.append(VC("cover requires", "cover", list(s2.pc), FALSE, ""))
    return build


def field_args(*names):
    def f(ip, st, a):
        return [st.heap[a.cid].fields[n] for n in names]
    return f


def _probe(ip):
    """any_value(): an arbitrary flow value -- ONE uninterpreted constant of sort V per unit: a clause proved about it
    holds for every flow value (the clause cannot assume anything about it)"""
    from pyvc.smt import T
    from pyvc.sym import Opaque
    ip.reg.need("V")
    f = ip.reg.ufun("any_flow_value", [], "V")
    return Opaque(T(f, "V"))


def sp_any_value(ip, st, pos, kws):
    return _probe(ip)


def _run_fn(ip, st, f, v, catch):
    """the outcomes of the call f(v) of a function VALUE (a lambda / nested def held in a field or a local) executed from
    its real AST on a copy of the state: ([(path condition, result)], [(path condition, exception class)], fresh) where
    fresh = the symbols created during the run (results of callees: constrained by their postconditions in the path
    conditions; a path is TAKEN iff its condition holds for SOME values of them -- see _exists)"""
    from pyvc.calls import call_value
    s2 = st.copy()
    s2.catching = tuple(s2.catching) + (catch,)
    n0 = len(st.pc)
    nc = len(ip.reg.const_decls)
    saved, sm = ip._exc_out, ip.spec_mode
    ip._exc_out, ip.spec_mode = [], 0
    try:
        outs = call_value(ip, s2, f, [v], {})
        excs = ip._exc_out
    finally:
        ip._exc_out, ip.spec_mode = saved, sm
    fresh = list(ip.reg.const_decls[nc:])
    return ([(s.pc[n0:], r) for s, r in outs], [(s.pc[n0:], e.cls) for s, e in excs], fresh)


def _exists(ip, fresh, body):
    """exists <the symbols of `fresh` that occur in body>. body (the symbols become bound variables)"""
    from pyvc.smt import T
    text = body.s
    used = [(n, so) for n, so in fresh if n in text]
    if not used:
        return body
    binds = []
    for k, (n, so) in enumerate(used):
        b = "ex%d_%d" % (next(ip.bound), k)
        text = text.replace(n, b)
        binds.append("(%s %s)" % (b, so))
    return T("(exists (%s) %s)" % (" ".join(binds), text), "Bool")


def sp_fn_raises(ip, st, pos, kws):
    """fn_raises(f, v, 'Class'): the call f(v) of the function value f raises an exception of that class (the disjunction
    of the conditions of the raising paths of its body; callees by their contracts)"""
    from pyvc.smt import AND, OR
    from pyvc.sym import Bool
    normal, excs, fresh = _run_fn(ip, st, pos[0], pos[1], pos[2].s)
    return Bool(OR(*[_exists(ip, fresh, AND(*pc)) for pc, cls in excs if ip.is_subclass(cls, pos[2].s)]))


def sp_fn_result_is(ip, st, pos, kws):
    """fn_result_is(f, v, x): on every path on which the call f(v) returns, it returns x"""
    from pyvc.smt import AND, IMP
    from pyvc.sym import Bool
    normal, excs, fresh = _run_fn(ip, st, pos[0], pos[1], "Exception")
    # (for ALL values of the callees' results that the path condition admits: the symbols stay free in the goal)
    return Bool(AND(*[IMP(AND(*pc), ip.py_eq(st, r, pos[2])) for pc, r in normal]))


def sp_fn_result_item_is(ip, st, pos, kws):
    """fn_result_item_is(f, v, n, i, x): on every path on which the call f(v) returns, it returns a tuple of n items whose
    item i is x"""
    from pyvc.smt import AND, IMP, FALSE
    from pyvc.sym import Bool, Tup
    from pyvc.smt import lit_int
    normal, excs, fresh = _run_fn(ip, st, pos[0], pos[1], "Exception")
    n, i = lit_int(ip.num(pos[2])), lit_int(ip.num(pos[3]))
    conj = []
    for pc, r in normal:
        ok = ip.py_eq(st, r.items[i], pos[4]) if isinstance(r, Tup) and len(r.items) == n else FALSE
        conj.append(IMP(AND(*pc), ok))
    return Bool(AND(*conj))


def register(ix):
    ix.spec_names["fn_result_item_is"] = sp_fn_result_item_is
    ix.spec_names["any_value"] = sp_any_value
    ix.spec_names["fn_raises"] = sp_fn_raises
    ix.spec_names["fn_result_is"] = sp_fn_result_is
    register_acc_eq(ix)
    register_flow_eq(ix)
    register_groupby_rest(ix)
    register_reset_lemmas(ix)
    register_old_groupby_init(ix)
    register_small(ix)
    register_selector_eq(ix)
    register_fill_deque(ix)


def register_reset_lemmas(ix):
    # StoreFilled.__init__: `group allows access to the list of filled values` (empty at first); the configuration
    ix.add_class(ClassSpec("StoreFilled0", FE, fields={}, alias_of="StoreFilled"))
    ix.add(Contract(FE, "StoreFilled.__init__", props=["C09"],
                    params={"self": "Self[StoreFilled0]", "yield_as_a_group": "Bool"},
                    raises={}, ensures=["len(self.group) == 0", "self._yield_as_a_group == yield_as_a_group"],
                    modifies=["self.group", "self._yield_as_a_group"], post_class="StoreFilled"))
    # `By default they are yielded as a group`: no `defaults` in the contract -- a call without the argument takes the
    # default written in the source, and this lemma constructs StoreFilled() that way
    ix.lemmas.append(Lemma("StoreFilled(): by default the values are yielded as a group", FE, ["C09"],
                           default_construction("StoreFilled", ["self._yield_as_a_group == True", "len(self.group) == 0"]),
                           notes="over the contract of __init__ and the default value in the source"))
    for cls, f, reset, args, note in (
            ("Sum", ME, "reset", (), "Sum()"),
            ("DSum", ME, "reset", (), "DSum()"),
            ("Count", FE, "reset", field_args("name"), "Count(name=<the name of the element>)"),
            ("StoreFilled", FE, "reset", field_args("_yield_as_a_group"), "StoreFilled(<yield_as_a_group of the element>)"),
            ("VarianceMeanCount", ME, "_reset", None, "VarianceMeanCount(corrected=.., pass_on_empty=.. of the element)")):
        if args is None:
            def args(ip, st, a):
                from pyvc.sym import NONE
                fl = st.heap[a.cid].fields
                return [NONE, NONE, fl["_corrected"], fl["_pass_on_empty"]]
        ix.lemmas.append(Lemma(
            "%s: after reset() the element == a newly constructed one (through __eq__)" % cls, f, ["C09"],
            reset_then_eq_new(cls, reset, args),
            notes="over the contracts of %s, __init__ and __eq__; the new element is %s" % (reset, note)))


# ---------------------------------------------------------------------------------------------- accumulators
def register_acc_eq(ix):
    # Sum: the state is (total, current context)
    eq_contract(ix, ME, "Sum", "self._total == other._total and self._cur_context == other._cur_context", ["C09"])
    # `total`: the read-only view of the running sum
    ix.add(Contract(ME, "Sum.total", props=["C09"], params={"self": "Self[Sum]"}, result="Real", raises={},
                    ensures=["result == self._total"]))
    eq_contract(ix, ME, "DSum", "self._total == other._total and self._cur_context == other._cur_context", ["C09"],
                foreign="False")
    ix.add(Contract(ME, "DSum.total", props=["C09"], params={"self": "Self[DSum]"}, result="Dec", raises={},
                    ensures=["result == self._total"]))
    eq_contract(ix, FE, "Count",
                "self.name == other.name and self.count == other.count and self._cur_context == other._cur_context", ["C09"])
    eq_contract(ix, FE, "StoreFilled", "self.group == other.group and self._yield_as_a_group == other._yield_as_a_group",
                ["C09"])
    # VarianceMeanCount: the two inner sums (compared through the contract of Sum.__eq__), the context and the
    # configuration.  The state fill / compute depend on also holds the COUNT (compute divides by it): the clause with the
    # count FAILS on the unchanged tree (the source does not compare it) -- kept below with props=[] (finding)
    VMC = ("self._sum_sq == other._sum_sq and self._sum == other._sum and {count}"
           "self._cur_context == other._cur_context and self._corrected == other._corrected and "
           "self._pass_on_empty == other._pass_on_empty")
    eq_contract(ix, ME, "VarianceMeanCount", VMC.format(count=""), ["C09"])
    ix.add(Contract(ME, "VarianceMeanCount.__eq__", qualkey="VarianceMeanCount.__eq__#count", props=[],
                    name="VarianceMeanCount.__eq__[equal only if the counts are equal]",
                    params={"self": "Self[VarianceMeanCount]", "other": "Inst[VarianceMeanCount]"}, result="Bool", raises={},
                    ensures=["result == (%s)" % VMC.format(count="self._count == other._count and ")],
                    notes="FINDING (fails on the unchanged tree): __eq__ ignores _count"))


# ---------------------------------------------------------------------------------------------- flow elements
SLICE_ARGS = ["Tuple[Int]", "Tuple[None]", "Tuple[Int,Int]", "Tuple[Int,None]", "Tuple[None,Int]", "Tuple[None,None]",
              "Tuple[Int,Int,Int]", "Tuple[Int,Int,None]", "Tuple[Int,None,Int]", "Tuple[Int,None,None]",
              "Tuple[None,Int,Int]", "Tuple[None,Int,None]", "Tuple[None,None,Int]", "Tuple[None,None,None]"]


def register_flow_eq(ix):
    # End, Reverse: `all Reverse elements have no state and are equal`
    eq_contract(ix, FE, "End", "True", ["C17", "C02"], foreign="False")
    ix.add(Contract(IT, "Reverse.__init__", props=["C17"], params={"self": "Self[Reverse]"}, raises={}, ensures=[]))
    eq_contract(ix, IT, "Reverse", "True", ["C17"])
    # CountFrom: start and step (integers or floats; numbers compare by value)
    CF = "self._start == other._start and self._step == other._step"
    eq_contract(ix, IT, "CountFrom", CF, ["C17"],
                views=[("CountFrom (int) / (int)", "CountFrom", "CountFrom", None),
                       ("CountFrom (float) / (float)", "CountFrom_real", "CountFrom_real", None),
                       ("CountFrom (int) / (float)", "CountFrom", "CountFrom_real", None),
                       ("CountFrom (float) / (int)", "CountFrom_real", "CountFrom", None)])
    # Chain: the same number of iterables, pairwise equal (lists: same length, equal items)
    CH = ("len(self._iterables) == len(other._iterables) and "
          "all(self._iterables[i] == other._iterables[i] for i in range(len(self._iterables)))")
    eq_contract(ix, IT, "Chain", CH, ["C17"],
                views=[("Chain of %d / of %d" % (n, m), "Chain_%d" % n, "Chain_%d" % m, CH if n == m else "False")
                       for n in range(4) for m in range(4)])
    # Slice: the arguments the element was constructed with (start / stop / step as given, None included)
    views = []
    for i, a in enumerate(SLICE_ARGS):
        ix.add_class(ClassSpec("Slice_args_%d" % i, IT, fields={"_args": a}, alias_of="Slice"))
    def arity(t):
        return t.count(",") + 1
    for i, a in enumerate(SLICE_ARGS):
        for j, b in enumerate(SLICE_ARGS):
            if i == j or (arity(a) <= 2 and arity(b) <= 2) or (arity(a) == 3 and arity(b) == 3 and (i + j) % 3 == 0):
                if arity(a) != arity(b):
                    cl = "False"
                else:
                    cl = " and ".join("self._args[%d] == other._args[%d]" % (k, k) for k in range(arity(a)))
                views.append(("Slice%s / Slice%s" % (a[5:], b[5:]), "Slice_args_%d" % i, "Slice_args_%d" % j, cl))
    eq_contract(ix, IT, "Slice", None, ["C17"], views=views)


# ---------------------------------------------------------------------------------------------- GroupBy, _GroupBy
def register_groupby_rest(ix):
    """GroupBy.clear (`deprecated: use the standard reset`) = reset plus a DeprecationWarning; GroupBy.update (`deprecated: use
    the standard fill`) = fill plus the warning: the contracts are the ones of reset / fill (P_acc.py), clause by clause.
    GroupBy.__eq__: the configuration (the include / exclude tree built from group_by and merge)."""
    from pyvc import lib_acc2
    lib_acc2.register_warn(ix)
    NOGROUPS = "all_keys(lambda k: not has_group(self.groups, k))"
    fill = ix.by_key[(GB, "GroupBy.fill")]
    ix.add(Contract(GB, "GroupBy.clear", props=["C09"], params={"self": "Self[GroupBy]"}, raises={},
                    ensures=[NOGROUPS], modifies=["self.groups"]))
    ix.add(Contract(GB, "GroupBy.update", props=["C09", "C15"], params=dict(fill.params), raises=dict(fill.raises),
                    ensures=list(fill.ensures), modifies=list(fill.modifies)))
    # IncludeExcludeTree.__eq__: the same tree value (keys, subtrees -- recursively, they are values -- and the default)
    eq_contract(ix, IE, "IncludeExcludeTree",
                "self.keys == other.keys and self.subtrees == other.subtrees and self.include == other.include", ["C15"])
    TREES = "tree(self._iet) == tree(other._iet)"
    eq_contract(ix, GB, "GroupBy", TREES, ["C09", "C15"])
    # `reset() equals a newly constructed element` is observed through `==`: an __eq__ that ignores `groups` cannot see a
    # reset that forgets to clear them.  The clause over the whole state FAILS on the unchanged tree (finding, props=[])
    SAMEGROUPS = ("all_keys(lambda k: has_group(self.groups, k) == has_group(other.groups, k) and "
                  "(not has_group(self.groups, k) or group(self.groups, k) == group(other.groups, k)))")
    ix.add(Contract(GB, "GroupBy.__eq__", qualkey="GroupBy.__eq__#groups", props=[],
                    name="GroupBy.__eq__[equal only if the groups are equal]",
                    params={"self": "Self[GroupBy]", "other": "Inst[GroupBy]"}, result="Bool", raises={},
                    ensures=["result == (%s and %s)" % (TREES, SAMEGROUPS)],
                    notes="FINDING (fails on the unchanged tree): __eq__ compares the trees only"))
    # ---- _GroupBy (deprecated; the grouping element of GroupPlots)
    for m in ("clear", "reset"):          # `Remove all groups`
        ix.add(Contract(GB, "_GroupBy.%s" % m, props=["C09"], params={"self": "Self[_GroupBy]"}, raises={},
                        ensures=[NOGROUPS], modifies=["self.groups"]))
    # _GroupBy.__eq__ (`for equality testing`: _init_group_by, the argument of the constructor): the source tests
    # isinstance(other, GroupBy) -- the NEW class -- so two _GroupBy elements are never compared by their arguments
    ix.add_class(ClassSpec("_GroupBy_eq", GB, fields={"groups": "KeyMap[V]", "_init_group_by": "Str"}, alias_of="_GroupBy"))
    ix.add(Contract(GB, "_GroupBy.__eq__", qualkey="_GroupBy.__eq__#same-class", props=[],
                    name="_GroupBy.__eq__[other: _GroupBy, group_by a string]",
                    params={"self": "Self[_GroupBy_eq]", "other": "Inst[_GroupBy_eq]"}, result="Any", raises={},
                    ensures=["result is (self._init_group_by == other._init_group_by)"],
                    notes="FINDING (fails on the unchanged tree): isinstance(other, GroupBy) instead of _GroupBy -- the "
                          "result is NotImplemented for every other _GroupBy"))
    cases = [Contract(GB, "_GroupBy.__eq__", name="_GroupBy.__eq__[other: an object that is no GroupBy]",
                      params={"self": "Self[_GroupBy_eq]", "other": "Obj"}, result="Any", raises={},
                      requires=["not isinstance(other, GroupBy)"], ensures=["result is NotImplemented"])]
    for nm, ty in FOREIGN:
        cases.append(Contract(GB, "_GroupBy.__eq__", name="_GroupBy.__eq__[other: %s]" % nm,
                              params={"self": "Self[_GroupBy_eq]", "other": ty}, result="Any", raises={},
                              ensures=["result is NotImplemented"]))
    ix.add(Contract(GB, "_GroupBy.__eq__", props=["C09"], cases=cases))


# ---------------------------------------------------------------------------------------------- _GroupBy.__init__
def register_old_groupby_init(ix):
    """`group_by is a function that returns distinct hashable results for values from different groups.  It can be also a
    dot-separated formatting string.  In that case only the context part of the value is used (see format_context).
    group_by can be a tuple of strings or callables.  In that case the hash value will be combined from each part of the
    tuple.`  Anything else: LenaTypeError (`group_by must be a callable or a string`)."""
    ix.add_class(ClassSpec("_GroupBy0", GB, fields={}, alias_of="_GroupBy"))
    ix.add_class(ClassSpec("_GroupBy_callable", GB, fields={"groups": "KeyMap[V]", "_group_by": "Obj", "_init_group_by": "Obj"},
                           alias_of="_GroupBy"))
    MOD = ["self.groups", "self._group_by", "self._init_group_by"]
    # (a flow value that has a context has a dictionary as its context: the flow protocol)
    WF = "(not v_has_context(any_value()) or isdict(vctx(any_value())))"
    cases = [
        Contract(GB, "_GroupBy.__init__", name="_GroupBy.__init__[group_by: a callable]",
                 params={"self": "Self[_GroupBy0]", "group_by": "Obj"},
                 requires=["callable(group_by)", "not isinstance(group_by, tuple)"], raises={},
                 ensures=["self._group_by is group_by", "self._init_group_by is group_by", "no_groups(self.groups)"],
                 modifies=MOD, post_class="_GroupBy_callable"),
        Contract(GB, "_GroupBy.__init__", name="_GroupBy.__init__[group_by: an object that is neither callable nor a string]",
                 params={"self": "Self[_GroupBy0]", "group_by": "Obj"},
                 requires=["not callable(group_by)", "not isinstance(group_by, str)", "not isinstance(group_by, tuple)"],
                 raises={"LenaTypeError": "True"}, modifies=MOD),
        Contract(GB, "_GroupBy.__init__", name="_GroupBy.__init__[group_by: a number]",
                 params={"self": "Self[_GroupBy0]", "group_by": "Real"}, raises={"LenaTypeError": "True"}, modifies=MOD),
        Contract(GB, "_GroupBy.__init__", name="_GroupBy.__init__[group_by: None]",
                 params={"self": "Self[_GroupBy0]", "group_by": "None"}, raises={"LenaTypeError": "True"}, modifies=MOD),
        Contract(GB, "_GroupBy.__init__", name="_GroupBy.__init__[group_by: a string]",
                 params={"self": "Self[_GroupBy0]", "group_by": "Str"},
                 raises={"LenaValueError": "fmt_malformed(group_by)"},
                 # the key of a value is the string rendered from its CONTEXT; LenaKeyError when the context lacks a key
                 # of the formatting string (fill turns it into LenaValueError) -- for an arbitrary flow value
                 ensures=["self._init_group_by == group_by", "no_groups(self.groups)",
                          WF + " implies fn_raises(self._group_by, any_value(), 'Exception') == fmt_missing(group_by, vctx(any_value()))",
                          WF + " implies fn_raises(self._group_by, any_value(), 'LenaKeyError') == fmt_missing(group_by, vctx(any_value()))",
                          "fn_result_is(self._group_by, any_value(), fmt_apply(group_by, vctx(any_value())))"],
                 modifies=MOD),
    ]
    # ---- a tuple of formatting strings: `the hash value will be combined from each part of the tuple.  A tuple may be used
    # when not all parts of context can be always rendered`; fill: `if no values for a tuple group_by could produce keys
    # LenaValueError is raised`.  Part i of the key of a value: the rendered string, '' when the context lacks a key of it
    V = "any_value()"
    for n in (0, 1, 2, 3):
        ty = "Tuple[%s]" % ",".join(["Str"] * n)
        miss = ["fmt_missing(group_by[%d], vctx(%s))" % (i, V) for i in range(n)]
        rend = ["fmt_apply(group_by[%d], vctx(%s))" % (i, V) for i in range(n)]
        nokey = " and ".join(["(%s or %s == '')" % (m, r) for m, r in zip(miss, rend)]) or "True"
        items = []
        for i in range(n):
            items.append("%s implies fn_result_item_is(self._group_by, %s, %d, %d, '')" % (miss[i], V, n, i))
            items.append("not %s implies fn_result_item_is(self._group_by, %s, %d, %d, %s)" % (miss[i], V, n, i, rend[i]))
        cases.append(Contract(
            GB, "_GroupBy.__init__", name="_GroupBy.__init__[group_by: a tuple of %d strings]" % n,
            params={"self": "Self[_GroupBy0]", "group_by": ty},
            raises={"LenaValueError": " or ".join(["fmt_malformed(group_by[%d])" % i for i in range(n)]) or "False"},
            ensures=["self._init_group_by == group_by", "no_groups(self.groups)",
                     WF + " implies fn_raises(self._group_by, %s, 'Exception') == (%s)" % (V, nokey),
                     WF + " implies fn_raises(self._group_by, %s, 'LenaValueError') == (%s)" % (V, nokey)] + items,
            modifies=MOD))
    # a part that is neither a string nor a callable
    for nm, ty in (("(number,)", "Tuple[Real]"), ("(string, None)", "Tuple[Str,None]"), ("(None, string)", "Tuple[None,Str]")):
        cases.append(Contract(GB, "_GroupBy.__init__", name="_GroupBy.__init__[group_by: %s]" % nm,
                              params={"self": "Self[_GroupBy0]", "group_by": ty},
                              raises={"LenaTypeError": "True" if ty != "Tuple[Str,None]" else "not fmt_malformed(group_by[0])",
                                      "LenaValueError": "False" if ty != "Tuple[Str,None]" else "fmt_malformed(group_by[0])"},
                              modifies=MOD))
    ix.add(Contract(GB, "_GroupBy.__init__", props=["C15", "C09"], cases=cases))


# ---------------------------------------------------------------------------------------------- _maybe_with_context
def register_small(ix):
    # (ISlice is NOT under contract: `Slice(*args, **kwargs)` goes through the contract of Slice.__init__ (P_flow.py), whose
    # clause `self._args is args` is false for the new tuple a call with *args builds -- contradictory hypotheses at the call)
    # _maybe_with_context (`a helper`): the pair when the context is not empty, else the bare data; the context is the very
    # object it was given.  (Callers execute the helper in place: C09.py; this is the statement about the helper itself.)
    mc = []
    for nm, ty in (("a number", "Real"), ("a flow value", "V")):
        mc.append(Contract(ME, "_maybe_with_context", name="_maybe_with_context[data: %s]" % nm,
                           params={"data": ty, "context": "Dict"}, requires=["isdict(context)"], result="Any", raises={},
                           ensures=["context implies isinstance(result, tuple) and len(result) == 2 and result[0] == data "
                                    "and result[1] is context",
                                    "not context implies result == data"]))
    ix.add(Contract(ME, "_maybe_with_context", qualkey="_maybe_with_context#contract", props=["C09"], cases=mc))


# ---------------------------------------------------------------------------------------------- Selector, And, Or, Not, Filter
SEL_KINDS = {
    # kind: fields of the view -- what Selector.__init__ stores for a specification of that kind (the views differ by the
    # TYPES of _orig_class / _orig_str; _from_callable is arbitrary: the result must not depend on it)
    "class": {"_orig_class": "Obj", "_orig_str": "None", "_from_callable": "Bool", "_selector": "Obj"},
    "str": {"_orig_class": "None", "_orig_str": "Str", "_from_callable": "Bool", "_selector": "Obj"},
    "callable": {"_orig_class": "None", "_orig_str": "None", "_from_callable": "Bool", "_selector": "Obj"},
}
SEL_SAME = {"class": "self._orig_class == other._orig_class", "str": "self._orig_str == other._orig_str",
            "callable": "self._selector == other._selector"}


def register_selector_eq(ix):
    """Selector.__eq__: equal iff both raise (or both do not raise) on errors AND the specifications are equal -- the same
    class, the same string, the same callable, equal lists / tuples of selectors; selectors of different kinds (a class
    against a string) are different.  And / Or: equal sequences of selectors.  Not: never equal to a selector that is not a
    Not (`otherwise will falsely compare them`); Filter: equal selectors; `!=` is the negation of `==`."""
    for kind, flds in SEL_KINDS.items():
        for cls in ("Selector", "Not"):
            ix.add_class(ClassSpec("%s_eq_%s" % (cls, kind), SE, fields=dict(flds, _raise_on_error="Bool"),
                                   alias_of=cls, bases=([] if cls == "Selector" else ["Selector"])))
    ROE = "self._raise_on_error == other._raise_on_error"
    KIND = {"class": "{o}._orig_class is not None", "str": "{o}._orig_class is None and {o}._orig_str is not None",
            "callable": "{o}._orig_class is None and {o}._orig_str is None"}

    def req(ks, ko, self_not, other_not):
        return [KIND[ks].format(o="self"), KIND[ko].format(o="other"),
                "is_instance_of(self, 'Not')" if self_not else "not is_instance_of(self, 'Not')",
                "is_instance_of(other, 'Not')" if other_not else "not is_instance_of(other, 'Not')"]
    # (Not.__eq__ delegates here with two Not objects)
    views = [("Not(%s) / Not(%s)" % (k, k), "Not_eq_%s" % k, "Not_eq_%s" % k, "%s and %s" % (ROE, SEL_SAME[k]), req(k, k, True, True))
             for k in SEL_KINDS]
    views += [("%s / %s" % (k, k), "Selector_eq_%s" % k, "Selector_eq_%s" % k, "%s and %s" % (ROE, SEL_SAME[k]),
               req(k, k, False, False)) for k in SEL_KINDS]
    views += [("class / str", "Selector_eq_class", "Selector_eq_str", "False", req("class", "str", False, False)),
              ("str / class", "Selector_eq_str", "Selector_eq_class", "False", req("str", "class", False, False))]
    eq_contract(ix, SE, "Selector", None, ["C15"], views=views, foreign_view="Selector_eq_str")
    # ---- And, Or over 0..2 selectors made from strings / classes
    for cls in ("And", "Or"):
        vs = []
        for kind in ("str", "class"):
            for n in (0, 1, 2):
                ix.add_class(ClassSpec("%s_eq_%s_%d" % (cls, kind, n), SE, alias_of=cls,
                                       fields={"_selectors": "PyList[%d,Inst[Selector_eq_%s]]" % (n, kind)}))
        for kind in ("str", "class"):
            for n in (0, 1, 2):
                for m in (0, 1, 2):
                    if kind == "class" and (n == 0 or m == 0):
                        continue
                    same = " and ".join("self._selectors[%d] == other._selectors[%d]" % (i, i) for i in range(n)) or "True"
                    vs.append(("%s of %d / of %d %s selectors" % (cls, n, m, kind), "%s_eq_%s_%d" % (cls, kind, n),
                               "%s_eq_%s_%d" % (cls, kind, m), same if n == m else "False"))
        eq_contract(ix, SE, cls, None, ["C15"], views=vs)
    # ---- Not
    nviews = [("Not(%s) / Not(%s)" % (k, k), "Not_eq_%s" % k, "Not_eq_%s" % k, "%s and %s" % (ROE, SEL_SAME[k]),
               req(k, k, True, True)) for k in SEL_KINDS]
    nviews += [("Not(%s) / Selector(%s) that is not a Not" % (k, k), "Not_eq_%s" % k, "Selector_eq_%s" % k, "False",
                req(k, k, True, False)) for k in SEL_KINDS]
    # (a Selector that is no Not: False -- the second group of cases; anything that is no Selector: NotImplemented)
    eq_contract(ix, SE, "Not", None, ["C15"], views=nviews, foreign_requires=["not isinstance(other, Selector)"])
    # ---- Filter
    fviews = []
    for k in SEL_KINDS:
        ix.add_class(ClassSpec("Filter_eq_%s" % k, FI, alias_of="Filter", fields={"_selector": "Inst[Selector_eq_%s]" % k}))
        fviews.append(("Filter(%s) / Filter(%s)" % (k, k), "Filter_eq_%s" % k, "Filter_eq_%s" % k, "self._selector == other._selector"))
    fviews.append(("Filter(class) / Filter(str)", "Filter_eq_class", "Filter_eq_str", "False"))
    eq_contract(ix, FI, "Filter", None, ["C15"], views=fviews)
    ne_cases = [Contract(FI, "Filter.__ne__", name="Filter.__ne__[other: %s]" % nm,
                         params={"self": "Self[%s]" % sv, "other": "Inst[%s]" % ov}, result="Bool", raises={},
                         ensures=["result == (not (%s))" % cl]) for nm, sv, ov, cl in fviews]
    ix.add(Contract(FI, "Filter.__ne__", props=["C15"], cases=ne_cases))


# ---------------------------------------------------------------------------------------------- Slice._run_negative_islice.fill_deque
def register_fill_deque(ix):
    """the nested helper of Slice._run_negative_islice -- its comment: `Fill a deque with exactly maxlen values from flow and
    return that.  All other values remain in flow`: the deque holds the next min(maxlen, what is left) values of the flow,
    newest first (appendleft), and EXACTLY that many values were pulled (a value read and dropped would be lost for the
    slice: C17 `yields exactly xs[start:stop]`, C02 no value is read ahead in vain)."""
    # (the enclosing function imports deque locally: for the nested def it is a free variable -- the library model of
    # collections.deque, pyvc/lib_flow.py, under a name a closure type can refer to)
    ix.lib["collections.deque"] = ix.lib[("collections", "deque")]
    P0 = "old(pulled(flow))"
    K = "min(maxlen, len(content(flow)) - %s)" % P0
    ix.add(Contract(
        # (registered under a key of its own: the enclosing generator goes on executing the helper in place -- its loop
        # invariants speak about the deque the helper returns, which a result typed as a list would not be)
        IT, "Slice._run_negative_islice.fill_deque", qualkey="Slice._run_negative_islice.fill_deque#contract", props=["C17", "C02"],
        params={"flow": "Iter[V]", "maxlen": "Int"}, result="Lst[V]", closure={"deque": "Lib[collections.deque]"},
        requires=["maxlen >= 0"], raises={},
        loops={0: LoopSpec(invariant=["len(d) == _i", "pulled(flow) == %s + _i" % P0, "_i <= maxlen",
                                      "all(d[j] is content(flow)[%s + _i - 1 - j] for j in range(_i))" % P0])},
        ensures=["len(result) == %s" % K, "pulled(flow) == %s + %s" % (P0, K),
                 "all(result[j] is content(flow)[%s + %s - 1 - j] for j in range(len(result)))" % (P0, K)],
        modifies=["flow"]))

