"""library contracts (tier A) used by contracts/P_acc2.py.  Everything here is an ASSUMPTION about CPython, listed in the evidence.

sorted(xs)   for a list of symbolic length whose items are abstract flow values (sort V): a NEW list
                 sorted_V(xs)
             with (facts assumed for the list it is applied to)
               * the same length, and a permutation of xs: index functions sort_ix / sort_pos with
                 sorted_V(xs)[i] = xs[sort_ix(xs, i)],  sort_ix(xs, sort_pos(xs, j)) = j   (every item of xs has its place),
               * ascending for the items' own `<` (v_lt, an uninterpreted relation on V):  i < j  =>  not v_lt(r[j], r[i]),
               * stable: items that do not compare `<` keep their order.
             The comparisons may fail (TypeError: unorderable items): sortable_V(xs) is the uninterpreted predicate `every
             comparison sorted() performs on xs succeeds`; without it the call raises TypeError (an obligation where the
             exception is not observable).  key= / reverse= are not modelled (Unsupported).
"""
from .smt import T, I, NOT, EQ, CMP
from .sym import Ref, LstCell, Bool, Opaque

NOTE = ("library contract (tier A): sorted(list of flow values) -- a new list, the stable ascending permutation of its argument "
        "for the items' own `<` (uninterpreted v_lt); raises TypeError iff not sortable_V (uninterpreted)")


def U(msg):
    from .interp import Unsupported
    return Unsupported(msg)


def _decls(ip, sort):
    reg = ip.reg
    reg.ufun("sorted_V", [sort], sort)
    reg.ufun("sortable_V", [sort], "Bool")
    reg.ufun("sort_ix_V", [sort, "Int"], "Int")
    reg.ufun("sort_pos_V", [sort, "Int"], "Int")
    reg.ufun("v_lt", ["V", "V"], "Bool")


def sorted_term(ip, xs):
    _decls(ip, xs.sort)
    return T("(sorted_V %s)" % xs.s, xs.sort)


def sortable(ip, xs):
    _decls(ip, xs.sort)
    return T("(sortable_V %s)" % xs.s, "Bool")


def sorted_list(ip, st, v):
    """sorted(v) for a python list of symbolic length with items of sort V; None when v is not of that form"""
    if not (isinstance(v, Ref) and isinstance(st.heap.get(v.cid), LstCell)):
        return None
    reg = ip.reg
    xs = ip.deref(st, v)
    if reg.lst_elem.get(xs.sort) != "V":
        return None
    ok = sortable(ip, xs)
    if not ip.spec_mode:
        if ip.may_catch(st, "TypeError"):
            bad = st.fork(NOT(ok), "unsortable.")
            ip.raise_(bad, "TypeError")
        else:
            ip.emit("safety", "sorted: the items can be compared", st, ok)
        st.assume(ok)
    r = sorted_term(ip, xs)
    n = reg.l_len(xs)
    st.assume(EQ(reg.l_len(r), n))
    i, j = "si%d" % next(ip.bound), "sj%d" % next(ip.bound)
    ri, rj = reg.l_get(r, T(i, "Int")).s, reg.l_get(r, T(j, "Int")).s
    ix = "(sort_ix_V %s %s)" % (xs.s, i)
    st.assume(T("(forall ((%s Int)) (! (=> (and (<= 0 %s) (< %s %s)) (and (<= 0 %s) (< %s %s) (= %s %s))) :pattern (%s)))" % (
        i, i, i, n.s, ix, ix, n.s, ri, reg.l_get(xs, T(ix, "Int")).s, ri), "Bool"))
    ps = "(sort_pos_V %s %s)" % (xs.s, j)
    st.assume(T("(forall ((%s Int)) (! (=> (and (<= 0 %s) (< %s %s)) (and (<= 0 %s) (< %s %s) (= (sort_ix_V %s %s) %s))) :pattern (%s)))" % (
        j, j, j, n.s, ps, ps, n.s, xs.s, ps, j, ps), "Bool"))
    ixj = "(sort_ix_V %s %s)" % (xs.s, j)
    st.assume(T("(forall ((%s Int) (%s Int)) (! (=> (and (<= 0 %s) (< %s %s) (< %s %s)) (and (not (v_lt %s %s)) "
                "(or (v_lt %s %s) (< %s %s)))) :pattern (%s %s)))" % (
                    i, j, i, i, j, j, n.s, rj, ri, ri, rj, ix, ixj, ri, rj), "Bool"))
    ip.assumptions.add(NOTE)
    return [(st, ip.new_cell(st, LstCell(r)))]


# ---- contract language
def sp_sorted_of(ip, st, pos, kws):
    """sorted_of(xs): the list python's sorted(xs) returns (list of flow values)"""
    from .speclib import lst_term
    xs = lst_term(ip, st, pos[0], ip.reg.lst("V"))
    return ip.lst_view(sorted_term(ip, xs))


def sp_sortable(ip, st, pos, kws):
    """sortable(xs): sorted(xs) raises no TypeError"""
    from .speclib import lst_term
    return Bool(sortable(ip, lst_term(ip, st, pos[0], ip.reg.lst("V"))))


def register(ix):
    ix.spec_names["sorted_of"] = sp_sorted_of
    ix.spec_names["sortable"] = sp_sortable
