"""library contracts (tier A) used by contracts/P_acc2.py.  Everything here is an ASSUMPTION about CPython, listed in the evidence.

sorted(xs)   for a list of symbolic length whose items are abstract flow values (sort V): a NEW list
                 sorted_V(xs)
             with (facts assumed for the list it is applied to)
               * the same length, and a permutation of xs: index functions sort_ix / sort_pos with
                 sorted_V(xs)[i] = xs[sort_ix(xs, i)],  sort_ix(xs, sort_pos(xs, j)) = j   (every item of xs has its place),
               * ascending for the items' own `<` (v_lt, an uninterpreted relation on V):  i < j  =>  not v_lt(r[j], r[i]),
               * stable: items that do not compare `<` keep their order.
             The comparisons may fail (TypeError: unorderable items): sortable_V(xs) is the uninterpreted predicate `every
             comparison sorted() performs on xs succeeds`; without it the call raises TypeError (an obligation where the
             exception is not observable).  key= / reverse= are not modelled (Unsupported).
"""
from .smt import T, I, NOT, EQ, CMP
from .sym import Ref, LstCell, Bool, Opaque

NOTE = ("library contract (tier A): sorted(list of flow values) -- a new list, the stable ascending permutation of its argument "
        "for the items' own `<` (uninterpreted v_lt); raises TypeError iff not sortable_V (uninterpreted)")


def U(msg):
    from .interp import Unsupported
    return Unsupported(msg)


def _decls(ip, sort):
    reg = ip.reg
    reg.ufun("sorted_V", [sort], sort)
    reg.ufun("sortable_V", [sort], "Bool")
    reg.ufun("sort_ix_V", [sort, "Int"], "Int")
    reg.ufun("sort_pos_V", [sort, "Int"], "Int")
    reg.ufun("v_lt", ["V", "V"], "Bool")


def sorted_term(ip, xs):
    _decls(ip, xs.sort)
    return T("(sorted_V %s)" % xs.s, xs.sort)


def sortable(ip, xs):
    _decls(ip, xs.sort)
    return T("(sortable_V %s)" % xs.s, "Bool")


def sorted_list(ip, st, v):
    """sorted(v) for a python list of symbolic length with items of sort V; None when v is not of that form"""
    from .sym import PyListCell
    if isinstance(v, Ref) and isinstance(st.heap.get(v.cid), PyListCell) and len(st.heap[v.cid].items) <= 1 and not v.path:
        return [(st, ip.new_cell(st, PyListCell(list(st.heap[v.cid].items))))]      # nothing to compare: a new list with the same items
    if not (isinstance(v, Ref) and isinstance(st.heap.get(v.cid), LstCell)):
        return None
    reg = ip.reg
    xs = ip.deref(st, v)
    if reg.lst_elem.get(xs.sort) != "V":
        return None
    ok = sortable(ip, xs)
    if not ip.spec_mode:
        if ip.may_catch(st, "TypeError"):
            bad = st.fork(NOT(ok), "unsortable.")
            ip.raise_(bad, "TypeError")
        else:
            ip.emit("safety", "sorted: the items can be compared", st, ok)
        st.assume(ok)
    r = sorted_term(ip, xs)
    n = reg.l_len(xs)
    st.assume(EQ(reg.l_len(r), n))
    i, j = "si%d" % next(ip.bound), "sj%d" % next(ip.bound)
    ri, rj = reg.l_get(r, T(i, "Int")).s, reg.l_get(r, T(j, "Int")).s
    ix = "(sort_ix_V %s %s)" % (xs.s, i)
    st.assume(T("(forall ((%s Int)) (! (=> (and (<= 0 %s) (< %s %s)) (and (<= 0 %s) (< %s %s) (= %s %s))) :pattern (%s)))" % (
        i, i, i, n.s, ix, ix, n.s, ri, reg.l_get(xs, T(ix, "Int")).s, ri), "Bool"))
    ps = "(sort_pos_V %s %s)" % (xs.s, j)
    st.assume(T("(forall ((%s Int)) (! (=> (and (<= 0 %s) (< %s %s)) (and (<= 0 %s) (< %s %s) (= (sort_ix_V %s %s) %s))) :pattern (%s)))" % (
        j, j, j, n.s, ps, ps, n.s, xs.s, ps, j, ps), "Bool"))
    ixj = "(sort_ix_V %s %s)" % (xs.s, j)
    st.assume(T("(forall ((%s Int) (%s Int)) (! (=> (and (<= 0 %s) (< %s %s) (< %s %s)) (and (not (v_lt %s %s)) "
                "(or (v_lt %s %s) (< %s %s)))) :pattern (%s %s)))" % (
                    i, j, i, i, j, j, n.s, rj, ri, ri, rj, ix, ixj, ri, rj), "Bool"))
    ip.assumptions.add(NOTE)
    return [(st, ip.new_cell(st, LstCell(r)))]


# ---- contract language
def sp_sorted_of(ip, st, pos, kws):
    """sorted_of(xs): the list python's sorted(xs) returns (list of flow values)"""
    from .speclib import lst_term
    xs = lst_term(ip, st, pos[0], ip.reg.lst("V"))
    return ip.lst_view(sorted_term(ip, xs))


def sp_sortable(ip, st, pos, kws):
    """sortable(xs): sorted(xs) raises no TypeError"""
    from .speclib import lst_term
    return Bool(sortable(ip, lst_term(ip, st, pos[0], ip.reg.lst("V"))))


def register(ix):
    ix.spec_names["sorted_of"] = sp_sorted_of
    ix.spec_names["sortable"] = sp_sortable


# --------------------------------------------------------------------------- a user function that makes bins
# Field / parameter type  Lib[user.make_bins]:  the `make_bins` argument of lena.structures.Histogram, `a function without
# arguments that creates new bins`.  ASSUMED about it (listed in the evidence): every call returns a NEW python list of numbers
# (an object nobody else holds), with the same content each time (the one-dimensional bins `made_bins()`), raises nothing and
# changes nothing.
MB_NOTE = ("user function (assumed): make_bins() of Histogram returns a new list of numbers on every call, always with the same "
           "content, without side effects")


def made_bins_term(ip):
    sort = ip.reg.lst("Real")
    ip.reg.fun_decl("user_made_bins", "(declare-fun user_made_bins () %s)" % sort)
    return T("user_made_bins", sort)


def lib_user_make_bins(ip, st, pos, kws):
    if pos or kws:
        raise U("make_bins called with arguments")
    t = made_bins_term(ip)
    st.assume(CMP(">=", ip.reg.l_len(t), I(0)))
    ip.assumptions.add(MB_NOTE)
    return [(st, ip.new_cell(st, LstCell(t)))]


def sp_made_bins(ip, st, pos, kws):
    """made_bins(): the content of the bins the user's make_bins() creates"""
    return ip.lst_view(made_bins_term(ip))


def register_make_bins(ix):
    ix.lib["user.make_bins"] = lib_user_make_bins
    ix.spec_names["made_bins"] = sp_made_bins


# --------------------------------------------------------------------------- python lists of contexts inside a context
# Contract(ghost={"ctx_lists": True}): a python list whose items are context VALUES (sort Lst_Val: [get_context(v) for v in
# group]) that is stored into a context dictionary (context["group"] = contexts) is the context value vlist_as_val(l): no
# dictionary, truthy iff non-empty, a python list; val_as_vlist reads the length and the items back.  Only INSTANCES of
# these facts at the list terms actually stored are assumed (finitely many per unit: always satisfiable -- a global injective
# embedding of all lists of context values into the scalars would not be).  The stored list is a SNAPSHOT: the list object
# must not be changed afterwards (Interp.store refuses it: notes["embedded_lists"]); its items are values already.
VL_NOTE = ("contexts: a python list of context values stored into a context is a list-valued scalar that reads back with the "
           "same length and items (ghost ctx_lists; instances at the stored lists only)")


def vlist_decl(ip):
    reg = ip.reg
    reg.need_val()
    ls = reg.lst("Val")
    reg.ufun("vlist_as_val", [ls], "Val")
    reg.ufun("val_as_vlist", ["Val"], ls)
    reg.ufun("is_list_Val", ["Val"], "Bool")
    return ls


def _has_bound(text):
    import re
    return bool(re.search(r"(?<![|!\w])(ak|q|uk|sk|mk|wf|xi|si|sj|lq|al)\d+(?![\w!|])", re.sub(r"\|[^|]*\|", "", text)))


def vlist_embed(ip, st, l):
    """the context value of the python list with the Lst_Val term l, with the instance facts about it"""
    ls = vlist_decl(ip)
    if _has_bound(l.s):
        raise U("a list of context values built under a quantifier stored into a context")
    v = "(vlist_as_val %s)" % l.s
    back = "(val_as_vlist %s)" % v
    facts = [
        "(=> (>= (len_{ls} {l}) 0) (and (= (len_{ls} {b}) (len_{ls} {l})) (forall ((vi Int)) (! (=> (and (<= 0 vi) (< vi (len_{ls} {l}))) "
        "(= (select (arr_{ls} {b}) vi) (select (arr_{ls} {l}) vi))) :pattern ((select (arr_{ls} {b}) vi))))))".format(ls=ls, l=l.s, b=back),
        "(and (not (isD {v})) (= (truthy_s (sid {v})) (> (len_{ls} {l}) 0)) (is_list_Val {v}))".format(ls=ls, l=l.s, v=v)]
    for f in facts:
        ax = T(f, "Bool")
        if not any(h.s == ax.s for h in st.pc):
            st.pc.append(ax)
    ip.assumptions.add(VL_NOTE)
    return T(v, "Val")


def list_value(ip, st, v):
    """dicts.dterm hook: Val term of a python list of context values (a heap list of sort Lst_Val), or None"""
    if not (isinstance(v, Ref) and isinstance(st.heap.get(v.cid), LstCell) and not v.path):
        return None
    l = ip.deref(st, v)
    if l.sort != ip.reg.lst("Val"):
        return None
    if not ip.spec_mode:
        st.notes["embedded_lists"] = frozenset(st.notes.get("embedded_lists", ())) | {v.cid}
    return vlist_embed(ip, st, l)


def sp_vlist(ip, st, pos, kws):
    """vlist(xs): the context value that the python list xs of context values is (as stored into a context)"""
    from .speclib import lst_term
    return Opaque(vlist_embed(ip, st, lst_term(ip, st, pos[0], ip.reg.lst("Val"))))


def _sexp_split(text):
    """top-level parts of the s-expression `(a b c ...)` (None if text is not one parenthesised list)"""
    text = text.strip()
    if not (text.startswith("(") and text.endswith(")")):
        return None
    parts, depth, cur, bar = [], 0, "", False
    for ch in text[1:-1]:
        if ch == "|":
            bar = not bar
        if not bar:
            if ch == "(":
                depth += 1
            elif ch == ")":
                depth -= 1
            elif ch == " " and depth == 0:
                if cur:
                    parts.append(cur)
                cur = ""
                continue
        cur += ch
    if cur:
        parts.append(cur)
    return parts if depth == 0 else None


def read_over_store(text):
    """(vget (D (store M k (some X))) k)  ->  X   (a read of the key just stored: what the array theory gives; done
    syntactically so that the hypotheses about X are found by matching); any other text is returned unchanged"""
    p = _sexp_split(text)
    if p and len(p) == 3 and p[0] == "vget":
        d = _sexp_split(p[1])
        if d and len(d) == 2 and d[0] == "D":
            s = _sexp_split(d[1])
            if s and len(s) == 4 and s[0] == "store" and s[2] == p[2]:
                v = _sexp_split(s[3])
                if v and len(v) == 2 and v[0] == "some":
                    return v[1]
    return text


def sp_as_vlist(ip, st, pos, kws):
    """as_vlist(x): the items of the context value x read as a python list of context values"""
    from .dicts import dterm
    ls = vlist_decl(ip)
    t = T("(val_as_vlist %s)" % read_over_store(dterm(ip, st, pos[0]).s), ls)
    if not _has_bound(t.s):
        ax = T("(>= (len_%s %s) 0)" % (ls, t.s), "Bool")
        if not any(h.s == ax.s for h in st.pc):
            st.pc.append(ax)
    return ip.lst_view(t)


def sp_is_vlist(ip, st, pos, kws):
    from .dicts import dterm
    vlist_decl(ip)
    return Bool(T("(is_list_Val %s)" % dterm(ip, st, pos[0]).s, "Bool"))


def register_ctx_lists(ix):
    ix.spec_names["vlist"] = sp_vlist
    ix.spec_names["as_vlist"] = sp_as_vlist
    ix.spec_names["is_vlist"] = sp_is_vlist


# --------------------------------------------------------------------------- a python set of context values
# set(<generator of context values, symbolic length>): the set is represented by a list term holding exactly its members
# (duplicates do not matter).  Defined: s.add(x), any(s) / all(s), `x in s` (python's ==: scalars are classes of ==-equal
# constants in the encoding, so False in {0} holds as in python).  Everything else on such a set (len, iteration order, ==) is
# out-of-subset (the cell is no sequence for the rest of the engine).
class ValSetCell(object):
    def __init__(self, members):
        self.members = members          # Lst_Val term

    def __repr__(self):
        return "ValSetCell(%s)" % self.members.s[:40]


def set_of_values(ip, st, view):
    """set(view) for a view of symbolic length whose items are context values; None otherwise"""
    from .calls import materialise
    if not ip.spec_mode and getattr(view, "lazy", False) and getattr(view, "get2", None) is not None:
        from .histlib import symbolic_listcomp      # items that call contracts: unknowns per item (see all / any)
        lv = symbolic_listcomp(ip, st, st, view)
        view = ip.as_view(st, lv) if isinstance(lv, Ref) else lv
    sample = view.get(T("0", "Int"))
    if not (isinstance(sample, Opaque) and sample.sort == "Val"):
        return None
    t = getattr(view, "term", None)
    if t is None or t.sort != ip.reg.lst("Val"):
        t = materialise(ip, st, view, ip.reg.lst("Val"))
    return [(st, ip.new_cell(st, ValSetCell(t)))]


def valset_method(ip, st, recv, name, pos, kws):
    from .dicts import dterm
    from .sym import NONE
    cell = st.heap[recv.cid]
    if name == "add" and len(pos) == 1 and not kws:
        st.heap[recv.cid] = ValSetCell(ip.reg.l_append(cell.members, dterm(ip, st, pos[0])))
        return [(st, NONE)]
    raise U("method %s of a set of context values" % name)


def valset_members(ip, st, v):
    """view of the members of a set of context values, or None if v is no such set"""
    if isinstance(v, Ref) and isinstance(st.heap.get(v.cid), ValSetCell):
        return ip.lst_view(st.heap[v.cid].members)
    return None


def valset_contains(ip, st, b, a):
    """`a in b` for a set of context values b (None if b is no such set)"""
    from .dicts import dterm
    mem = valset_members(ip, st, b)
    if mem is None:
        return None
    x = dterm(ip, st, a)
    q = T("vs%d" % next(ip.bound), "Int")
    return T("(exists ((%s Int)) (and (<= 0 %s) (< %s %s) (= %s %s)))" % (
        q.s, q.s, q.s, mem.len.s, ip.reg.l_get(mem.term, q).s, x.s), "Bool")


# --------------------------------------------------------------------------- warnings.warn
def lib_warn(ip, st, pos, kws):
    """warnings.warn(message, category, stacklevel): ASSUMED to have no effect the code under contract can observe (the
    warning filters of the process do not turn warnings into exceptions)"""
    from .sym import NONE
    ip.assumptions.add("library contract (tier A): warnings.warn has no observable effect (warnings are not turned into errors)")
    return [(st, NONE)]


def register_warn(ix):
    ix.lib[("warnings", "warn")] = lib_warn


# --------------------------------------------------------------------------- decimal: why DSum's precision loop ends
# dec_digits(x): the number of significant decimal digits of the exact value x.  ASSUMED (library, tier A -- used only by the
# contract DSum.fill#terminates of contracts/P_acc2.py): decimal.Context.add signals Inexact exactly when the exact sum
# needs more significant digits than the precision,  dec_inexact(x, prec) <=> prec < dec_digits(x),  and the exact sum of two
# Decimals (finite decimal fractions) has finitely many digits: dec_digits is an integer-valued function.  (The upper limit
# decimal.MAX_PREC of the precision and the exponent range of the context are not modelled.)
DIG_NOTE = ("library contract (tier A): decimal -- Inexact is signalled iff the exact result has more significant digits than "
            "the precision of the context; the exact sum of two Decimals has finitely many digits (dec_digits); MAX_PREC and "
            "the exponent limits are not modelled")


def sp_dec_digits(ip, st, pos, kws):
    from .smt import to_real
    from .sym import Num
    reg = ip.reg
    reg.ufun("dec_inexact", ["Real", "Int"], "Bool")
    f = reg.ufun("dec_digits", ["Real"], "Int")
    ax = T("(forall ((x Real) (p Int)) (! (= (dec_inexact x p) (< p (dec_digits x))) :pattern ((dec_inexact x p))))", "Bool")
    if not any(a.s == ax.s for a in reg.axioms):
        reg.axioms.append(ax)
    ip.assumptions.add(DIG_NOTE)
    return Num(T("(%s %s)" % (f, to_real(ip.num(pos[0])).s), "Int"))


def register_dec_digits(ix):
    ix.spec_names["dec_digits"] = sp_dec_digits
