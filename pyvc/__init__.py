"""pyvc: verification-condition generator for a subset of Python (see /verif/DESIGN.md)."""
