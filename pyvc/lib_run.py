"""abstract run elements that CONSUME the iterator they are given (opt-in: Contract(ghost={"run_consumes": True})).

Default model of `el.run(it)` (calls.elem_call): the result delivers el_run(el, <what `it` can still deliver>) and `it` is
not touched -- adequate when the caller never looks at `it` again.  FillRequest._run_run hands an islice of its input flow
to the element and then goes on reading the flow: there, how much the element has taken matters.  Model (element interface,
an ASSUMPTION like DESIGN 2.4 item 4, listed in the evidence):

  * the element's run is a generator: calling it pulls nothing;
  * when its output has been consumed to the end it has pulled  el_run_reads(el, xs)  values of its input xs
    (an uninterpreted number, 0 <= reads <= len(xs): the element may stop reading early, e.g. lena.flow.Slice);
    before that, some number between what it had pulled earlier and that total;
  * el_reads_all(el): the element always reads its input to the end (reads == len(xs)).

itertools.chain(<list of concrete length>, <iterator>) is modelled only as an argument of such a run call."""
from .smt import T, TRUE, FALSE, I, NOT, AND, OR, EQ, CMP, ADD, SUB, ITE, IMP, lit_int
from .sym import Num, Bool, Opaque, Ref, Tup, View, IterCell, PyListCell

NOTE = ("element interface: a run element given an iterator pulls between 0 and all of its values (el_run_reads); "
        "it pulls them only while its own output is being consumed")


def U(msg):
    from .interp import Unsupported
    return Unsupported(msg)


def lib_chain(ip, st, pos, kws):
    """itertools.chain(head, it): head a list / tuple of concrete length, it a plain iterator"""
    if not kws and not any(isinstance(p, Ref) and isinstance(st.heap.get(p.cid), IterCell) for p in pos):
        from .lib_flow import lib_chain as chain_of_sequences      # chain(xs, ys, ...) over lists / tuples only (P_flow)
        return chain_of_sequences(ip, st, pos, kws)
    if kws or len(pos) != 2:
        raise U("chain form")
    head, tail = pos
    if isinstance(head, Tup):
        items = list(head.items)
    elif isinstance(head, Ref) and isinstance(st.heap.get(head.cid), PyListCell):
        items = list(st.heap[head.cid].items)
    else:
        raise U("chain: first argument must be a list display / tuple of concrete length")
    if not plain(st, tail):
        raise U("chain: second argument must be a plain iterator")
    cell = IterCell(None, I(0))
    cell.kind = "chain"
    cell.head_items, cell.tail = items, tail
    ip.assumptions.add("library contract (tier A): itertools.chain(a, b) delivers the values of a, then those of b")
    return [(st, ip.new_cell(st, cell))]


def plain(st, v):
    if not (isinstance(v, Ref) and isinstance(st.heap.get(v.cid), IterCell)):
        return False
    c = st.heap[v.cid]
    return getattr(c, "kind", None) is None and getattr(c, "live", None) is None and c.src is not None \
        and getattr(c, "consumes", None) is None


def consumable(st, v):
    if plain(st, v):
        return True
    return isinstance(v, Ref) and isinstance(st.heap.get(v.cid), IterCell) and getattr(st.heap[v.cid], "kind", None) == "chain"


def remaining_plain(st, ref):
    c = st.heap[ref.cid]
    src, cur = c.src, c.cursor
    end = src.len if c.limit is None else ITE(CMP("<", c.limit, src.len), c.limit, src.len)
    n = SUB(end, cur)
    n = ITE(CMP("<", n, I(0)), I(0), n)
    return View(n, lambda i: src.get(ADD(cur, i)))


def remaining(ip, st, ref):
    """view of what the iterator can still deliver"""
    c = st.heap[ref.cid]
    if getattr(c, "kind", None) == "chain":
        head, tv = c.head_items, remaining_plain(st, c.tail)
        L = len(head)

        def get(i):
            v = tv.get(SUB(i, I(L)))
            for k in range(L - 1, -1, -1):
                v = ip.ite_sv(EQ(i, I(k)), head[k], v)
            return v
        return View(ADD(I(L), tv.len), get)
    return remaining_plain(st, ref)


def start_of(st, ref):
    c = st.heap[ref.cid]
    if getattr(c, "kind", None) == "chain":
        return st.heap[c.tail.cid].cursor
    return c.cursor


def advance(ip, st, ref, start, k):
    """the iterator `ref` (whose underlying cursor was `start` at the run call) has delivered k values since"""
    from .stmts import sync_shared
    c = st.heap[ref.cid]
    if getattr(c, "kind", None) == "chain":
        L = I(len(c.head_items))
        k = ITE(CMP(">", k, L), SUB(k, L), I(0))
        ref = c.tail
        c = st.heap[ref.cid]
    nc = IterCell(c.src, ADD(start, k), c.name, c.limit)
    for a in ("live", "upstream", "shared"):
        if hasattr(c, a):
            setattr(nc, a, getattr(c, a))
    st.heap[ref.cid] = nc
    sync_shared(ip, st, nc)


def run_call(ip, st, el, flow):
    """el.run(flow) for a consumable iterator `flow`"""
    from .calls import materialise
    reg = ip.reg
    sort = reg.lst("V")
    ip.assumptions.add(NOTE)
    xs = materialise(ip, st, remaining(ip, st, flow), sort)
    f = reg.ufun("el_run", ["Obj", sort], sort)
    r = T("(%s %s %s)" % (f, el.t.s, xs.s), sort)
    ip.assume_wf(st, r)
    g = reg.ufun("el_run_reads", ["Obj", sort], "Int")
    reads = T("(%s %s %s)" % (g, el.t.s, xs.s), "Int")
    st.assume(CMP("<=", I(0), reads))
    st.assume(CMP("<=", reads, reg.l_len(xs)))
    p = reg.ufun("el_reads_all", ["Obj"], "Bool")
    st.assume(IMP(T("(%s %s)" % (p, el.t.s), "Bool"), EQ(reads, reg.l_len(xs))))
    res = ip.new_cell(st, IterCell(ip.lst_view(r), I(0)))
    st.heap[res.cid].consumes = {"arg": flow, "start": start_of(st, flow), "reads": reads, "input": xs, "done": I(0)}
    return res


def with_done(st, ref, done):
    """(cells are shared between forked states: the changed bookkeeping goes into a copy of the cell)"""
    c = st.heap[ref.cid]
    nc = IterCell(c.src, c.cursor, c.name, c.limit)
    for a in ("live", "upstream", "shared"):
        if hasattr(c, a):
            setattr(nc, a, getattr(c, a))
    nc.consumes = dict(c.consumes, done=done)
    st.heap[ref.cid] = nc


def consume_exact(ip, st, ref):
    """the output of the run call behind `ref` has been consumed to the end"""
    cons = st.heap[ref.cid].consumes
    advance(ip, st, cons["arg"], cons["start"], cons["reads"])
    with_done(st, ref, cons["reads"])


def consume_some(ip, st, ref, at_least=None):
    """one more value of the output was delivered (or: some iterations of a loop over it have run): the element has pulled
    an unknown number of values, no less than before and no more than it will in total"""
    cons = st.heap[ref.cid].consumes
    k = ip.reg.new("run$pulled", "Int")
    st.assume(CMP("<=", cons["done"] if at_least is None else at_least, k))
    st.assume(CMP("<=", k, cons["reads"]))
    advance(ip, st, cons["arg"], cons["start"], k)
    with_done(st, ref, k)


# --------------------------------------------------------------------------- spec forms
def _sf_run_input(ip, e, st):
    """run_input(it): the list of values the abstract run call whose output `it` iterates was given"""
    v = ip.ev1(e.args[0], st)
    if not (isinstance(v, Ref) and isinstance(st.heap.get(v.cid), IterCell) and getattr(st.heap[v.cid], "consumes", None)):
        raise U("run_input of something that is not the output of an abstract run call")
    return ip.lst_view(st.heap[v.cid].consumes["input"])


def _sf_loop_iter(ip, e, st):
    """loop_iter(k): the iterator that for-loop #k of the function goes over"""
    it = st.notes.get("loop_it_%s" % e.args[0].value)
    if it is None:
        raise U("loop_iter(%s): control has not reached that loop" % e.args[0].value)
    return it


def sp_run_reads(ip, st, pos, kws):
    from .speclib import lst_term, obj_term
    sort = ip.reg.lst("V")
    g = ip.reg.ufun("el_run_reads", ["Obj", sort], "Int")
    return Num(T("(%s %s %s)" % (g, obj_term(pos[0]).s, lst_term(ip, st, pos[1], sort).s), "Int"))


def sp_reads_all(ip, st, pos, kws):
    from .speclib import obj_term
    p = ip.reg.ufun("el_reads_all", ["Obj"], "Bool")
    return Bool(T("(%s %s)" % (p, obj_term(pos[0]).s), "Bool"))


def register(ix):
    ix.lib[("itertools", "chain")] = lib_chain
    ix.spec_names["run_reads"] = sp_run_reads
    ix.spec_names["reads_all"] = sp_reads_all
