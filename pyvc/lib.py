"""library contracts (tier A): special iterator kinds, `with open(...)`, itertools / collections"""
from .smt import T, TRUE, FALSE, I, NOT, AND, OR, EQ, CMP, ADD, ITE
from .sym import Num, Bool, Opaque, Ref, IterCell, NONE


def U(msg):
    from .interp import Unsupported
    return Unsupported(msg)


def with_enter(ip, s, st):
    raise U("with statement")


def copy_special(cell, **kw):
    nc = IterCell(cell.src, cell.cursor, cell.name, cell.limit)
    for a in ("kind", "nextval", "step", "stop", "has_stop"):
        if hasattr(cell, a):
            setattr(nc, a, getattr(cell, a))
    for k, v in kw.items():
        setattr(nc, k, v)
    return nc


def special_next(ip, st, it, cell, default):
    if cell.kind == "arith":
        # islice(itertools.count(0), start, stop, step): next member of the progression, or StopIteration at / after stop
        has = OR(NOT(cell.has_stop), CMP("<", cell.nextval, cell.stop))
        outs = []
        ex = st.fork(NOT(has), "E.")
        if default is not None:
            outs.append((ex, default))
        elif ip.may_catch(ex, "StopIteration"):
            ip.raise_(ex, "StopIteration")
        else:
            ip.emit("safety", "next-on-nonempty", ex, FALSE)
        ok = st.fork(has, "V.")
        ok.heap[it.cid] = copy_special(cell, nextval=ADD(cell.nextval, I(cell.step)))
        outs.append((ok, Num(cell.nextval)))
        ip.assumptions.add("library contract (tier A): islice(itertools.count(0), start, stop, step) delivers start, "
                           "start+step, ... below stop")
        return outs
    raise U("special iterator " + str(cell.kind))
