"""library contracts (tier A): special iterator kinds, `with open(...)`, itertools / collections"""
from .smt import T, TRUE, FALSE, I, NOT, AND, OR, EQ, CMP, ADD, ITE
from .sym import Num, Bool, Opaque, Ref, IterCell, NONE


def U(msg):
    from .interp import Unsupported
    return Unsupported(msg)


def with_enter(ip, s, st):
    raise U("with statement")


def copy_special(cell, **kw):
    nc = IterCell(cell.src, cell.cursor, cell.name, cell.limit)
    for a in ("kind", "nextval", "step", "stop", "has_stop"):
        if hasattr(cell, a):
            setattr(nc, a, getattr(cell, a))
    for k, v in kw.items():
        setattr(nc, k, v)
    return nc


def special_next(ip, st, it, cell, default):
    if cell.kind == "arith":
        # islice(itertools.count(0), start, stop, step): next member of the progression, or StopIteration at / after stop
        has = OR(NOT(cell.has_stop), CMP("<", cell.nextval, cell.stop))
        outs = []
        ex = st.fork(NOT(has), "E.")
        if default is not None:
            outs.append((ex, default))
        elif ip.may_catch(ex, "StopIteration"):
            ip.raise_(ex, "StopIteration")
        else:
            ip.emit("safety", "next-on-nonempty", ex, FALSE)
        ok = st.fork(has, "V.")
        ok.heap[it.cid] = copy_special(cell, nextval=ADD(cell.nextval, I(cell.step)))
        outs.append((ok, Num(cell.nextval)))
        ip.assumptions.add("library contract (tier A): islice(itertools.count(0), start, stop, step) delivers start, "
                           "start+step, ... below stop")
        return outs
    raise U("special iterator " + str(cell.kind))


# --------------------------------------------------------------------------- library functions (tier A)
def lib_deepcopy(ip, st, pos, kws):
    """copy.deepcopy: a structurally equal value that shares no mutable object with the original"""
    from .sym import ValCell, LstCell, PyListCell, Tup, Opaque
    v = pos[0]
    ip.assumptions.add("library contract (tier A): copy.deepcopy returns an equal value sharing no mutable object with its argument")
    return [(st, _deep(ip, st, v))]


def _deep(ip, st, v):
    from .sym import ValCell, LstCell, PyListCell, PyDictCell, Tup, Opaque
    if isinstance(v, Ref):
        cell = st.heap[v.cid]
        if isinstance(cell, ValCell):
            return ip.new_cell(st, ValCell(ip.deref(st, v)))
        if isinstance(cell, LstCell):
            return ip.new_cell(st, LstCell(ip.deref(st, v)))
        if isinstance(cell, PyListCell):
            return ip.new_cell(st, PyListCell([_deep(ip, st, x) for x in cell.items]))
        if isinstance(cell, PyDictCell):
            return ip.new_cell(st, PyDictCell({k: _deep(ip, st, x) for k, x in cell.items.items()}))
        raise U("deepcopy of " + type(cell).__name__)
    if isinstance(v, Opaque) and v.sort == "Val":
        return ip.new_cell(st, ValCell(v.t))
    if isinstance(v, Tup):
        return Tup([_deep(ip, st, x) for x in v.items])
    return v


LIB = {("copy", "deepcopy"): lib_deepcopy, "deepcopy": lib_deepcopy}


def register(ix):
    ix.lib.update(LIB)

