"""library contracts (tier A): special iterator kinds, `with open(...)`, itertools / collections"""
from .smt import T, TRUE, FALSE, I, NOT, AND, OR, EQ, CMP, ADD, ITE
from .sym import Num, Bool, Opaque, Ref, IterCell, NONE, View


def U(msg):
    from .interp import Unsupported
    return Unsupported(msg)


# --------------------------------------------------------------------------- ghost file system
# $fs : (Array Key FOpt),  FOpt = fnone | fsome(content: Lst_V).  A pickle stream is the list of the dumped values; a
# text file is a one-element list holding its text.  open / pickle / os.* are library contracts (tier A) over it.
FS_SORT = "(Array Key FOpt)"


def need_fs(reg):
    reg.need_val()
    lv = reg.lst("V")
    if "FOpt" not in reg.sorts:
        reg.sorts.add("FOpt")
        reg.sorts.add(FS_SORT)
        reg.sort_decls.append("(declare-datatypes ((FOpt 0)) (((fnone) (fsome (fcontent %s)))))" % lv)
    return lv


def fs_init(ip, st):
    lv = need_fs(ip.reg)
    fs = ip.reg.new("fs", FS_SORT)
    st.notes["$fs"] = fs
    q = "fp%d" % next(ip.bound)
    # well-formedness: every stored content is a list (length >= 0)
    st.assume(T("(forall ((%s Key)) (! (>= (len_%s (fcontent (select %s %s))) 0) :pattern ((select %s %s))))"
                % (q, lv, fs.s, q, fs.s, q), "Bool"))


def fs_get(ip, st):
    if "$fs" not in st.notes:
        raise U("file system access in a function whose contract has no ghost fs")
    return st.notes["$fs"]


def fs_entry_term(ip, st, path):
    return T("(select %s %s)" % (fs_get(ip, st).s, ip.key_term(path).s), "FOpt")


def fs_store(ip, st, path, fopt_s):
    st.notes["$fs"] = T("(store %s %s %s)" % (fs_get(ip, st).s, ip.key_term(path).s, fopt_s), FS_SORT)


def os_error(ip, st, cond, tag):
    """fork: the operation fails with OSError when cond holds"""
    if cond.s == "false":
        return
    bad = st.fork(cond, tag)
    if ip.may_catch(bad, "OSError"):
        ip.raise_(bad, "OSError")
    else:
        ip.emit("safety", "no-OSError", bad, FALSE)
    st.assume(NOT(cond))


def lib_open(ip, st, pos, kws):
    from .sym import ObjCell, Str
    lv = need_fs(ip.reg)
    path = pos[0]
    mode = pos[1].s if len(pos) > 1 and isinstance(pos[1], Str) else "r"
    ip.assumptions.add("library contract (tier A): open / pickle.dump / pickle.load / os.replace / os.remove / os.access act on "
                       "the ghost file system (a pickle file is the sequence of dumped values; write modes truncate)")
    if mode.startswith("w"):
        empty = ip.reg.new("emptyfile", lv)
        st.assume(EQ(ip.reg.l_len(empty), I(0)))
        fs_store(ip, st, path, "(fsome %s)" % empty.s)
    elif mode.startswith("r"):
        ent = fs_entry_term(ip, st, path)
        os_error(ip, st, EQ(ent, T("fnone", "FOpt")), "nofile.")
    else:
        raise U("open mode " + mode)
    f = ip.new_cell(st, ObjCell("$file", {"path": path if not isinstance(path, Str) else Opaque(ip.reg.key(path.s)),
                                          "pos": Num(I(0))}))
    return [(st, f)]


def _file(ip, st, f):
    from .sym import ObjCell
    if isinstance(f, Ref) and isinstance(st.heap[f.cid], ObjCell) and st.heap[f.cid].cls == "$file":
        return st.heap[f.cid]
    raise U("file object expected, got %r" % (f,))


def lib_pickle_dump(ip, st, pos, kws):
    from .builtins_ import elem_term
    lv = need_fs(ip.reg)
    fc = _file(ip, st, pos[1])
    path = fc.fields["path"]
    cur = T("(fcontent %s)" % fs_entry_term(ip, st, path).s, lv)
    v = elem_term(ip, st, ip.to_yield_value(st, pos[0]), "V")
    fs_store(ip, st, path, "(fsome %s)" % ip.reg.l_append(cur, v).s)
    return [(st, NONE)]


def lib_pickle_load(ip, st, pos, kws):
    from .sym import ObjCell
    lv = need_fs(ip.reg)
    f = pos[0]
    fc = _file(ip, st, f)
    path, p = fc.fields["path"], fc.fields["pos"].t
    cur = T("(fcontent %s)" % fs_entry_term(ip, st, path).s, lv)
    has = CMP("<", p, ip.reg.l_len(cur))
    outs = []
    ex = st.fork(NOT(has), "eof.")
    if ip.may_catch(ex, "EOFError"):
        ip.raise_(ex, "EOFError")
    else:
        ip.emit("safety", "load-before-eof", ex, FALSE)
    ok = st.fork(has, "ld.")
    ok.heap[f.cid] = ObjCell("$file", {"path": path, "pos": Num(ADD(p, I(1)))})
    outs.append((ok, Opaque(ip.reg.l_get(cur, p))))
    return outs


def lib_os_replace(ip, st, pos, kws):
    need_fs(ip.reg)
    src, dst = pos
    ent = fs_entry_term(ip, st, src)
    os_error(ip, st, EQ(ent, T("fnone", "FOpt")), "nosrc.")
    fs_store(ip, st, dst, ent.s)
    fs_store(ip, st, src, "fnone")
    return [(st, NONE)]


def lib_os_remove(ip, st, pos, kws):
    need_fs(ip.reg)
    ent = fs_entry_term(ip, st, pos[0])
    os_error(ip, st, EQ(ent, T("fnone", "FOpt")), "nofile.")
    fs_store(ip, st, pos[0], "fnone")
    return [(st, NONE)]


def lib_os_access(ip, st, pos, kws):
    need_fs(ip.reg)
    ent = fs_entry_term(ip, st, pos[0])
    return [(st, Bool(NOT(EQ(ent, T("fnone", "FOpt")))))]


def with_enter(ip, s, st):
    """with <expr> as <name>: body -- for file objects of the ghost file system (closing has no ghost effect)"""
    from .stmts import exec_block, assign_to
    if len(s.items) != 1:
        raise U("with several items")
    item = s.items[0]
    outs = []
    for s2, v in ip.ev(item.context_expr, st):
        _file(ip, s2, v)
        states = [s2]
        if item.optional_vars is not None:
            states = assign_to(ip, item.optional_vars, v, s2)
        for s3 in states:
            outs += exec_block(ip, s.body, s3)
    return outs


def copy_special(cell, **kw):
    nc = IterCell(cell.src, cell.cursor, cell.name, cell.limit)
    for a in ("kind", "nextval", "step", "stop", "has_stop"):
        if hasattr(cell, a):
            setattr(nc, a, getattr(cell, a))
    for k, v in kw.items():
        setattr(nc, k, v)
    return nc


def special_next(ip, st, it, cell, default):
    if cell.kind == "arith":
        # islice(itertools.count(0), start, stop, step): next member of the progression, or StopIteration at / after stop
        has = OR(NOT(cell.has_stop), CMP("<", cell.nextval, cell.stop))
        outs = []
        if has.s != "true":          # (itertools.count without islice never ends: no exhausted outcome)
            ex = st.fork(NOT(has), "E.")
            if default is not None:
                outs.append((ex, default))
            elif ip.may_catch(ex, "StopIteration"):
                ip.raise_(ex, "StopIteration")
            else:
                ip.emit("safety", "next-on-nonempty", ex, FALSE)
        ok = st.fork(has, "V.")
        # (step: a python int for the `Arith[...]` field type, a term for itertools.count(start, step) -- lib_flow)
        ok.heap[it.cid] = copy_special(cell, nextval=ADD(cell.nextval, cell.step if hasattr(cell.step, "s") else I(cell.step)))
        outs.append((ok, Num(cell.nextval)))
        ip.assumptions.add("library contract (tier A): islice(itertools.count(0), start, stop, step) delivers start, "
                           "start+step, ... below stop")
        return outs
    if cell.kind == "islice":
        from .lib_flow import islice_next          # itertools.islice(it, start, stop, step)
        return islice_next(ip, st, it, cell, default)
    raise U("special iterator " + str(cell.kind))


# --------------------------------------------------------------------------- library functions (tier A)
def lib_deepcopy(ip, st, pos, kws):
    """copy.deepcopy: a structurally equal value that shares no mutable object with the original"""
    from .sym import ValCell, LstCell, PyListCell, Tup, Opaque
    v = pos[0]
    ip.assumptions.add("library contract (tier A): copy.deepcopy returns an equal value sharing no mutable object with its argument")
    n0 = getattr(ip, "n_cells", 0)
    r = _deep(ip, st, v, deep=True)
    if isinstance(r, Ref):
        st.notes["deep_copies"] = set(st.notes.get("deep_copies", ())) | {r.cid}
    elif isinstance(r, Tup):
        # deep copy of a tuple (a (data, context) pair): the mutable objects inside the new tuple are the copies -- every
        # object created by this call shares nothing with what existed before
        new = {"c%d" % k for k in range(n0 + 1, getattr(ip, "n_cells", 0) + 1)}
        st.notes["deep_copies"] = set(st.notes.get("deep_copies", ())) | {c for c in new if c in st.heap}
    return [(st, r)]


def _deep(ip, st, v, deep=False):
    from .sym import ValCell, LstCell, PyListCell, PyDictCell, Tup, Opaque
    if isinstance(v, Ref):
        cell = st.heap[v.cid]
        if isinstance(cell, ValCell):
            return ip.new_cell(st, ValCell(ip.deref(st, v)))
        if isinstance(cell, LstCell):
            return ip.new_cell(st, LstCell(ip.deref(st, v)))
        if isinstance(cell, PyListCell):
            return ip.new_cell(st, PyListCell([_deep(ip, st, x, deep) for x in cell.items]))
        if isinstance(cell, PyDictCell):
            return ip.new_cell(st, PyDictCell({k: _deep(ip, st, x, deep) for k, x in cell.items.items()}))
        raise U("deepcopy of " + type(cell).__name__)
    if isinstance(v, Opaque) and v.sort == "Val":
        return ip.new_cell(st, ValCell(v.t))
    if isinstance(v, Tup):
        return Tup([_deep(ip, st, x, deep) for x in v.items])
    if isinstance(v, Opaque) and v.sort == "V" and ip.c is not None and ip.c.ghost.get("v_copy_distinct"):
        # Contract(ghost={"v_copy_distinct": True}): copy.deepcopy of an abstract flow value is not known to be the same
        # object (`is` and `==` of V terms coincide in the encoding, so nothing is known about the copy but that it is a
        # function of the original); without the flag the copy is identified with the original (value semantics)
        f = ip.reg.ufun("deepcopy_V" if deep else "copy_V", ["V"], "V")
        return Opaque(T("(%s %s)" % (f, v.t.s), "V"))
    if deep and isinstance(v, Opaque) and v.sort == "Obj":
        # copy.deepcopy of an abstract element: a NEW object (ghost allocation clock, see histlib)
        from .histlib import alloc_copy
        return alloc_copy(ip, st, v)
    return v


def _shallow(ip, st, v):
    """copy.copy: a NEW top-level object holding the very same items / field values as the original (nothing below the top
    level is copied)"""
    from .sym import ValCell, LstCell, PyListCell, PyDictCell, ObjCell
    if isinstance(v, Ref) and not v.path:
        cell = st.heap[v.cid]
        if isinstance(cell, ValCell):
            from .dicts import mark_shallow
            r = ip.new_cell(st, ValCell(ip.deref(st, v)))
            mark_shallow(st, r, v)
            return r
        if isinstance(cell, LstCell):
            el = ip.reg.lst_elem.get(ip.deref(st, v).sort)
            if el is not None and ip.reg.is_lst(el):
                raise U("shallow copy of a list of lists (the inner lists stay shared)")
            return ip.new_cell(st, LstCell(ip.deref(st, v)))
        if isinstance(cell, PyListCell):
            return ip.new_cell(st, PyListCell(list(cell.items)))
        if isinstance(cell, PyDictCell):
            return ip.new_cell(st, PyDictCell(dict(cell.items)))
        if isinstance(cell, ObjCell):
            return ip.new_cell(st, ObjCell(cell.cls, dict(cell.fields)))
        raise U("copy.copy of " + type(cell).__name__)
    return _deep(ip, st, v)


def lib_islice(ip, st, pos, kws):
    """itertools.islice(it, n): at most n further values of the underlying iterator (which advances with it)"""
    from .sym import NoneV
    it = pos[0]
    if not (isinstance(it, Ref) and isinstance(st.heap[it.cid], IterCell)) or len(pos) != 2:
        raise U("islice form")
    cell = st.heap[it.cid]
    if getattr(cell, "kind", None) is not None or getattr(cell, "live", None) is not None:
        raise U("islice over a special iterator")
    limit = None if isinstance(pos[1], NoneV) else ADD(cell.cursor, ip.num(pos[1]))
    nc = IterCell(cell.src, cell.cursor, None, limit)
    nc.shared = it
    ip.assumptions.add("library contract (tier A): itertools.islice(it, n) delivers at most n further values of it")
    return [(st, ip.new_cell(st, nc))]


def lib_path_exists(ip, st, pos, kws):
    if pos and isinstance(pos[0], Opaque) and pos[0].sort == "V":
        pos = [Opaque(path_key(ip, st, pos[0], "os.path.exists"))] + list(pos[1:])      # a flow value used as a file name
    return lib_os_access(ip, st, pos, kws)


def lib_noop_none(ip, st, pos, kws):
    return [(st, NONE)]


def lib_dirname(ip, st, pos, kws):
    f = ip.reg.ufun("path_dirname", ["Key"], "Key")
    k = path_key(ip, st, pos[0], "os.path.dirname") if isinstance(pos[0], Opaque) and pos[0].sort == "V" else ip.key_term(pos[0])
    return [(st, Opaque(T("(%s %s)" % (f, k.s), "Key")))]


# ---- strings as paths.  os.path is posixpath (DESIGN: the checks run on Linux): os.sep == "/" and isabs(p) is
# p.startswith("/"); join and dirname are functions of their arguments (uninterpreted)
def str_operand(ip, st, v, what):
    """a value used as a string: Str / symbolic string as they are; a context item must BE a string (obligation at the use;
    anything else -- TypeError or the object's own operator -- is out of the model), it is then the string it embeds"""
    from .sym import Str, ValCell
    if isinstance(v, Str) or (isinstance(v, Opaque) and v.sort == "Key"):
        return v
    if (isinstance(v, Opaque) and v.sort == "Val") or (isinstance(v, Ref) and isinstance(st.heap.get(v.cid), ValCell)):
        from .dicts import dterm, val_is_string, val_as_key_term
        t = dterm(ip, st, v)
        isstr = val_is_string(ip, t)
        if not ip.spec_mode and not ip.known(st, isstr):
            ip.emit("safety", "operand of %s is a string" % what, st, isstr)
            st.assume(isstr)
        return Opaque(val_as_key_term(ip, t))
    raise U("string expected for %s, got %r" % (what, v))


def key_startswith(ip, k, prefix):
    f = ip.reg.ufun("kstartswith", ["Key", "Key"], "Bool")
    ax = "(not (%s %s %s))" % (f, ip.reg.key("").s, ip.reg.key("/").s)          # "".startswith("/") is False
    if not any(a.s == ax for a in ip.reg.axioms):
        ip.reg.axioms.append(T(ax, "Bool"))
    return T("(%s %s %s)" % (f, k.s, prefix.s), "Bool")


def path_key(ip, st, v, what):
    """a value used as a file name: strings as they are (context items: obligation, see str_operand); a flow value of the
    abstract sort V is the string v_path(v) (the TypeError of a data part that is no string is not modelled)"""
    if isinstance(v, Opaque) and v.sort == "V":
        ip.reg.need_val()
        f = ip.reg.ufun("v_path", ["V"], "Key")
        ip.assumptions.add("flow values used as file names are strings: v_path(v)")
        return T("(%s %s)" % (f, v.t.s), "Key")
    return ip.key_term(str_operand(ip, st, v, what))


def mtime_term(ip, fs, k):
    lv = need_fs(ip.reg)
    f = ip.reg.ufun("fs_mtime", [FS_SORT, "Key"], "Real")
    return T("(%s %s %s)" % (f, fs.s, k.s), "Real")


def lib_getmtime(ip, st, pos, kws):
    """os.path.getmtime(p): OSError when p does not exist, else a number that depends on the file system and p"""
    need_fs(ip.reg)
    k = path_key(ip, st, pos[0], "os.path.getmtime")
    ent = T("(select %s %s)" % (fs_get(ip, st).s, k.s), "FOpt")
    os_error(ip, st, EQ(ent, T("fnone", "FOpt")), "nofile.")
    return [(st, Num(mtime_term(ip, fs_get(ip, st), k)))]


def kcat_facts(ip, st, r, a, b, ta, tb):
    """facts of r = a + b (python strings) that contracts over file names need (Contract.ghost = {"paths": True}):
    "" is neutral; r is empty only if both parts are; a non-empty first part decides whether r starts with "/" """
    from .sym import Str
    e, sl = ip.reg.key(""), ip.reg.key("/")
    sw = lambda k: key_startswith(ip, k, sl)
    st.assume(IMP_(EQ(ta, e), EQ(r, tb)))
    st.assume(IMP_(EQ(tb, e), EQ(r, ta)))
    st.assume(IMP_(EQ(r, e), AND(EQ(ta, e), EQ(tb, e))))
    st.assume(IMP_(NOT(EQ(ta, e)), EQ(sw(r), sw(ta))))
    for x, t in ((a, ta), (b, tb)):
        if isinstance(x, Str):
            st.assume(sw(t) if x.s.startswith("/") else NOT(sw(t)))
    m = _KCAT2.match(tb.s)
    if m:
        # a + (x + y) == (a + x) + y: the instance of associativity for the term just built
        x, y = _split2(tb.s[len("(kcat "):-1])
        if x is not None:
            st.assume(EQ(r, T("(kcat (kcat %s %s) %s)" % (ta.s, x, y), "Key")))


import re as _re
_KCAT2 = _re.compile(r"^\(kcat .*\)$")


def _split2(text):
    """the two arguments of an application, given the text between `(f ` and `)` (|quoted symbols| and nesting respected)"""
    depth, quoted = 0, False
    for i, ch in enumerate(text):
        if ch == "|":
            quoted = not quoted
        elif quoted:
            continue
        elif ch == "(":
            depth += 1
        elif ch == ")":
            depth -= 1
        elif ch == " " and depth == 0:
            return text[:i], text[i + 1:]
    return None, None


def IMP_(a, b):
    return OR(NOT(a), b)


def lib_isabs(ip, st, pos, kws):
    ip.assumptions.add("library contract (tier A): os.path is posixpath: os.sep == '/', isabs(p) == p.startswith('/'); "
                       "os.path.join / dirname are functions of their arguments")
    k = ip.key_term(str_operand(ip, st, pos[0], "os.path.isabs"))
    return [(st, Bool(key_startswith(ip, k, ip.reg.key("/"))))]


def path_join_term(ip, parts):
    f = ip.reg.ufun("path_join", ["Key", "Key"], "Key")
    r = parts[0]
    for p in parts[1:]:
        r = T("(%s %s %s)" % (f, r.s, p.s), "Key")
    return r


def lib_path_join(ip, st, pos, kws):
    """os.path.join(a, b, c) == join(join(a, b), c)"""
    if not pos:
        raise U("os.path.join()")
    ip.assumptions.add("library contract (tier A): os.path is posixpath: os.sep == '/', isabs(p) == p.startswith('/'); "
                       "os.path.join / dirname are functions of their arguments")
    parts = [ip.key_term(str_operand(ip, st, p, "os.path.join")) for p in pos]
    return [(st, Opaque(path_join_term(ip, parts)))]


def symstr_method(ip, st, recv, name, pos, kws):
    """methods of a symbolic string that are plain functions of it"""
    from .sym import Str
    if name == "startswith" and len(pos) == 1 and (isinstance(pos[0], Str) or (isinstance(pos[0], Opaque) and pos[0].sort == "Key")):
        return [(st, Bool(key_startswith(ip, recv.t, ip.key_term(pos[0]))))]
    if name == "replace" and len(pos) == 2 and all(isinstance(p, Str) or (isinstance(p, Opaque) and p.sort == "Key") for p in pos):
        f = ip.reg.ufun("kreplace", ["Key", "Key", "Key"], "Key")
        return [(st, Opaque(T("(%s %s %s %s)" % (f, recv.t.s, ip.key_term(pos[0]).s, ip.key_term(pos[1]).s), "Key")))]
    return None


def symstr_tail(ip, k, n):
    """s[n:] of a symbolic string, n a non-negative literal"""
    f = ip.reg.ufun("ktail", ["Key", "Int"], "Key")
    return Opaque(T("(%s %s %d)" % (f, k.s, n), "Key"))


def file_method(ip, st, f, name, pos):
    """methods of a ghost file object: a text file is a one-element content list holding its text"""
    lv = need_fs(ip.reg)
    fc = _file(ip, st, f)
    path = fc.fields["path"]
    if name == "write":
        from .builtins_ import elem_term
        v = elem_term(ip, st, ip.to_yield_value(st, pos[0]), "V")
        one = ip.reg.new("text", lv)
        st.assume(EQ(ip.reg.l_len(one), I(1)))
        st.assume(EQ(ip.reg.l_get(one, I(0)), v))
        fs_store(ip, st, path, "(fsome %s)" % one.s)
        return [(st, NONE)]
    if name == "read":
        cur = T("(fcontent %s)" % fs_entry_term(ip, st, path).s, lv)
        return [(st, Opaque(ip.reg.l_get(cur, I(0))))]
    raise U("file method " + name)


LIB = {("os.path", "exists"): lib_path_exists, ("os.path", "dirname"): lib_dirname, ("os", "makedirs"): lib_noop_none,
       ("os.path", "isabs"): lib_isabs, ("os.path", "join"): lib_path_join, ("os.path", "getmtime"): lib_getmtime,
       ("os", "error"): __import__("pyvc.sym", fromlist=["Fun"]).Fun("exc", name="OSError"),      # os.error is OSError
       ("os", "sep"): __import__("pyvc.sym", fromlist=["Str"]).Str("/"),          # a constant, not a function (posix)
       ("itertools", "islice"): lib_islice, ("copy", "deepcopy"): lib_deepcopy, "deepcopy": lib_deepcopy,
       ("copy", "copy"): lambda ip, st, pos, kws: [(st, _shallow(ip, st, pos[0]))],     # a new top-level object, NOT a deep copy
       ("pickle", "dump"): lib_pickle_dump, "pickle.dump": lib_pickle_dump,
       ("pickle", "load"): lib_pickle_load, "pickle.load": lib_pickle_load,
       ("os", "replace"): lib_os_replace, ("os", "rename"): lib_os_replace, ("os", "remove"): lib_os_remove,
       ("os", "access"): lib_os_access}


# ---- special forms of the contract language over the ghost file system
def _sf_fs_exists(ip, e, st):
    return Bool(NOT(EQ(fs_entry_term(ip, st, ip.ev1(e.args[0], st)), T("fnone", "FOpt"))))


def _sf_fs_content(ip, e, st):
    lv = need_fs(ip.reg)
    return ip.lst_view(T("(fcontent %s)" % fs_entry_term(ip, st, ip.ev1(e.args[0], st)).s, lv))


def _sf_fs_entry(ip, e, st):
    return Opaque(fs_entry_term(ip, st, ip.ev1(e.args[0], st)))


def _sf_fs_all(ip, e, st):
    """fs(): the whole ghost file system (for `fs() == old(fs())`: nothing on disk changed)"""
    return Opaque(fs_get(ip, st))


def _fs_arg(ip, st, v):
    if isinstance(v, Opaque) and v.t.sort == FS_SORT:
        return v.t
    raise U("file-system snapshot expected")


def _sf_fs_exists_in(ip, e, st):
    fs = _fs_arg(ip, st, ip.ev1(e.args[0], st))
    return Bool(NOT(EQ(T("(select %s %s)" % (fs.s, ip.key_term(ip.ev1(e.args[1], st)).s), "FOpt"), T("fnone", "FOpt"))))


def _sf_fs_content_in(ip, e, st):
    lv = need_fs(ip.reg)
    fs = _fs_arg(ip, st, ip.ev1(e.args[0], st))
    return ip.lst_view(T("(fcontent (select %s %s))" % (fs.s, ip.key_term(ip.ev1(e.args[1], st)).s), lv))


def _sf_fs_entry_in(ip, e, st):
    fs = _fs_arg(ip, st, ip.ev1(e.args[0], st))
    return Opaque(T("(select %s %s)" % (fs.s, ip.key_term(ip.ev1(e.args[1], st)).s), "FOpt"))


# ---- abstract flow values (sort V) as (data, context) pairs
def value_context(ip, st, v):
    """the context OBJECT of an abstract flow value: one dictionary cell per value (kept in the state), so that in-place
    updates of a value's context are seen by everything that holds the value"""
    from .sym import ValCell
    tab = dict(st.notes.get("vctx", {}))
    key = v.t.s
    if key not in tab:
        ip.reg.need_val()
        f = ip.reg.ufun("vctx", ["V"], "Val")
        t = T("(%s %s)" % (f, v.t.s), "Val")
        st.assume(T("(isD %s)" % t.s, "Bool"))
        tab[key] = ip.new_cell(st, ValCell(t))
        st.notes["vctx"] = tab
        # well-formedness of contexts the contract relies on (stated in the contract, listed as an assumption)
        wf = (ip.c.ghost.get("ctx_wf") if ip.c is not None else None) or []
        for cl in wf:
            from .calls import eval_spec
            st.assume(eval_spec(ip, st, {"c": tab[key]}, cl))
            ip.assumptions.add("well-formed contexts: " + cl)
    return tab[key]


def lib_get_data_context_v(ip, st, pos, kws):
    """lena.flow.get_data_context on an abstract flow value: (data, context) with the value's own context object, or
    (value, {}) for bare data"""
    from .sym import ValCell, Tup
    v = pos[0]
    ip.reg.need_val()
    hc = ip.reg.ufun("v_has_context", ["V"], "Bool")
    cond = T("(%s %s)" % (hc, v.t.s), "Bool")
    ip.assumptions.add("flow values of the abstract sort V: v_has_context(v) tells a (data, context) pair from bare data; "
                       "get_data_context / get_data / get_context of lena.flow.functions on V follow their docstrings")
    a = st.fork(cond, "dc.")
    fd = ip.reg.ufun("vdata", ["V"], "V")
    pair = Tup([Opaque(T("(%s %s)" % (fd, v.t.s), "V")), value_context(ip, a, v)])
    b = st.fork(NOT(cond), "bare.")
    bare = Tup([v, ip.new_cell(b, ValCell(T("(D emptymap)", "Val")))])
    return [(a, pair), (b, bare)]


def get_part_value_level(ip, st, v, which):
    """lena.flow.get_context / get_data of an abstract flow value while an ITEM of a comprehension over a sequence of symbolic
    length is evaluated (no forking, no objects per item there): the part as a VALUE -- ite(v_has_context(v), vctx(v), {}) /
    ite(v_has_context(v), vdata(v), v).  A context handed out like this is an immutable snapshot (a later store into it is
    out-of-subset); sound only while no value's context object has been changed in place (checked)."""
    reg = ip.reg
    reg.need_val()
    for key, ref in st.notes.get("vctx", {}).items():
        if ip.deref(st, ref).s != "(vctx %s)" % key:
            raise U("get_context / get_data inside a comprehension after the context of a flow value was changed in place")
    hc = reg.ufun("v_has_context", ["V"], "Bool")
    cond = T("(%s %s)" % (hc, v.t.s), "Bool")
    ip.assumptions.add("flow values of the abstract sort V: v_has_context(v) tells a (data, context) pair from bare data; "
                       "get_data_context / get_data / get_context of lena.flow.functions on V follow their docstrings")
    if which == "get_data":
        fd = reg.ufun("vdata", ["V"], "V")
        return [(st, Opaque(ITE(cond, T("(%s %s)" % (fd, v.t.s), "V"), v.t)))]
    f = reg.ufun("vctx", ["V"], "Val")
    ax = T("(forall ((v V)) (! (isD (vctx v)) :pattern ((vctx v))))", "Bool")      # (what value_context assumes per value)
    if not any(a.s == ax.s for a in reg.axioms):
        reg.axioms.append(ax)
    return [(st, Opaque(ITE(cond, T("(%s %s)" % (f, v.t.s), "Val"), T("(D emptymap)", "Val"))))]


def _sf_vdata(ip, e, st):
    v = ip.ev1(e.args[0], st)
    fd = ip.reg.ufun("vdata", ["V"], "V")
    return Opaque(T("(%s %s)" % (fd, v.t.s), "V"))


def _sf_vctx(ip, e, st):
    """vctx(v): the context the abstract flow value v arrived with (a Val term; {} for bare data)"""
    v = ip.ev1(e.args[0], st)
    ip.reg.need_val()
    f = ip.reg.ufun("vctx", ["V"], "Val")
    hc = ip.reg.ufun("v_has_context", ["V"], "Bool")
    return Opaque(ITE(T("(%s %s)" % (hc, v.t.s), "Bool"), T("(%s %s)" % (f, v.t.s), "Val"), T("(D emptymap)", "Val")))


def _sf_snapshot(ip, e, st):
    """snapshot(d): the VALUE a dictionary has now (a later in-place change of the object does not affect it)"""
    from .dicts import dterm
    return Opaque(dterm(ip, st, ip.ev1(e.args[0], st)))


def _sf_has_context(ip, e, st):
    v = ip.ev1(e.args[0], st)
    hc = ip.reg.ufun("v_has_context", ["V"], "Bool")
    return Bool(T("(%s %s)" % (hc, v.t.s), "Bool"))


FS_FORMS = {"fs_exists_in": _sf_fs_exists_in, "fs_content_in": _sf_fs_content_in, "fs_entry_in": _sf_fs_entry_in,
            "vdata": _sf_vdata, "vctx": _sf_vctx, "snapshot": _sf_snapshot, "v_has_context": _sf_has_context,"fs_exists": _sf_fs_exists, "fs_content": _sf_fs_content, "fs_entry": _sf_fs_entry, "fs": _sf_fs_all}


def register(ix):
    ix.lib.update(LIB)
    from . import lib_acc          # decimal, itertools.zip_longest (accumulators)
    lib_acc.register(ix)
    from . import lib_flow         # itertools.count / general islice, collections.deque (flow elements)
    lib_flow.register(ix)
    from . import lib_run          # itertools.chain, abstract run elements that consume their input (opt-in)
    lib_run.register(ix)

