"""library contracts (tier A) -- filled in later"""
def U(msg):
    from .interp import Unsupported
    return Unsupported(msg)
def with_enter(ip, s, st): raise U("with statement")
def special_next(ip, st, it, cell, default): raise U("special iterator")
