"""Python builtins and container methods (tier A: semantics of CPython assumed as written here)."""
import ast

from .smt import (T, TRUE, FALSE, I, R, NOT, AND, OR, IMP, ITE, EQ, ADD, SUB, MUL, NEG, CMP, to_real, lit_int)
from .sym import (SV, Num, Bool, NoneV, NONE, Str, Opaque, Tup, Ref, View, Fun, ExcV, Module, Sentinel,
                  LstCell, PyListCell, ValCell, PyDictCell, ObjCell, IterCell, State)


def U(msg):
    from .interp import Unsupported
    return Unsupported(msg)


def quant(ip, kind, view, body_fn):
    """forall/exists k in [0, len): body(view[k])"""
    if view.items is not None:
        parts = [body_fn(x) for x in view.items]
        return AND(*parts) if kind == "forall" else OR(*parts)
    k = T("q%d" % next(ip.bound), "Int")
    n = getattr(view, "guard_len", None) or view.len      # unclamped length: same guard for k >= 0
    ip.bound_stack.append(k)
    ip.bound_guards = getattr(ip, "bound_guards", []) + [(k, n)]     # (for obligations emitted while the body is evaluated: vmembers.emit_closed)
    try:
        body = body_fn(view.get(k))
    finally:
        ip.bound_stack.pop()
        ip.bound_guards = ip.bound_guards[:-1]
    if kind == "forall":
        return T("(forall ((%s Int)) (=> (and (<= 0 %s) (< %s %s)) %s))" % (k.s, k.s, k.s, n.s, body.s), "Bool")
    return T("(exists ((%s Int)) (and (<= 0 %s) (< %s %s) %s))" % (k.s, k.s, k.s, n.s, body.s), "Bool")


def type_test(ip, st, v, tyname):
    """isinstance(v, <builtin type name>) as a Bool term"""
    if type(v).__name__ == "Padded":
        raise U("isinstance of an item of a zip_longest row")
    if tyname == "dict":
        if isinstance(v, Ref):
            cell = st.heap[v.cid]
            if isinstance(cell, ValCell):
                return T("(isD %s)" % ip.deref(st, v).s, "Bool")
            return TRUE if isinstance(cell, PyDictCell) else FALSE
        if isinstance(v, Opaque) and v.sort == "Val":
            return T("(isD %s)" % v.t.s, "Bool")
        if isinstance(v, Opaque) and v.sort in ("V", "Obj"):
            f = ip.reg.ufun("is_dict_" + v.sort, [v.sort], "Bool")
            return T("(%s %s)" % (f, v.t.s), "Bool")
        return FALSE
    if tyname in ("list", "tuple"):
        if isinstance(v, Tup):
            return TRUE if tyname == "tuple" else FALSE
        if isinstance(v, View):
            return TRUE if getattr(v, "pykind", "list") == tyname else FALSE
        if tyname == "list" and ip.c is not None and ip.c.ghost.get("dict_objects") and (
                (isinstance(v, Ref) and isinstance(st.heap[v.cid], ValCell)) or (isinstance(v, Opaque) and v.sort == "Val")):
            # a context value may be a python list (lists of strings are modelled: pyvc/dictobj.py); an abstract predicate
            # that every modelled list satisfies
            from . import dictobj
            from .dicts import dterm
            return dictobj.is_list_val(ip, st, dterm(ip, st, v))
        if isinstance(v, Ref):
            cell = st.heap[v.cid]
            if isinstance(cell, (LstCell, PyListCell)):
                return TRUE if tyname == "list" else FALSE
            if type(cell).__name__ == "IterLstCell":
                from .lib_sib import iterlst_is_list      # the list of generators is a list; a generator in it is not
                return TRUE if tyname == "list" and iterlst_is_list(cell, v) else FALSE
            return FALSE
        if isinstance(v, Opaque) and v.sort in ("V", "Obj", "Val"):
            if v.sort == "Val":
                return FALSE      # Val models scalars and dicts only
            if v.sort == "V" and tyname == "list" and ip.c is not None and ip.c.ghost.get("v_not_list"):
                # Contract(ghost={"v_not_list": True}): typing assumption of the unit, listed among its assumptions
                ip.assumptions.add("typing assumption of %s: abstract flow values (sort V) are not python lists" % ip.c.name)
                return FALSE
            f = ip.reg.ufun("is_%s_%s" % (tyname, v.sort), [v.sort], "Bool")
            return T("(%s %s)" % (f, v.t.s), "Bool")
        return FALSE
    if tyname == "str":
        if isinstance(v, Str):
            return TRUE
        if isinstance(v, Opaque) and v.sort == "Key":
            return TRUE
        if isinstance(v, Opaque) and v.sort == "Val":
            if ip.known(st, T("(isD %s)" % v.t.s, "Bool")):
                return FALSE
            f = ip.reg.ufun("is_str_Val", ["Val"], "Bool")
            return AND(NOT(T("(isD %s)" % v.t.s, "Bool")), T("(%s %s)" % (f, v.t.s), "Bool"))      # a dict is not a str
        if isinstance(v, Ref) and isinstance(st.heap[v.cid], ValCell):
            t = ip.deref(st, v)
            if ip.known(st, T("(isD %s)" % t.s, "Bool")):
                return FALSE
            f = ip.reg.ufun("is_str_Val", ["Val"], "Bool")
            return AND(NOT(T("(isD %s)" % t.s, "Bool")), T("(%s %s)" % (f, t.s), "Bool"))
        if isinstance(v, Opaque) and v.sort in ("V", "Obj"):
            f = ip.reg.ufun("is_str_" + v.sort, [v.sort], "Bool")
            return T("(%s %s)" % (f, v.t.s), "Bool")
        return FALSE
    if tyname == "int":
        if isinstance(v, Num):
            return TRUE if v.sort == "Int" else FALSE
        if isinstance(v, Bool):
            return TRUE
        return FALSE
    if tyname == "float":
        if isinstance(v, Num):
            return TRUE if v.sort == "Real" else FALSE
        return FALSE
    if tyname == "bool":
        return TRUE if isinstance(v, Bool) else FALSE
    raise U("isinstance(..., %s)" % tyname)


def ext_instance(ip, t, mod, name):
    import re
    f = ip.reg.ufun("isinst_ext_%s_Val" % re.sub(r"[^A-Za-z0-9_]", "_", "%s.%s" % (mod, name)), ["Val"], "Bool")
    return AND(NOT(T("(isD %s)" % t.s, "Bool")), T("(%s %s)" % (f, t.s), "Bool"))


def isinstance_(ip, st, v, cls):
    if type(v).__name__ == "Padded":
        raise U("isinstance of an item of a zip_longest row")
    if isinstance(v, Opaque) and v.sort == "Unk":
        raise U("isinstance of a value nothing is known about (a havocked field no class spec declares)")
    if isinstance(cls, Tup):
        parts = []
        for c in cls.items:
            r = isinstance_(ip, st, v, c)
            if r.s == "true":
                return TRUE       # (a member that certainly matches decides the test; the others need not be modelled)
            parts.append(r)
        return OR(*parts)
    if isinstance(cls, Fun) and cls.kind == "builtin":
        return type_test(ip, st, v, cls.name)
    if isinstance(cls, Fun) and cls.kind == "lib" and getattr(cls.impl, "ext_class", None):
        # a third-party CLASS whose constructor has a library model (jinja2.Template, pyvc/lib_fmt.py): as a class it is
        # the external class of that name
        cls = Fun("external", mod=cls.impl.ext_class[0], name=cls.impl.ext_class[1])
    if isinstance(cls, Fun) and cls.kind == "external":
        # a class of a third-party library (jinja2.Template): for a context value an abstract predicate -- a dictionary
        # is no instance of it, a scalar (an arbitrary python object) may be
        t = None
        if isinstance(v, Ref) and isinstance(st.heap[v.cid], ValCell):
            t = ip.deref(st, v)
        elif isinstance(v, Opaque) and v.sort == "Val":
            t = v.t
        if t is not None:
            return ext_instance(ip, t, cls.mod, cls.name)
        if cls.mod == "numbers" and cls.name == "Number":
            # the abstract base class of python's numbers: ints, floats, bools are; sequences, strings, None are not
            if isinstance(v, (Num, Bool)):
                return TRUE
            if isinstance(v, (Tup, View, Str, NoneV)) or (isinstance(v, Ref) and not isinstance(st.heap[v.cid], ObjCell)):
                return FALSE
        raise U("isinstance against the external class %s.%s" % (cls.mod, cls.name))
    if isinstance(cls, Fun) and cls.kind == "class":
        if isinstance(v, Ref) and isinstance(st.heap[v.cid], ObjCell):
            k = st.heap[v.cid].cls
            todo, seen = [k], set()
            while todo:
                x = todo.pop()
                if x == cls.name:
                    return TRUE
                if x in seen:
                    continue
                seen.add(x)
                cs = ip.contracts.classes.get(x)
                if cs:
                    if cs.alias_of == cls.name:
                        return TRUE        # a ClassSpec that describes instances of this very class under another name
                    todo += cs.bases
            return FALSE
        if isinstance(v, Opaque) and v.sort in ("Obj", "V"):
            f = ip.reg.ufun("isinst_%s_%s" % (cls.name, v.sort), [v.sort], "Bool")
            return T("(%s %s)" % (f, v.t.s), "Bool")
        return FALSE
    if isinstance(cls, Opaque) and cls.sort == "Obj" and isinstance(v, Opaque) and v.sort in ("Obj", "V"):
        # a class the caller supplies (an abstract object) against an abstract value: a predicate of the two
        f = ip.reg.ufun("isinst_dyn_%s" % v.sort, [v.sort, "Obj"], "Bool")
        return T("(%s %s %s)" % (f, v.t.s, cls.t.s), "Bool")
    raise U("isinstance against %r" % (cls,))


def obj_preds(ip):
    """abstract predicates over (element, attribute name); a callable attribute is in particular an attribute"""
    reg = ip.reg
    reg.need_val()
    reg.ufun("has_attr_Obj", ["Obj", "Key"], "Bool")
    reg.ufun("callable_attr", ["Obj", "Key"], "Bool")
    ax = T("(forall ((e Obj) (k Key)) (! (=> (callable_attr e k) (has_attr_Obj e k)) :pattern ((callable_attr e k))))", "Bool")
    if not any(a.s == ax.s for a in reg.axioms):
        reg.axioms.append(ax)


def has_attr(ip, st, v, name):
    if isinstance(v, Opaque) and v.sort == "Obj":
        obj_preds(ip)
        return T("(has_attr_Obj %s %s)" % (v.t.s, ip.reg.key(name).s), "Bool")
    if isinstance(v, Opaque) and v.sort in ("Obj", "V"):
        f = ip.reg.ufun("has_%s_%s" % (name.strip("_") or "x", v.sort) if name.startswith("__") else "has_%s_%s" % (name, v.sort), [v.sort], "Bool")
        return T("(%s %s)" % (f, v.t.s), "Bool")
    if isinstance(v, Ref):
        cell = st.heap[v.cid]
        if isinstance(cell, ObjCell):
            if name in cell.fields:
                return TRUE
            if ip.contracts.find_method(cell.cls, name) is not None:
                return TRUE
            cs = ip.contracts.classes.get(cell.cls)
            if cs and name in cs.class_attrs:
                return TRUE
            return FALSE
        if isinstance(cell, (LstCell, PyListCell)):
            return TRUE if name in ("__iter__", "__len__", "append", "__getitem__") else FALSE
        if isinstance(cell, IterCell):
            return TRUE if name in ("__iter__", "__next__") else FALSE
        if isinstance(cell, (ValCell, PyDictCell)):
            return TRUE if name in ("__iter__", "keys", "items", "get", "update", "__getitem__", "__len__") else FALSE
    if isinstance(v, (Tup, View)):
        return TRUE if name in ("__iter__", "__len__", "__getitem__") else FALSE
    if isinstance(v, (Num, Bool, NoneV)):
        return FALSE
    if isinstance(v, Str):
        return TRUE if name in ("__iter__", "__len__", "split", "format") else FALSE
    if isinstance(v, Fun):
        return TRUE if name == "__call__" else FALSE
    raise U("hasattr(%r, %s)" % (v, name))


def is_callable(ip, st, v):
    if type(v).__name__ == "Padded":
        raise U("callable() of an item of a zip_longest row")
    if isinstance(v, Opaque) and v.sort == "Unk":
        raise U("callable() of a value nothing is known about (a havocked field no class spec declares)")
    if isinstance(v, Fun):
        if v.kind == "elem-method":
            # "the element has this attribute and it is callable" (abstract predicate over element and attribute name)
            obj_preds(ip)
            return T("(callable_attr %s %s)" % (v.elem.t.s, method_key(ip, v).s), "Bool")
        if v.kind == "method" and isinstance(getattr(v, "recv", None), Opaque) and v.recv.sort == "V":
            # an attribute of an abstract flow value (`data.write`): whether it is callable is the value's own business
            ip.reg.need_val()
            f = ip.reg.ufun("callable_attr_V", ["V", "Key"], "Bool")
            return T("(%s %s %s)" % (f, v.recv.t.s, ip.reg.key(v.name).s), "Bool")
        return TRUE
    if isinstance(v, Opaque) and v.sort in ("Obj", "V"):
        f = ip.reg.ufun("is_callable_" + v.sort, [v.sort], "Bool")
        return T("(%s %s)" % (f, v.t.s), "Bool")
    if isinstance(v, Ref) and isinstance(st.heap[v.cid], ObjCell):
        return TRUE if ip.contracts.find_method(st.heap[v.cid].cls, "__call__") is not None else FALSE
    return FALSE


def method_key(ip, f):
    k = getattr(f, "key", None)
    if k is not None:
        return k
    return ip.reg.key(f.name)


def call_builtin(ip, st, name, pos, kws, node):
    reg = ip.reg
    if name == "len":
        v = pos[0]
        if isinstance(v, (Num, Bool, NoneV)) and len(pos) == 1 and not ip.spec_mode:
            # len(<number>) / len(None): TypeError (object of type 'float' has no len()), as for iter() below
            if ip.may_catch(st, "TypeError"):
                ip.raise_(st, "TypeError")
            else:
                ip.emit("safety", "len() of a number (TypeError)", st, FALSE)
            return []
        if isinstance(v, Ref):
            cell = st.heap[v.cid]
            if type(cell).__name__ == "PySetCell" and cell.items != "unknown":
                n = Num(I(len(cell.items)))
                n.exact = True          # (comparisons of it with integer literals are decided syntactically: Interp.py_eq)
                return [(st, n)]
            if type(cell).__name__ == "SymSetCell":
                from .lib_graph import symset_len          # number of distinct members
                return [(st, symset_len(ip, st, cell))]
            if isinstance(cell, PyDictCell):
                return [(st, Num(I(len(cell.items))))]
            if type(cell).__name__ == "IterLstCell":
                from .lib_sib import iterlst_len
                return [(st, iterlst_len(ip, st, cell, v))]
            if isinstance(cell, ObjCell) and not v.path and not ip.spec_mode and cell.cls != "$file":
                # len(obj) of an instance of a repository class: python calls type(obj).__len__(obj)
                k = ip.contracts.find_method(cell.cls, "__len__")
                if k is None:
                    raise U("len() of an instance of %s: no contract for __len__" % cell.cls)
                from .calls import apply_contract
                return apply_contract(ip, st, k, [v], {})
            if isinstance(cell, ValCell):
                f = reg.ufun("vlen", ["Val"], "Int")
                t = T("(%s %s)" % (f, ip.deref(st, v).s), "Int")
                return [(st, Num(t))]
        if isinstance(v, Opaque) and v.sort == "Val":
            f = reg.ufun("vlen", ["Val"], "Int")
            return [(st, Num(T("(%s %s)" % (f, v.t.s), "Int")))]
        if isinstance(v, Str):
            return [(st, Num(I(len(v.s))))]
        if isinstance(v, Opaque) and v.sort == "Key":
            f = reg.ufun("klen", ["Key"], "Int")          # len of a symbolic string: a function of it (nothing assumed)
            return [(st, Num(T("(%s %s)" % (f, v.t.s), "Int")))]
        if isinstance(v, Opaque) and v.sort == "V":
            from .vmembers import attr_value          # len() of an abstract flow value: declared v_members {"__len__": "attr:Int"}
            r = attr_value(ip, v, "__len__")
            if r is not None:
                return [(st, r)]
        return [(st, Num(ip.as_view(st, v).len))]
    if name == "range":
        if len(pos) == 1:
            n = ip.num(pos[0])
            k = lit_int(n)
            if k is not None:
                return [(st, ip.items_view([Num(I(i)) for i in range(k)]))]
            n0 = ITE(CMP("<", n, I(0)), I(0), n)
            rv = View(n0, lambda i: Num(i))
            rv.guard_len = n
            return [(st, rv)]
        if len(pos) == 2:
            a, b = ip.num(pos[0]), ip.num(pos[1])
            la, lb = lit_int(a), lit_int(b)
            if la is not None and lb is not None:
                return [(st, ip.items_view([Num(I(i)) for i in range(la, lb)]))]
            d = SUB(b, a)
            rv = View(ITE(CMP("<", d, I(0)), I(0), d), lambda i: Num(ADD(a, i)))
            rv.guard_len = d
            return [(st, rv)]
        raise U("range with step")
    if name == "enumerate":
        if len(pos) == 1 and isinstance(pos[0], Opaque) and pos[0].sort == "Obj" and not ip.spec_mode:
            # iterating an abstract object is not modelled: such a path must be infeasible (obligation), it is not continued
            ip.emit("safety", "enumerate over an abstract object: the path is infeasible (iterating it is not modelled)", st, FALSE)
            return []
        v = ip.as_view(st, pos[0])
        if v.items is not None:
            return [(st, ip.items_view([Tup([Num(I(k)), x]) for k, x in enumerate(v.items)]))]
        return [(st, View(v.len, lambda i: Tup([Num(i), v.get(i)])))]
    if name == "zip":
        if any(isinstance(p, Ref) and isinstance(st.heap.get(p.cid), IterCell) for p in pos):
            from .lib_graph import zip_concrete          # iterators over a known number of items (itertools.chain(a, b))
            r = zip_concrete(ip, st, pos)
            if r is not None:
                return r
            from .lib_flow import zip_iter          # zip(range(n), <iterator>): pulls lazily, at most n values
            return zip_iter(ip, st, pos)
        views = [ip.as_view(st, p) for p in pos]
        if all(v.items is not None for v in views):
            n = min(len(v.items) for v in views)
            return [(st, ip.items_view([Tup([v.items[k] for v in views]) for k in range(n)]))]
        n = views[0].len
        for v in views[1:]:
            n = ITE(CMP("<", v.len, n), v.len, n)
        r = View(n, lambda i: Tup([v.get(i) for v in views]))
        r.lazy = True
        return [(st, r)]
    if name == "reversed":
        v = ip.as_view(st, pos[0])
        if v.items is not None:
            return [(st, ip.items_view(list(reversed(v.items))))]
        return [(st, View(v.len, lambda i: v.get(SUB(SUB(v.len, I(1)), i))))]
    if name == "isinstance":
        return [(st, Bool(isinstance_(ip, st, pos[0], pos[1])))]
    if name == "hasattr":
        if not isinstance(pos[1], Str):
            raise U("hasattr with a computed name")
        return [(st, Bool(has_attr(ip, st, pos[0], pos[1].s)))]
    if name == "callable":
        return [(st, Bool(is_callable(ip, st, pos[0])))]
    if name == "getattr":
        if isinstance(pos[1], Opaque) and pos[1].sort == "Key" and isinstance(pos[0], Opaque) and pos[0].sort == "Obj":
            # attribute name given by the caller (a method name parameter of an adapter)
            return [(st, Fun("elem-method", elem=pos[0], name=None, key=pos[1].t, optional=len(pos) > 2))]
        if not isinstance(pos[1], Str):
            raise U("getattr with a computed name")
        v, attr = pos[0], pos[1].s
        if isinstance(v, Opaque) and v.sort == "Obj":
            return [(st, Fun("elem-method", elem=v, name=attr, optional=len(pos) > 2))]
        if len(pos) > 2:
            return ip.getattr_(st, v, attr, default=pos[2])
        return ip.getattr_(st, v, attr)
    if name in ("int", "float"):
        if not pos:
            return [(st, Num(I(0) if name == "int" else R(0)))]
        v = pos[0]
        if isinstance(v, Bool):
            return [(st, Num(ITE(v.t, I(1), I(0))))]
        if name == "int" and len(pos) == 1 and (isinstance(v, Str) or (isinstance(v, Opaque) and v.sort == "Key")):
            from .lib_split import int_of_string          # int("12") / ValueError
            return int_of_string(ip, st, v)
        if name == "float" and len(pos) == 1 and isinstance(v, Opaque) and v.sort == "V":
            from .vmembers import attr_value          # float() of an abstract flow value: declared v_members {"__float__": "attr:Real"}
            r = attr_value(ip, v, "__float__")
            if r is not None:
                return [(st, r)]
        x = ip.num(v)
        if name == "float":
            return [(st, Num(to_real(x)))]
        if x.sort == "Int":
            return [(st, Num(x))]
        # truncation toward zero
        fl = T("(to_int %s)" % x.s, "Int")
        cl = NEG(T("(to_int %s)" % NEG(x).s, "Int"))
        return [(st, Num(ITE(CMP(">=", x, R(0)), fl, cl)))]
    if name == "bool":
        if not pos:
            return [(st, Bool(FALSE))]
        return [(st, Bool(ip.truth(st, pos[0])))]
    if name == "abs":
        x = ip.num(pos[0])
        return [(st, Num(ITE(CMP(">=", x, I(0) if x.sort == "Int" else R(0)), x, NEG(x))))]
    if name in ("min", "max"):
        vals = pos
        if len(pos) == 1:
            v = ip.as_view(st, pos[0])
            if v.items is None:
                raise U("min/max over symbolic sequence")
            vals = v.items
        r = ip.num(vals[0])
        for x in vals[1:]:
            x = ip.num(x)
            r = ITE(CMP("<" if name == "min" else ">", x, r), x, r)
        return [(st, Num(r))]
    if name in ("all", "any"):
        from .lib_acc2 import valset_members          # all / any over a set of context values: over its members
        v = valset_members(ip, st, pos[0]) or consume_view(ip, st, pos[0])
        n_c, n_v, n_e = len(reg.const_decls), len(ip.vcs), len(ip._exc_out)
        t = quant(ip, "forall" if name == "all" else "exists", v, lambda x: ip.truth(st, x))
        if len(reg.const_decls) > n_c and v.items is None and getattr(v, "lazy", False) and getattr(v, "get2", None) is not None \
                and not ip.spec_mode and not getattr(ip, "bound_guards", None):
            # all / any over a generator expression of symbolic length whose ITEMS introduce unknowns (results of callees):
            # under the quantifier the facts about them are lost (and their exceptional paths have no state of their own).
            # The items are pure values: the generator expression is evaluated as the list comprehension with the same
            # items (histlib.symbolic_listcomp: one generic item explored, unknowns as functions of the index), then
            # quantified.  (Over-approximates short-circuit evaluation: an exception of ANY item is explored.)
            from .histlib import symbolic_listcomp
            del ip.vcs[n_v:]
            del ip._exc_out[n_e:]
            lv = symbolic_listcomp(ip, st, st, v)
            v2 = ip.as_view(st, lv) if isinstance(lv, Ref) else lv
            t = quant(ip, "forall" if name == "all" else "exists", v2, lambda x: ip.truth(st, x))
        return [(st, Bool(t))]
    if name == "sum":
        v = consume_view(ip, st, pos[0])
        if v.items is not None:
            r = ip.num(pos[1]) if len(pos) > 1 else I(0)
            for x in v.items:
                r = ADD(r, ip.num(x))
            return [(st, Num(r))]
        from .histlib import sum_symbolic       # start + lsum(xs, len(xs)): recursive reference function
        return [(st, sum_symbolic(ip, st, v, ip.num(pos[1]) if len(pos) > 1 else I(0)))]
    if name in ("list", "tuple"):
        if not pos:
            return [(st, Tup([]) if name == "tuple" else ip.new_cell(st, PyListCell([])))]
        v = consume_view(ip, st, pos[0])
        if v.items is not None:
            return [(st, Tup(v.items) if name == "tuple" else ip.new_cell(st, PyListCell(v.items)))]
        if name == "tuple":
            nv = View(v.len, v.get)
            nv.pykind = "tuple"
            if getattr(v, "term", None) is not None:
                nv.term = v.term
            return [(st, nv)]
        # list(...) of symbolic length: a fresh mutable list cell
        t = getattr(v, "term", None)
        if t is None:
            sample = v.get(I(0))
            if isinstance(sample, Tup):
                # a list of tuples has no list term: an immutable snapshot of the items that still is a `list`
                # (a later store into it / identity test on it is out-of-subset)
                nv = View(v.len, v.get)
                nv.pykind = "list"
                if getattr(v, "guard_len", None) is not None:
                    nv.guard_len = v.guard_len
                return [(st, nv)]
            sort = sv_lst_sort(ip, sample)
            from .calls import materialise
            t = materialise(ip, st, v, sort)
        return [(st, ip.new_cell(st, LstCell(t)))]
    if name == "iter":
        v = pos[0]
        if isinstance(v, (Num, Bool, NoneV)) and len(pos) == 1:
            # iter(<number>): TypeError ('float' object is not iterable)
            if ip.may_catch(st, "TypeError"):
                ip.raise_(st, "TypeError")
            else:
                ip.emit("safety", "iter() of a number (TypeError)", st, FALSE)
            return []
        if isinstance(v, Ref) and isinstance(st.heap[v.cid], IterCell):
            return [(st, v)]
        if len(pos) == 1 and isinstance(v, Ref) and not v.path and isinstance(st.heap[v.cid], ObjCell) and not ip.spec_mode:
            # iter(obj) is type(obj).__iter__(obj): through that method's contract (none: out-of-subset, as before)
            k = ip.contracts.find_method(st.heap[v.cid].cls, "__iter__")
            if k is None:
                raise U("iter() of an instance of %s: no contract for __iter__" % st.heap[v.cid].cls)
            from .calls import apply_contract
            return apply_contract(ip, st, k, [v], {})
        if isinstance(v, Ref) and isinstance(st.heap[v.cid], LstCell):
            # iterator over a live list: reads the list as it is at each step
            c = IterCell(None, I(0))
            c.live = v
            return [(st, ip.new_cell(st, c))]
        return [(st, ip.new_cell(st, IterCell(ip.as_view(st, v), I(0))))]
    if name == "next":
        from .stmts import iter_next
        if len(pos) == 1 and isinstance(pos[0], Ref) and isinstance(st.heap[pos[0].cid], ObjCell):
            # next(obj) is type(obj).__next__(obj): through that method's contract
            k = ip.contracts.find_method(st.heap[pos[0].cid].cls, "__next__")
            if k is None:
                raise U("next() of an instance of %s: no contract for __next__" % st.heap[pos[0].cid].cls)
            from .calls import apply_contract
            return apply_contract(ip, st, k, [pos[0]], {})
        return iter_next(ip, st, pos[0], default=pos[1] if len(pos) > 1 else None)
    if name in ("str", "repr"):
        if pos and isinstance(pos[0], Str) and name == "str":
            return [(st, pos[0])]
        if pos and isinstance(pos[0], Num) and ip.c is not None and ip.c.ghost.get("str_format"):
            from .lib_graph import num_text          # opt-in: str(x) / repr(x) of a number as a function of the number
            return [(st, num_text(ip, pos[0], name))]
        if pos and isinstance(pos[0], Opaque) and pos[0].sort == "Val":
            f = reg.ufun("str_of_val", ["Val"], "Key")
            return [(st, Opaque(T("(%s %s)" % (f, pos[0].t.s), "Key")))]
        if pos and isinstance(pos[0], Ref) and isinstance(st.heap[pos[0].cid], ValCell):
            f = reg.ufun("str_of_val", ["Val"], "Key")
            return [(st, Opaque(T("(%s %s)" % (f, ip.deref(st, pos[0]).s), "Key")))]
        return [(st, Str("<str>"))]
    if name == "print":
        return [(st, NONE)]
    if name == "dict":
        if not pos and not kws:
            if ip.c is not None and ip.c.dict_model == "Val":
                return [(st, ip.new_cell(st, ValCell(T("(D emptymap)", "Val"))))]
            return [(st, ip.new_cell(st, PyDictCell({})))]
        if len(pos) == 1 and not kws and isinstance(pos[0], Fun) and (pos[0].kind == "dictpairs" or
                                                                     (pos[0].kind == "dictview" and pos[0].name == "items")):
            # dict(<all the items of d>): a new dictionary with the same items
            from .dicts import dterm, mark_shallow
            r = ip.new_cell(st, ValCell(dterm(ip, st, pos[0].recv)))
            if not ip.spec_mode:
                mark_shallow(st, r, pos[0].recv)
            return [(st, r)]
        raise U("dict(...)")
    if name == "object":
        return [(st, Sentinel("anon%d" % next(ip.cid)))]
    if name == "id":
        raise U("id()")
    if name == "sorted":
        if len(pos) == 1 and isinstance(pos[0], Fun) and pos[0].kind == "dictview" and pos[0].name == "items":
            # sorted(d.items(), key=...): the items of d in some order (dictionary VALUES are order-free in the encoding)
            return [(st, Fun("dictpairs", recv=pos[0].recv))]
        if len(pos) == 1 and not kws:
            from .lib_acc2 import sorted_list          # sorted(list of flow values, symbolic length): library contract
            r = sorted_list(ip, st, pos[0])
            if r is not None:
                return r
        raise U("sorted")
    if name == "type":
        raise U("type()")
    if name == "open":
        from .lib import lib_open
        return lib_open(ip, st, pos, kws)
    if name == "super":
        if len(pos) == 2 and isinstance(pos[0], Fun) and pos[0].kind == "class" and isinstance(pos[1], Ref):
            return [(st, Fun("super", cls=pos[0].name, self_ref=pos[1]))]
        raise U("super() without explicit (Class, self)")
    if name == "setattr":
        if len(pos) == 3 and not kws and isinstance(pos[1], Str) and isinstance(pos[0], Ref) and not pos[0].path \
                and isinstance(st.heap.get(pos[0].cid), ObjCell) and not ip.spec_mode:
            # setattr(obj, "<literal name>", value) on an instance: the statement `obj.<name> = value` (stmts.assign_to)
            cell = st.heap[pos[0].cid]
            fields = dict(cell.fields)
            fields[pos[1].s] = pos[2]
            st.heap[pos[0].cid] = ObjCell(cell.cls, fields)
            return [(st, NONE)]
        raise U("setattr with computed name")
    if name in ("object.__setattr__", "object.__getattribute__"):
        if not (len(pos) >= 2 and isinstance(pos[0], Ref) and isinstance(st.heap[pos[0].cid], ObjCell) and isinstance(pos[1], Str)):
            raise U("%s with a computed name / on a value that is no instance" % name)
        cell = st.heap[pos[0].cid]
        if name == "object.__setattr__":
            if len(pos) != 3:
                raise U("object.__setattr__ arity")
            fields = dict(cell.fields)
            fields[pos[1].s] = pos[2]
            st.heap[pos[0].cid] = ObjCell(cell.cls, fields)
            return [(st, NONE)]
        if pos[1].s in cell.fields:
            return [(st, cell.fields[pos[1].s])]
        raise U("object.__getattribute__ of an attribute the class spec does not declare: " + pos[1].s)
    if name in ("map", "set"):
        from .lib_split import builtin_map, builtin_set          # (Split.__init__ / check_sequence_type)
        return (builtin_map if name == "map" else builtin_set)(ip, st, pos, kws)
    if name == "slice":
        from .lib_flow import builtin_slice
        return builtin_slice(ip, st, pos)
    raise U("builtin " + name)


def sv_lst_sort(ip, sample):
    if isinstance(sample, Num):
        return ip.reg.lst(sample.sort)
    if isinstance(sample, Bool):
        return ip.reg.lst("Bool")
    if isinstance(sample, Opaque):
        return ip.reg.lst(sample.sort)
    if isinstance(sample, View) and getattr(sample, "term", None) is not None:
        return ip.reg.lst(sample.term.sort)
    raise U("cannot materialise a list of %r" % (sample,))


def consume_view(ip, st, v):
    """view of everything an iterable will deliver; iterators are exhausted by it"""
    if isinstance(v, Ref) and isinstance(st.heap[v.cid], IterCell):
        cell = st.heap[v.cid]
        if getattr(cell, "live", None) is not None:
            raise U("consuming a live list iterator")
        src, cur = cell.src, cell.cursor
        limit = cell.limit
        end = src.len if limit is None else ITE(CMP("<", limit, src.len), limit, src.len)
        n = SUB(end, cur)
        n = ITE(CMP("<", n, I(0)), I(0), n)
        rest = View(n, lambda i: src.get(ADD(cur, i)))
        if src.items is not None and lit_int(cur) is not None and limit is None:
            rest = ip.items_view(src.items[lit_int(cur):])
        t = getattr(src, "term", None)
        if t is not None and lit_int(cur) == 0 and limit is None:
            rest.term = t
        nc = IterCell(src, ITE(CMP("<", cur, end), end, cur), cell.name, cell.limit)
        if hasattr(cell, "upstream"):
            nc.upstream = cell.upstream
        st.heap[v.cid] = nc
        if getattr(cell, "consumes", None):
            from .lib_run import consume_exact        # list(el.run(it)): the abstract run has pulled what it pulls
            nc.consumes = cell.consumes
            consume_exact(ip, st, v)
        if getattr(cell, "shared", None) is not None:
            # islice over another iterator: advance the underlying iterator as well
            under = cell.shared
            ucell = st.heap[under.cid]
            st.heap[under.cid] = IterCell(ucell.src, nc.cursor, ucell.name, ucell.limit)
        return rest
    if isinstance(v, Ref) and not v.path and isinstance(st.heap.get(v.cid), ObjCell) and not ip.spec_mode:
        return instance_iter_view(ip, st, v)
    return ip.as_view(st, v)


def instance_iter_view(ip, st, v):
    """everything an INSTANCE of a repository class delivers when it is iterated (list.extend(obj), list(obj)): python
    calls type(obj).__iter__(obj).  Modelled only when the first class of the instance's class chain (ClassSpec.alias_of /
    bases, real `class` statements) that defines __iter__ has an inline=True contract for it -- its real body is executed in
    place -- and the call neither forks nor raises; what it returns is then consumed.  Anything else: out-of-subset."""
    import ast as _ast
    cls = st.heap[v.cid].cls
    definer, seen, todo = None, set(), [cls]
    while todo and definer is None:
        k = todo.pop(0)
        if k in seen:
            continue
        seen.add(k)
        cs = ip.contracts.classes.get(k)
        if cs is None:
            continue
        real = cs.alias_of or k
        try:
            tree = ip.world.modctx(cs.file).tree
        except Exception:
            raise U("iteration over an instance of %s: module of %s not readable" % (cls, k))
        nxt = []
        for n in _ast.walk(tree):
            if isinstance(n, _ast.ClassDef) and n.name == real:
                if any(isinstance(b, _ast.FunctionDef) and b.name == "__iter__" for b in n.body):
                    definer = real
                for b in n.bases:
                    bn = b.attr if isinstance(b, _ast.Attribute) else b.id if isinstance(b, _ast.Name) else None
                    if bn == "object":
                        continue
                    if not bn or bn not in ip.contracts.classes:
                        raise U("iteration over an instance of %s: base class %s has no ClassSpec" % (cls, bn))
                    nxt.append(bn)
        todo = nxt + todo
    k = ip.contracts.find_method(cls, "__iter__")
    if definer is None or k is None or not k.inline or k.qual != definer + ".__iter__":
        raise U("iteration over an instance of %s: no inline contract for the __iter__ its class defines" % cls)
    from .calls import inline_contract
    n_exc = len(ip._exc_out)
    outs = inline_contract(ip, st, k, [v], {})
    if len(outs) != 1 or len(ip._exc_out) != n_exc:
        raise U("iteration over an instance of %s: __iter__ forks or raises" % cls)
    s2, r = outs[0]
    st.heap, st.pc, st.notes, st.trace = s2.heap, s2.pc, s2.notes, s2.trace
    if isinstance(r, Ref) and not r.path and isinstance(st.heap.get(r.cid), ObjCell):
        raise U("iteration over an instance of %s: __iter__ returns an instance" % cls)
    rc = st.heap.get(r.cid) if isinstance(r, Ref) else None
    if isinstance(rc, IterCell) and getattr(rc, "live", None) is not None and lit_int(rc.cursor) == 0 and rc.limit is None:
        # a new iterator over a list object (`return self._seq.__iter__()`), consumed at once: the list's present items.
        # (The consumer must not be that very list: `live_cid` lets list.extend refuse it.)
        view = ip.lst_view(ip.deref(st, rc.live))
        view.live_cid = rc.live.cid
        return view
    return consume_view(ip, st, r)


def call_method(ip, st, recv, name, pos, kws, node):
    reg = ip.reg
    if isinstance(recv, Ref) and type(st.heap.get(recv.cid)).__name__ == "PySetCell":
        from .lib_split import set_method
        return set_method(ip, st, recv, name, pos, kws)
    if isinstance(recv, Ref) and type(st.heap.get(recv.cid)).__name__ == "ValSetCell":
        from .lib_acc2 import valset_method          # a set of context values (pyvc/lib_acc2.py)
        return valset_method(ip, st, recv, name, pos, kws)
    if name == "join" and (isinstance(recv, Str) or (isinstance(recv, Opaque) and recv.sort == "Key")) \
            and ip.c is not None and ip.c.ghost.get("str_format"):
        from .lib_graph import str_join          # opt-in: sep.join(<known number of strings>) as a concatenation
        return str_join(ip, st, recv, pos, kws)
    if name == "render" and ip.c is not None and ip.c.ghost.get("jinja_abstract") and \
            ((isinstance(recv, Opaque) and recv.sort == "Val") or (isinstance(recv, Ref) and isinstance(st.heap.get(recv.cid), ValCell))):
        from .lib_fmt import jinja_render        # opt-in: a jinja2 template object held as a context value (pyvc/lib_fmt.py)
        from .dicts import dterm
        return jinja_render(ip, st, dterm(ip, st, recv), pos, kws)
    if name in ("startswith", "replace") and ((isinstance(recv, Opaque) and recv.sort in ("Val", "Key")) or
                                               (isinstance(recv, Ref) and isinstance(st.heap.get(recv.cid), ValCell))):
        # a string method on a symbolic string / on a context item that must be a string (obligation): a function of it
        from .lib import str_operand, symstr_method
        r = symstr_method(ip, st, str_operand(ip, st, recv, "." + name), name, pos, kws)
        if r is not None:
            return r
    if isinstance(recv, Ref):
        cell = st.heap[recv.cid]
        if type(cell).__name__ == "KeyMapCell":
            from .keymap import km_method
            return km_method(ip, st, recv, name, pos, kws)
        if isinstance(cell, LstCell):
            return list_method(ip, st, recv, name, pos, kws)
        if isinstance(cell, PyListCell):
            return pylist_method(ip, st, recv, cell, name, pos, kws)
        if isinstance(cell, ValCell):
            from .dicts import val_method
            return val_method(ip, st, recv, name, pos, kws)
        if isinstance(cell, PyDictCell):
            return pydict_method(ip, st, recv, cell, name, pos, kws)
        if isinstance(cell, ObjCell) and cell.cls == "$file":
            from .lib import file_method
            return file_method(ip, st, recv, name, pos)
        if isinstance(cell, IterCell):
            if name == "__next__":
                from .stmts import iter_next
                return iter_next(ip, st, recv)
            if name == "__iter__":
                return [(st, recv)]
    if isinstance(recv, Str):
        return str_method(ip, st, recv, name, pos, kws)
    if isinstance(recv, Opaque) and recv.sort == "Val":
        from .dicts import val_method
        return val_method(ip, st, recv, name, pos, kws)
    if isinstance(recv, Opaque) and recv.sort == "Key":
        from .dicts import key_method
        return key_method(ip, st, recv, name, pos, kws)
    if isinstance(recv, Opaque) and recv.sort == "V":
        from .vmembers import method_call          # a method of an abstract flow value declared in the contract
        r = method_call(ip, st, recv, name, pos, kws)
        if r is not None:
            return r
    if isinstance(recv, Opaque) and recv.sort == "V" and name == "replace" and len(pos) == 2 and not kws \
            and isinstance(pos[0], Str) and isinstance(pos[1], Str) and pos[0].s == ".pdf" and pos[1].s == "":
        # path.replace(".pdf", ""): the text is not modelled; it is the uninterpreted function `pdf_stem` of the value (the
        # same symbol the contracts of PDFToPNG.run use), so two computations of it from one value agree
        f = ip.reg.ufun("pdf_stem", ["V"], "Key")
        ip.assumptions.add("str.replace('.pdf', '') of a flow value is the uninterpreted function pdf_stem of that value")
        return [(st, Opaque(T("(%s %s)" % (f, recv.t.s), "Key")))]
    if isinstance(recv, Opaque) and recv.sort == "V" and name == "write" and len(pos) == 1 and "$fs" in st.notes:
        # a data object that writes itself to the given path: the file exists afterwards, its content is unspecified
        from .lib import need_fs, fs_store
        lv = need_fs(ip.reg)
        c = ip.reg.new("objfile", lv)
        st.assume(CMP(">=", ip.reg.l_len(c), I(0)))
        fs_store(ip, st, pos[0], "(fsome %s)" % c.s)
        ip.assumptions.add("a data object with a write(path) method creates / replaces exactly the file at that path")
        return [(st, NONE)]
    if isinstance(recv, (Tup, View)):
        if name == "__iter__":
            return [(st, ip.new_cell(st, IterCell(ip.as_view(st, recv), I(0))))]
        if name == "__len__":
            return [(st, Num(ip.as_view(st, recv).len))]
        if name == "count" or name == "index":
            raise U("tuple." + name)
    raise U("method %s of %r" % (name, recv))


def list_method(ip, st, recv, name, pos, kws):
    reg = ip.reg
    if not recv.path and recv.cid in st.notes.get("deques", ()):
        from .lib_flow import deque_method          # a collections.deque: bounded append / appendleft, popleft
        r = deque_method(ip, st, recv, name, pos, kws)
        if r is not None:
            return r
    t = ip.deref(st, recv)
    el = reg.lst_elem[t.sort]
    if name in ("append", "extend", "insert") and pos:
        from .dicts import note_store
        note_store(ip, st, recv, pos[-1])
    if name == "append" and el == "Key" and not recv.path and not (isinstance(pos[0], Str) or
                                                                  (isinstance(pos[0], Opaque) and pos[0].sort == "Key")):
        # a list of strings that receives a value of another kind (parts = s.split('.'); parts.append(value)): from now
        # on a list of context values; its strings are embedded by key_as_val (dicts.scalar)
        from .dicts import dterm, key_as_val
        reg.need_val()
        vsort = reg.lst("Val")
        n = reg.l_len(t)
        arr = "(lambda ((pi Int)) (ite (< pi %s) %s %s))" % (
            n.s, key_as_val(ip, T("(select %s pi)" % reg.l_arr(t).s, "Key")).s, dterm(ip, st, pos[0]).s)
        st.heap[recv.cid] = LstCell(T("(mk_%s %s (+ %s 1))" % (vsort, arr, n.s), vsort))
        return [(st, NONE)]
    if name == "append":
        v = elem_term(ip, st, pos[0], el)
        ip.store(st, recv, reg.l_append(t, v))
        return [(st, NONE)]
    if name == "pop":
        n = reg.l_len(t)
        if pos:
            raise U("list.pop(i)")
        empty = EQ(n, I(0))
        if ip.may_catch(st, "IndexError"):
            bad = st.fork(empty, "ie.")
            ip.raise_(bad, "IndexError")
            st.assume(NOT(empty))
            st.trace += "ii."
        else:
            ip.emit("safety", "pop-from-nonempty", st, NOT(empty))
            st.assume(NOT(empty))
        last = SUB(n, I(1))
        v = ip.wrap(reg.l_get(t, last))
        ip.store(st, recv, reg.l_mk(t.sort, reg.l_arr(t), last))
        return [(st, v)]
    if name == "extend":
        if isinstance(pos[0], Ref) and getattr(st.heap.get(pos[0].cid), "gen_args", None) and not ip.spec_mode \
                and reaches(st, st.heap[pos[0].cid].gen_args, recv.cid):
            # L.extend(g) where g is the suspended call of a generator function under contract and L can be reached from
            # g's arguments: the generator runs WHILE the list grows (it may iterate the very list, never finishing); the
            # functional model of the call (content fixed at the call) does not describe that -- not proved, never assumed
            ip.emit("safety", "generator-consumer-non-interference (extend of a list the suspended generator can reach)", st, FALSE)
        src = consume_view(ip, st, pos[0])
        if getattr(src, "live_cid", None) == recv.cid:
            raise U("extend of a list by an object that iterates this very list")
        n = reg.l_len(t)
        nt = reg.new("ext", t.sort)
        st.assume(EQ(reg.l_len(nt), ADD(n, src.len)))
        q = T("q%d" % next(ip.bound), "Int")
        st.assume(T("(forall ((%s Int)) (=> (and (<= 0 %s) (< %s %s)) (= %s %s)))" % (
            q.s, q.s, q.s, n.s, reg.l_get(nt, q).s, reg.l_get(t, q).s), "Bool"))
        q2 = T("q%d" % next(ip.bound), "Int")
        body = EQ(reg.l_get(nt, ADD(n, q2)), elem_term(ip, st, src.get(q2), el))
        st.assume(T("(forall ((%s Int)) (=> (and (<= 0 %s) (< %s %s)) %s))" % (q2.s, q2.s, q2.s, src.len.s, body.s), "Bool"))
        ip.store(st, recv, nt)
        return [(st, NONE)]
    if name == "__iter__":
        c = IterCell(None, I(0))
        c.live = recv
        return [(st, ip.new_cell(st, c))]
    if name == "__len__":
        return [(st, Num(reg.l_len(t)))]
    raise U("list method " + name)


def reaches(st, roots, cid):
    """is the heap cell `cid` reachable from the values `roots` (through object fields, list / dict items, iterators)?"""
    seen, todo = set(), list(roots)
    while todo:
        v = todo.pop()
        if isinstance(v, Tup):
            todo += v.items
            continue
        if not isinstance(v, Ref) or v.cid in seen:
            continue
        if v.cid == cid:
            return True
        seen.add(v.cid)
        cell = st.heap.get(v.cid)
        if isinstance(cell, ObjCell):
            todo += list(cell.fields.values())
        elif isinstance(cell, PyListCell):
            todo += list(cell.items)
        elif isinstance(cell, PyDictCell):
            todo += list(cell.items.values())
        elif isinstance(cell, IterCell):
            todo += [getattr(cell, a, None) for a in ("live", "shared", "upstream")]
    return False


def elem_term(ip, st, v, el):
    if el == "Real":
        return to_real(ip.num(v))
    if el == "Int":
        t = ip.num(v)
        if t.sort != "Int":
            raise U("real into int list")
        return t
    if el == "Bool" and isinstance(v, Bool):
        return v.t
    if isinstance(v, Opaque) and v.sort == el:
        return v.t
    if isinstance(v, Ref) and isinstance(st.heap[v.cid], (LstCell, ValCell)):
        t = ip.deref(st, v)
        if t.sort == el:
            return t
    if isinstance(v, View) and getattr(v, "term", None) is not None and v.term.sort == el:
        return v.term
    if el == "Key" and isinstance(v, Str):
        return ip.reg.key(v.s)
    raise U("element %r does not fit list of %s" % (v, el))


def pylist_method(ip, st, recv, cell, name, pos, kws):
    items = cell.items
    if name in ("append", "extend", "insert") and pos:
        from .dicts import note_store
        note_store(ip, st, recv, pos[-1])
    if name == "append":
        st.heap[recv.cid] = PyListCell(items + [pos[0]])
        return [(st, NONE)]
    if name == "extend":
        src = consume_view(ip, st, pos[0])
        if getattr(src, "live_cid", None) == recv.cid:
            raise U("extend of a list by an object that iterates this very list")
        if src.items is None and items and not recv.path and all(
                isinstance(x, Opaque) and x.sort == items[0].sort and x.sort in ("Obj", "V") for x in items):
            # [e0, ..] of abstract objects extended by a sequence of symbolic length: from now on the same list object is
            # a symbolic list (only its representation changes): the old items first, then the items of the sequence in order
            reg = ip.reg
            sort = reg.lst(items[0].sort)
            nt = reg.new("ext", sort)
            k = len(items)
            st.assume(EQ(reg.l_len(nt), ADD(I(k), src.len)))
            for i, x in enumerate(items):
                st.assume(EQ(reg.l_get(nt, I(i)), x.t))
            q2 = T("q%d" % next(ip.bound), "Int")
            body = EQ(reg.l_get(nt, q2), elem_term(ip, st, src.get(SUB(q2, I(k))), items[0].sort))
            st.assume(T("(forall ((%s Int)) (! (=> (and (<= %d %s) (< %s %s)) %s) :pattern (%s)))" % (
                q2.s, k, q2.s, q2.s, ADD(I(k), src.len).s, body.s, reg.l_get(nt, q2).s), "Bool"))
            st.heap[recv.cid] = LstCell(nt)
            return [(st, NONE)]
        if src.items is None and not items and not recv.path and getattr(src, "term", None) is not None \
                and src.term.sort in (ip.reg.lst("Obj"), ip.reg.lst("V")):
            # [] extended by a list of abstract objects / flow values of symbolic length: the same list object now holds
            # exactly the items of that list (only its representation changes, as above)
            st.heap[recv.cid] = LstCell(src.term)
            return [(st, NONE)]
        if src.items is None:
            raise U("extend of a concrete list by a symbolic sequence")
        st.heap[recv.cid] = PyListCell(items + src.items)
        return [(st, NONE)]
    if name == "pop":
        if not items:
            if ip.may_catch(st, "IndexError"):
                ip.raise_(st, "IndexError")
            else:
                ip.emit("safety", "pop-from-nonempty", st, FALSE)
            return []
        if pos:
            k = lit_int(ip.num(pos[0]))
            if k is None:
                raise U("pop(symbolic)")
            new = list(items)
            v = new.pop(k)
            st.heap[recv.cid] = PyListCell(new)
            return [(st, v)]
        st.heap[recv.cid] = PyListCell(items[:-1])
        return [(st, items[-1])]
    if name == "__iter__":
        return [(st, ip.new_cell(st, IterCell(ip.items_view(items), I(0))))]
    if name == "__len__":
        return [(st, Num(I(len(items))))]
    if name == "insert":
        k = lit_int(ip.num(pos[0]))
        if k is None:
            raise U("insert(symbolic)")
        new = list(items)
        new.insert(k, pos[1])
        st.heap[recv.cid] = PyListCell(new)
        return [(st, NONE)]
    raise U("list method " + name)


def pydict_method(ip, st, recv, cell, name, pos, kws):
    if name == "pop":
        if not isinstance(pos[0], Str):
            raise U("dict.pop(symbolic)")
        k = pos[0].s
        if k in cell.items:
            new = dict(cell.items)
            v = new.pop(k)
            st.heap[recv.cid] = PyDictCell(new)
            return [(st, v)]
        if len(pos) > 1:
            return [(st, pos[1])]
        ip.raise_(st, "KeyError")
        return []
    if name == "get":
        if not isinstance(pos[0], Str):
            raise U("dict.get(symbolic)")
        if pos[0].s in cell.items:
            return [(st, cell.items[pos[0].s])]
        return [(st, pos[1] if len(pos) > 1 else NONE)]
    if name == "items":
        return [(st, ip.items_view([Tup([Str(k), v]) for k, v in cell.items.items()]))]
    if name == "keys":
        return [(st, ip.items_view([Str(k) for k in cell.items]))]
    if name == "values":
        return [(st, ip.items_view(list(cell.items.values())))]
    if name == "update" and not pos:
        # d.update(k1=v1, ...)
        from .dicts import note_store
        new = dict(cell.items)
        for k2, v2 in kws.items():
            note_store(ip, st, recv, v2)
            new[k2] = v2
        st.heap[recv.cid] = PyDictCell(new)
        return [(st, NONE)]
    if name == "update":
        src = pos[0]
        from .dicts import note_store
        note_store(ip, st, recv, src)
        if isinstance(src, Ref) and isinstance(st.heap[src.cid], PyDictCell):
            new = dict(cell.items)
            new.update(st.heap[src.cid].items)
            st.heap[recv.cid] = PyDictCell(new)
            return [(st, NONE)]
        if isinstance(src, Ref) and isinstance(st.heap[src.cid], ValCell) and not recv.path and all(
                isinstance(x, (Str, Num, Bool, NoneV)) or (isinstance(x, Opaque) and x.sort in ("Key", "Val"))
                for x in cell.items.values()):
            # a dictionary display with immutable items that is updated from a dictionary with unknown keys: from now on
            # the same object holds a dictionary VALUE (only its representation changes)
            from .dicts import dterm, val_method
            st.heap[recv.cid] = ValCell(dterm(ip, st, recv))
            return val_method(ip, st, recv, name, pos, kws)
        raise U("dict.update with %r" % (src,))
    raise U("dict method " + name)


def str_method(ip, st, recv, name, pos, kws):
    s = recv.s
    if name == "format":
        if ip.c is not None and ip.c.ghost.get("str_format_abstract"):
            from .lib_fmt import abstract_format     # opt-in: the text as an uninterpreted function, ValueError modelled
            return abstract_format(ip, st, recv, pos, kws)
        if ip.c is not None and ip.c.ghost.get("str_format"):
            from .lib_graph import str_format        # opt-in: the text as a concatenation of its formatted fields
            return str_format(ip, st, s, pos, kws)
        # the text is not modelled: an unknown string (never a constant: two such texts must not compare equal)
        return [(st, Opaque(ip.reg.new("formatted", "Key")))]
    if name == "split" and len(pos) == 1 and isinstance(pos[0], Str):
        return [(st, ip.new_cell(st, PyListCell([Str(x) for x in s.split(pos[0].s)])))]
    if name == "join":
        if len(pos) == 1 and isinstance(pos[0], Ref) and not pos[0].path and isinstance(st.heap.get(pos[0].cid), PyListCell) \
                and all(isinstance(x, Str) for x in st.heap[pos[0].cid].items):
            # a list of concrete length whose items are all concrete strings: the text python builds
            return [(st, Str(s.join(x.s for x in st.heap[pos[0].cid].items)))]
        return [(st, Opaque(ip.reg.new("joined", "Key")))]
    if name == "startswith" and isinstance(pos[0], Str):
        return [(st, Bool(TRUE if s.startswith(pos[0].s) else FALSE))]
    if name == "count" and isinstance(pos[0], Str):
        n = Num(I(s.count(pos[0].s)))
        n.exact = True          # (comparisons of it with integer literals are decided syntactically: Interp.py_eq)
        return [(st, n)]
    if name == "replace" and all(isinstance(p, Str) for p in pos):
        return [(st, Str(s.replace(pos[0].s, pos[1].s)))]
    raise U("str method " + name)
