"""library contracts (tier A) for the lazily evaluated iterators the flow elements are built from: itertools.count,
itertools.islice (general start / stop / step form), zip(range(n), <input iterator>), collections.deque (bounded),
the builtin slice().  Everything here is an ASSUMPTION about CPython's library, listed in the evidence.

itertools.count(start, step)
    the arithmetic progression start, start + step, ... without end: ghost iterator kind `arith` (see lib.special_next).
itertools.islice(it, [start,] stop [, step])     (CPython's islice_next, Modules/itertoolsmodule.c)
    keeps two counters in ITS OWN coordinates: cnt = how many values it has pulled from `it`, nxt = the index (in those
    coordinates) of the next value to deliver.  next():  pull (and drop) nxt - cnt values;  if stop is given and
    nxt >= stop: exhausted;  pull one more value and deliver it;  cnt = nxt + 1;  nxt = min(nxt + step, stop).  If `it`
    runs out at any pull: exhausted (for good).  Nothing is pulled when the islice is created.  Negative / zero
    arguments: ValueError at creation.  islice(it, n) keeps the older encoding of lib.lib_islice (a cursor limit).
zip(range(n), it)
    pairs (k, v_k); asks range first, so that `it` is not touched once n pairs were delivered: at most n values are pulled.
collections.deque([iterable], maxlen=m)
    a list with a bound: append / appendleft on a full deque drop the item at the other end; pop / popleft raise
    IndexError when empty; deque(iterable, maxlen=m) keeps the last m values and exhausts the iterable.  Encoded as a
    list cell (symbolic length) plus the ghost table State.notes['deques'] : cell id -> maxlen term (None: unbounded).
"""
from .smt import T, TRUE, FALSE, I, NOT, AND, OR, EQ, CMP, ADD, SUB, MUL, ITE, lit_int
from .sym import Num, Bool, Opaque, Ref, Fun, Tup, View, IterCell, LstCell, PyListCell, NONE, NoneV


def U(msg):
    from .interp import Unsupported
    return Unsupported(msg)


NOTE_COUNT = "library contract (tier A): itertools.count(start, step) delivers start, start+step, ... without end"
NOTE_ISLICE = ("library contract (tier A): itertools.islice(it, start, stop, step) pulls from `it` only when asked for a value: "
               "it skips up to its next index, stops without pulling once that index reaches stop, else delivers one value "
               "(CPython islice_next); ValueError for negative arguments / step < 1")
NOTE_ZIP = "library contract (tier A): zip(range(n), it) pulls at most n values of `it` (range is asked first)"
NOTE_DEQUE = ("library contract (tier A): collections.deque -- a list bounded by maxlen (append/appendleft on a full deque drop "
              "the item at the other end; pop/popleft raise IndexError when empty; deque(it, maxlen=m) keeps the last m values)")


def raise_or_safety(ip, st, cond, exc, tag, what):
    """fork: `exc` is raised when cond holds (an obligation `what` if the function may not raise it); st continues under not cond"""
    if cond.s == "false":
        return
    bad = st.fork(cond, tag)
    if ip.may_catch(bad, exc):
        ip.raise_(bad, exc)
    else:
        ip.emit("safety", what, bad, FALSE)
    st.assume(NOT(cond))


def is_none(v):
    return v is None or isinstance(v, NoneV)


def plain_iter(st, v):
    if isinstance(v, Ref) and isinstance(st.heap.get(v.cid), IterCell):
        c = st.heap[v.cid]
        if getattr(c, "kind", None) is None and getattr(c, "live", None) is None:
            return c
    return None


def copy_cell(cell, cursor):
    nc = IterCell(cell.src, cursor, cell.name, cell.limit)
    for a in ("live", "upstream", "shared"):
        if hasattr(cell, a):
            setattr(nc, a, getattr(cell, a))
    return nc


def copy_special(cell, **kw):
    nc = IterCell(cell.src, cell.cursor, cell.name, cell.limit)
    for a in ("kind", "nextval", "step", "stop", "has_stop", "under", "cnt", "nxt", "done"):
        if hasattr(cell, a):
            setattr(nc, a, getattr(cell, a))
    for k, v in kw.items():
        setattr(nc, k, v)
    return nc


def term_of_step(step):
    return step if hasattr(step, "s") else I(step)


# --------------------------------------------------------------------------- itertools.count
def lib_count(ip, st, pos, kws):
    if len(pos) > 2 or any(k not in ("start", "step") for k in kws):
        raise U("itertools.count(...) form")
    start = pos[0] if pos else kws.get("start", Num(I(0)))
    step = pos[1] if len(pos) > 1 else kws.get("step", Num(I(1)))
    for v in (start, step):
        if isinstance(v, (Num, Bool)):
            continue
        if isinstance(v, (NoneV, Tup, View)) or type(v).__name__ == "Str" or (isinstance(v, Opaque) and v.sort == "Key") or \
                (isinstance(v, Ref) and not type(st.heap[v.cid]).__name__ == "ObjCell"):
            # "a number is required"
            if ip.may_catch(st, "TypeError"):
                ip.raise_(st, "TypeError")
            else:
                ip.emit("safety", "count-arguments-are-numbers", st, FALSE)
            return []
        raise U("itertools.count(%r)" % (v,))
    ip.assumptions.add(NOTE_COUNT)
    cell = IterCell(None, I(0))
    cell.kind = "arith"
    cell.nextval, cell.step = ip.num(start), ip.num(step)
    cell.stop, cell.has_stop = I(0), FALSE
    cell.fresh_count = True          # nothing delivered yet (islice over it is modelled for count(0) only)
    return [(st, ip.new_cell(st, cell))]


# --------------------------------------------------------------------------- itertools.islice
def islice_args(ip, st, args):
    """(start, stop, has_stop, step) as terms; forks ValueError for values islice rejects"""
    if len(args) == 1:
        start, stop, step = None, args[0], None
    elif len(args) == 2:
        start, stop, step = args[0], args[1], None
    elif len(args) == 3:
        start, stop, step = args
    else:
        # islice(it) / more than four arguments: TypeError
        if ip.may_catch(st, "TypeError"):
            ip.raise_(st, "TypeError")
        else:
            ip.emit("safety", "islice-argument-count", st, FALSE)
        return None
    bad = []
    terms = []
    for v, dflt in ((start, I(0)), (stop, None), (step, I(1))):
        if is_none(v):
            terms.append(dflt)
        elif isinstance(v, Num) and v.sort == "Int" and not getattr(v, "decimal", False):
            terms.append(v.t)
        elif isinstance(v, Bool):
            terms.append(ip.num(v))
        elif isinstance(v, Num):
            # a float has no __index__: "Indices for islice() must be None or an integer"
            bad.append(TRUE)
            terms.append(I(0))
        else:
            raise U("islice argument %r" % (v,))
    s_t, e_t, k_t = terms
    bad.append(CMP("<", s_t, I(0)))
    if e_t is not None:
        bad.append(CMP("<", e_t, I(0)))
    bad.append(CMP("<", k_t, I(1)))
    raise_or_safety(ip, st, OR(*bad), "ValueError", "isl!.", "islice-arguments-nonnegative")
    return s_t, (e_t if e_t is not None else I(0)), (TRUE if e_t is not None else FALSE), k_t


def lib_islice(ip, st, pos, kws):
    from . import lib as _lib
    if kws or not pos:
        raise U("islice form")
    it = pos[0]
    if not (isinstance(it, Ref) and isinstance(st.heap.get(it.cid), IterCell)):
        raise U("islice over %r" % (it,))
    cell = st.heap[it.cid]
    kind = getattr(cell, "kind", None)
    if kind is None and len(pos) == 2 and getattr(cell, "live", None) is None:
        return _lib.lib_islice(ip, st, pos, kws)          # islice(it, n): the cursor-limit encoding
    ip.assumptions.add(NOTE_ISLICE)
    a = islice_args(ip, st, pos[1:])
    if a is None:
        return []
    s_t, e_t, has, k_t = a
    if kind == "arith":
        if getattr(cell, "fresh_count", False) and len(pos) == 2 and not cell.has_stop.s == "true" \
                and not (cell.nextval.s == "0" and term_of_step(cell.step).s == "1"):
            # islice(count(a, step), n) over a NEW count: the n values a + i*step, i < n (numbers are mathematical: the
            # repeated addition count() performs is a + i*step).  The count object itself is used up here: it is replaced
            # by a cell no other operation accepts, so a later use of it is out-of-subset instead of wrong.
            a0, k0 = cell.nextval, term_of_step(cell.step)
            n0 = ITE(CMP("<", e_t, I(0)), I(0), e_t)
            dead = IterCell(None, I(0))
            dead.kind = "used-up-count"
            st.heap[it.cid] = dead
            return [(st, ip.new_cell(st, IterCell(View(n0, lambda i: Num(ADD(a0, MUL(k0, i)))), I(0))))]
        if not (getattr(cell, "fresh_count", False) and cell.nextval.s == "0" and term_of_step(cell.step).s == "1"):
            raise U("islice over an arithmetic iterator other than a new itertools.count(0)")
        nc = IterCell(None, I(0))
        nc.kind = "arith"
        nc.nextval, nc.step, nc.stop, nc.has_stop = s_t, k_t, e_t, has
        return [(st, ip.new_cell(st, nc))]
    if plain_iter(st, it) is None:
        raise U("islice over a special iterator")
    nc = IterCell(None, I(0))
    nc.kind = "islice"
    nc.under, nc.cnt, nc.nxt, nc.step, nc.stop, nc.has_stop, nc.done = it, I(0), s_t, k_t, e_t, has, False
    return [(st, ip.new_cell(st, nc))]


def clamp_next(cell, x):
    return ITE(AND(cell.has_stop, CMP(">", x, cell.stop)), cell.stop, x)


def set_under_cursor(ip, st, under, cur):
    from .stmts import sync_shared
    nu = copy_cell(st.heap[under.cid], cur)
    st.heap[under.cid] = nu
    sync_shared(ip, st, nu)


def islice_next(ip, st, it, cell, default):
    def exhausted(ex):
        if default is not None:
            return [(ex, default)]
        if ip.may_catch(ex, "StopIteration"):
            ip.raise_(ex, "StopIteration")
        else:
            ip.emit("safety", "next-on-nonempty", ex, FALSE)
        return []
    if cell.done:
        return exhausted(st)
    ucell = plain_iter(st, cell.under)
    if ucell is None:
        raise U("islice over a special iterator")
    src, c = ucell.src, ucell.cursor
    n = src.len if ucell.limit is None else ITE(CMP("<", ucell.limit, src.len), ucell.limit, src.len)
    tgt = ADD(c, SUB(cell.nxt, cell.cnt))
    stopped = AND(cell.has_stop, CMP(">=", cell.nxt, cell.stop))
    deliver = AND(NOT(stopped), CMP("<", tgt, n))
    outs = []
    if deliver.s != "true":
        ex = st.fork(NOT(deliver), "E.")
        set_under_cursor(ip, ex, cell.under, ITE(CMP("<", tgt, n), tgt, n))
        ex.heap[it.cid] = copy_special(cell, done=True)
        outs += exhausted(ex)
    if deliver.s != "false":
        ok = st.fork(deliver, "V.")
        val = src.get(tgt)
        set_under_cursor(ip, ok, cell.under, ADD(tgt, I(1)))
        ok.heap[it.cid] = copy_special(cell, cnt=ADD(cell.nxt, I(1)), nxt=clamp_next(cell, ADD(cell.nxt, cell.step)))
        outs.append((ok, val))
    return outs


def loop_head_special(ip, h, it, start_cell, i_t):
    """state of a special iterator at the head of the i-th iteration of `for x in <it>` (i values delivered so far by this
    loop): a function of i alone, because only the loop itself advances its iterator"""
    cell = h.heap[it.cid]
    if cell.kind == "arith":
        h.heap[it.cid] = copy_special(start_cell, nextval=ADD(start_cell.nextval, MUL(i_t, term_of_step(start_cell.step))))
        return
    if cell.kind == "islice":
        first = EQ(i_t, I(0))
        last_idx = ADD(start_cell.nxt, MUL(SUB(i_t, I(1)), start_cell.step))          # own index of the value delivered last
        nxt = ITE(first, start_cell.nxt, clamp_next(start_cell, ADD(start_cell.nxt, MUL(i_t, start_cell.step))))
        h.heap[it.cid] = copy_special(start_cell, cnt=ITE(first, start_cell.cnt, ADD(last_idx, I(1))), nxt=nxt, done=False)
        # the underlying iterator: somewhere between where it was and its end (the invariant says where)
        ucell = plain_iter(h, start_cell.under)
        if ucell is None:
            raise U("islice over a special iterator")
        cur = ip.reg.new("isl$cur", "Int")
        h.assume(CMP("<=", ucell.cursor, cur))
        h.assume(CMP("<=", cur, ucell.src.len))
        set_under_cursor(ip, h, start_cell.under, cur)
        return
    raise U("for-loop over special iterator " + str(cell.kind))


# --------------------------------------------------------------------------- zip(range(n), it)
def zip_iter(ip, st, pos):
    if len(pos) != 2 or not isinstance(pos[0], View) or plain_iter(st, pos[1]) is None:
        raise U("zip over an iterator: only zip(range(n), <iterator>)")
    rng, it = pos
    cell = st.heap[it.cid]
    if cell.limit is not None or getattr(cell, "shared", None) is not None:
        raise U("zip over a limited iterator")
    ip.assumptions.add(NOTE_ZIP)
    c0, src = cell.cursor, cell.src
    pairs = View(src.len, lambda i: Tup([rng.get(SUB(i, c0)), src.get(i)]))
    nc = IterCell(pairs, c0, None, ADD(c0, rng.len))
    nc.shared = it
    return [(st, ip.new_cell(st, nc))]


# --------------------------------------------------------------------------- itertools.chain
def lib_chain(ip, st, pos, kws):
    """itertools.chain(xs, ys, ...) over sequences (lists / tuples; not iterators): the items of xs, then those of ys, ..."""
    if kws:
        raise U("chain form")
    views = []
    for p in pos:
        if isinstance(p, Ref) and isinstance(st.heap.get(p.cid), IterCell):
            raise U("itertools.chain over an iterator")
        views.append(ip.as_view(st, p))
    ip.assumptions.add("library contract (tier A): itertools.chain(xs, ys, ...) delivers the items of xs, then of ys, ...")
    total = I(0)
    for v in views:
        total = ADD(total, v.len)

    def get(i, views=views):
        def pick(k, off):
            if k == len(views) - 1:
                return views[k].get(SUB(i, off))
            end = ADD(off, views[k].len)
            return ip.ite_sv(CMP("<", i, end), views[k].get(SUB(i, off)), pick(k + 1, end))
        return pick(0, I(0))
    src = View(total, get) if views else ip.items_view([])
    src.chain_parts = views          # (lib_graph.zip_concrete: the chained sequences, when all of concrete length)
    return [(st, ip.new_cell(st, IterCell(src, I(0))))]


# --------------------------------------------------------------------------- slice()
def builtin_slice(ip, st, pos):
    if len(pos) == 1:
        items = [NONE, pos[0], NONE]
    elif len(pos) == 2:
        items = [pos[0], pos[1], NONE]
    elif len(pos) == 3:
        items = list(pos)
    else:
        if ip.may_catch(st, "TypeError"):
            ip.raise_(st, "TypeError")
        else:
            ip.emit("safety", "slice-argument-count", st, FALSE)
        return []
    t = Tup(items)
    t.ntfields = ["start", "stop", "step"]          # a slice object: only its three attributes are read
    return [(st, t)]


# --------------------------------------------------------------------------- collections.deque
def deque_table(st):
    return st.notes.get("deques", {})


def is_deque(st, v):
    return isinstance(v, Ref) and not v.path and v.cid in deque_table(st)


def shifted(ip, t, off, length):
    """list term: items t[off], t[off+1], ... (length items)"""
    return T("(mk_%s (lambda ((si Int)) (select %s (+ si %s))) %s)" % (t.sort, ip.reg.l_arr(t).s, off.s, length.s), t.sort)


def lib_deque(ip, st, pos, kws):
    from .builtins_ import consume_view
    if len(pos) > 2 or any(k != "maxlen" for k in kws):
        raise U("deque(...) form")
    ip.assumptions.add(NOTE_DEQUE)
    maxlen = pos[1] if len(pos) > 1 else kws.get("maxlen")
    m = None
    if not is_none(maxlen):
        if not (isinstance(maxlen, Num) and maxlen.sort == "Int"):
            raise U("deque maxlen %r" % (maxlen,))
        m = maxlen.t
        raise_or_safety(ip, st, CMP("<", m, I(0)), "ValueError", "dq!.", "deque-maxlen-nonnegative")
    sort = ip.reg.lst("V")
    if not pos:
        t = ip.reg.l_empty_canonical(sort)
    else:
        v = consume_view(ip, st, pos[0])
        vt = getattr(v, "term", None)
        if vt is None:
            if v.items is not None and not v.items:
                vt = ip.reg.l_empty_canonical(sort)
            else:
                from .calls import materialise
                from .builtins_ import sv_lst_sort
                vt = materialise(ip, st, v, sv_lst_sort(ip, v.get(I(0))))
        if m is None:
            t = vt
        else:
            n = ip.reg.l_len(vt)
            keep = ITE(CMP("<", n, m), n, m)
            t = shifted(ip, vt, SUB(n, keep), keep)
    r = ip.new_cell(st, LstCell(t))
    tab = dict(deque_table(st))
    tab[r.cid] = m
    st.notes["deques"] = tab
    return [(st, r)]


def deque_method(ip, st, recv, name, pos, kws):
    from .builtins_ import elem_term
    reg = ip.reg
    m = deque_table(st)[recv.cid]
    t = ip.deref(st, recv)
    n = reg.l_len(t)
    el = reg.lst_elem[t.sort]
    if m is not None:
        st.assume(CMP("<=", n, m))            # a bounded deque never holds more than maxlen items
    if name in ("append", "appendleft"):
        from .dicts import note_store
        note_store(ip, st, recv, pos[0])
        v = elem_term(ip, st, pos[0], el)
        arr = reg.l_arr(t).s
        room = TRUE if m is None else CMP("<", n, m)
        newlen = ITE(room, ADD(n, I(1)), n) if m is None else ITE(room, ADD(n, I(1)), m)
        if name == "append":
            off = ITE(room, I(0), I(1))
            lam = "(lambda ((si Int)) (ite (= si %s) %s (select %s (+ si %s))))" % (SUB(newlen, I(1)).s, v.s, arr, off.s)
        else:
            lam = "(lambda ((si Int)) (ite (= si 0) %s (select %s (- si 1))))" % (v.s, arr)
        ip.store(st, recv, T("(mk_%s %s %s)" % (t.sort, lam, newlen.s), t.sort))
        return [(st, NONE)]
    if name == "popleft":
        empty = EQ(n, I(0))
        if ip.may_catch(st, "IndexError"):
            bad = st.fork(empty, "ie.")
            ip.raise_(bad, "IndexError")
            st.assume(NOT(empty))
            st.trace += "ii."
        else:
            ip.emit("safety", "pop-from-nonempty", st, NOT(empty))
            st.assume(NOT(empty))
        v = ip.wrap(reg.l_get(t, I(0)))
        ip.store(st, recv, shifted(ip, t, I(1), SUB(n, I(1))))
        return [(st, v)]
    if name in ("pop", "__len__", "__iter__"):
        if name == "pop" and pos:
            raise U("deque.pop takes no argument")
        return None          # as for a list
    raise U("deque method " + name)


# --------------------------------------------------------------------------- abstract callables on lists of flow values
class StarArgs(object):
    """marker: the positional arguments of a call c(*xs) with xs a sequence of symbolic length"""

    def __init__(self, seq):
        self.seq = seq


def list_call_term(ip, el_t, lst_t, star):
    """el_call_seq(c, xs) = c(xs) and el_call_star(c, xs) = c(*xs) for an abstract callable c and a list xs of flow
    values: (uninterpreted) functions of the callable and of the ITEMS of the list -- two lists with the same items give
    the same result (congruence axiom: a list term is an (array, length) pair, the array is irrelevant beyond the length)"""
    reg = ip.reg
    sort = reg.lst("V")
    name = "el_call_star" if star else "el_call_seq"
    f = reg.ufun(name, ["Obj", sort], "V")
    ax = T("(forall ((c Obj) (a %s) (b %s)) (! (=> (and (= (len_%s a) (len_%s b)) (forall ((i Int)) (=> (and (<= 0 i) (< i (len_%s a))) "
           "(= (select (arr_%s a) i) (select (arr_%s b) i))))) (= (%s c a) (%s c b))) :pattern ((%s c a) (%s c b))))"
           % (sort, sort, sort, sort, sort, sort, sort, f, f, f, f), "Bool")
    if not any(x.s == ax.s for x in reg.axioms):
        reg.axioms.append(ax)
    return T("(%s %s %s)" % (f, el_t.s, lst_t.s), "V")


def abstract_call_on_list(ip, st, el, arg):
    star = isinstance(arg, StarArgs)
    v = arg.seq if star else arg
    t = None
    if isinstance(v, Ref) and isinstance(st.heap.get(v.cid), LstCell):
        t = ip.deref(st, v)
    elif isinstance(v, View) and getattr(v, "term", None) is not None:
        t = v.term
    if t is None or t.sort != ip.reg.lst("V"):
        return None
    ip.assumptions.add("element interface: an abstract callable applied to a list of flow values (c(xs), c(*xs)) denotes a "
                       "function of the callable and the items of the list")
    if ip.may_catch(st, "Exception") and not ip.spec_mode:
        p = ip.reg.ufun("el_call_list_raises", ["Obj", ip.reg.lst("V")], "Bool")
        cond = T("(%s %s %s)" % (p, el.t.s, t.s), "Bool")
        bad = st.fork(cond, "uexc.")
        ip.raise_(bad, "Exception")
        st.assume(NOT(cond))
    return [(st, Opaque(list_call_term(ip, el.t, t, star)))]


# --------------------------------------------------------------------------- all / any over a generator expression
def all_any_sequential(ip, e, st, usual):
    """all(elt for x in xs) / any(...) over a sequence of CONCRETE length whose items fork or raise when evaluated (calls
    of contracts with `raises`): python evaluates the items one by one and stops at the first false (true) one -- later
    items are not evaluated, their exceptions do not occur.  Tried only when the usual functional encoding (a quantifier
    over the items) refuses the expression because an item forks; the state is rolled back before."""
    import ast
    from .interp import Unsupported
    if not (isinstance(ip.lookup(e.func.id, st), Fun) and ip.lookup(e.func.id, st).kind == "builtin"):
        return None
    nv, ne = len(ip.vcs), len(ip._exc_out)
    saved = st.copy()
    try:
        return usual()
    except Unsupported as ex:
        if "forks in a non-forking context" not in str(ex):
            raise
    del ip.vcs[nv:]
    del ip._exc_out[ne:]
    st.env, st.heap, st.pc, st.notes, st.trace = saved.env, saved.heap, saved.pc, saved.notes, saved.trace
    is_all = e.func.id == "all"
    gexp = e.args[0]
    if len(gexp.generators) != 1 or gexp.generators[0].is_async or gexp.generators[0].ifs:
        raise U("all/any over a generator expression with filters or several loops whose items fork")
    g = gexp.generators[0]
    names = [n.id for n in ast.walk(g.target) if isinstance(n, ast.Name)]
    results = []

    def done(s, val, outer):
        for n in names:          # the loop variable lives in the scope of the generator expression only
            if n in outer:
                s.env[n] = outer[n]
            else:
                s.env.pop(n, None)
        results.append((s, Bool(TRUE if val else FALSE)))
    for s0, itv in ip.ev(g.iter, st):
        if isinstance(itv, Ref) and isinstance(s0.heap.get(itv.cid), IterCell):
            raise U("all/any over an iterator whose items fork")
        items = ip.as_view(s0, itv).items
        if items is None:
            raise U("all/any over a sequence of symbolic length whose items fork")
        outer = {n: s0.env[n] for n in names if n in s0.env}

        def go(k, s):
            if k == len(items):
                done(s, is_all, outer)
                return
            ip.bind_target(g.target, items[k], s)
            for s2, v in ip.ev(gexp.elt, s):
                c = ip.truth(s2, v)
                stop = NOT(c) if is_all else c
                if stop.s == "true":
                    done(s2, not is_all, outer)
                    continue
                if stop.s != "false":
                    done(s2.fork(stop, "sc%d." % k), not is_all, outer)
                    s2 = s2.fork(NOT(stop), "nx%d." % k)
                go(k + 1, s2)
        go(0, s0)
    return results


# --------------------------------------------------------------------------- closures stored in fields
def make_closure(ip, name, fields):
    """field type Closure[name]: ContractIndex.closures[name] = (lambda source text, {free variable: field name},
    {free variable: key of a library function}).  The value is the function object python creates from that lambda
    expression in an environment where the free variables have the values of the named fields."""
    import ast
    reg = getattr(ip.contracts, "closures", {})
    if name not in reg:
        raise U("Closure[%s]: not registered" % name)
    text, from_fields, from_lib = reg[name]
    node = ast.parse(text, mode="eval").body
    if not isinstance(node, ast.Lambda):
        raise U("Closure[%s]: not a lambda expression" % name)
    env = {}
    for var, fld in from_fields.items():
        if fld not in fields:
            raise U("Closure[%s]: field %s must be declared before the closure" % (name, fld))
        env[var] = fields[fld]
    for var, key in from_lib.items():
        impl = ip.contracts.lib.get(key)
        if impl is None:
            raise U("Closure[%s]: no library contract for %r" % (name, key))
        env[var] = Fun("lib", name=key[1], mod=key[0], impl=impl)
    return Fun("lambda", node=node, env=env)


LIB = {("itertools", "count"): lib_count, ("itertools", "islice"): lib_islice,
       ("collections", "deque"): lib_deque}
# (itertools.chain over sequences: lib_chain above, reached through lib_run.lib_chain which owns the library key)


def register(ix):
    ix.lib.update(LIB)
