"""A user callable applied to a CONTEXT VALUE (`self._predicate(subcontext)` in SelectContext.__call__).

el(x) for an abstract callable el (sort Obj) and a nested-dictionary value x (sort Val) denotes a function of both:
    el_ctx_call(el, x) : V             what it returns (any python object: its truth value is v_truthy)
    el_ctx_raises(el, x) : Bool        it raises instead
    el_ctx_raises_<C>(el, x) : Bool    ... an instance of the exception class C
A user callable may raise an exception of ANY class.  Which class matters exactly for the handlers that are active at the
call (and the classes the contract under proof names in `raises`): for every such class C other than Exception itself
there is one outcome "raises an instance of C" (most specific classes first, an instance of a listed subclass is reported
as that subclass), and one outcome "raises something else" (class Exception).  A handler `except LenaKeyError` around the
call therefore catches SOME of the callable's exceptions, `except Exception` all of them."""
from .smt import T, NOT, AND, OR
from .sym import Opaque, Ref, ValCell, ExcV


def is_context_value(st, v):
    return (isinstance(v, Opaque) and v.sort == "Val") or (isinstance(v, Ref) and isinstance(st.heap.get(v.cid), ValCell))


def terms(ip, st, el, arg):
    from .dicts import dterm
    reg = ip.reg
    reg.need_val()
    reg.need("Obj")
    reg.need("V")
    x = dterm(ip, st, arg)
    call = T("(%s %s %s)" % (reg.ufun("el_ctx_call", ["Obj", "Val"], "V"), el.t.s, x.s), "V")
    raises = T("(%s %s %s)" % (reg.ufun("el_ctx_raises", ["Obj", "Val"], "Bool"), el.t.s, x.s), "Bool")
    return x, call, raises


def raises_class(ip, el, x, cls):
    f = ip.reg.ufun("el_ctx_raises_%s" % cls, ["Obj", "Val"], "Bool")
    return T("(%s %s %s)" % (f, el.t.s, x.s), "Bool")


def call_on_context(ip, st, el, arg):
    """outcomes of el(arg); None when arg is not a context value"""
    if not is_context_value(st, arg):
        return None
    x, call, raises = terms(ip, st, el, arg)
    ip.assumptions.add("element interface: a user callable applied to a context value denotes a function of the callable "
                       "and the value (result, whether it raises, and of which of the exception classes handled around "
                       "the call the exception is an instance)")
    if ip.spec_mode:
        return [(st, Opaque(call))]
    cands = list(st.catching) + (list(ip.c.raises) if ip.c is not None else [])
    specific = []
    for c in cands:
        if c != "Exception" and ip.is_subclass(c, "Exception") and c not in specific:
            specific.append(c)
    # most specific first: a class comes before the listed classes it is derived from
    specific.sort(key=lambda c: -sum(1 for d in specific if ip.is_subclass(c, d)))
    seen = []
    for c in specific:
        inst = raises_class(ip, el, x, c)
        cond = AND(raises, inst, *[NOT(s) for s in seen])
        bad = st.fork(cond, "uexc%s." % c[:6])
        ip.raise_(bad, c)
        seen.append(inst)
    other = AND(raises, *[NOT(s) for s in seen])
    if ip.may_catch(st, "Exception"):
        bad = st.fork(other, "uexc.")
        ip.raise_(bad, "Exception")
        st.assume(NOT(raises))
    else:
        # (as for the other forms of the element interface: an exception nothing here observes is not explored)
        if seen:
            st.assume(NOT(AND(raises, OR(*seen))))
    return [(st, Opaque(call))]
