"""Calls: builtins, methods of python containers, inlined closures, contracts of repository functions,
the abstract element interface, specification functions."""
import ast

from .smt import (T, TRUE, FALSE, I, R, NOT, AND, OR, IMP, ITE, EQ, ADD, SUB, MUL, NEG, CMP, to_real, lit_int)
from .sym import (SV, Num, Bool, NoneV, NONE, Str, Opaque, Tup, Ref, View, Fun, ExcV, Module, Sentinel,
                  LstCell, PyListCell, ValCell, PyDictCell, ObjCell, IterCell, State)


def U(msg):
    from .interp import Unsupported
    return Unsupported(msg)


def do_call(ip, e, st):
    outs = []
    if ip.spec_mode and isinstance(e.func, ast.Name) and e.func.id in SPEC_FORMS:
        return [(st, SPEC_FORMS[e.func.id](ip, e, st))]
    if not ip.spec_mode and isinstance(e.func, ast.Name) and e.func.id in ("all", "any") and len(e.args) == 1 \
            and not e.keywords and isinstance(e.args[0], ast.GeneratorExp):
        # all(<genexp>) / any(<genexp>) whose items fork or raise when evaluated: item by item with python's short
        # circuit (only where the functional encoding below refuses the expression: nothing changes for the others)
        from .lib_flow import all_any_sequential
        r = all_any_sequential(ip, e, st, lambda: do_call_(ip, e, st))
        if r is not None:
            return r
    return do_call_(ip, e, st)


def do_call_(ip, e, st):
    outs = []
    for s, f in ip.ev(e.func, st):
        # arguments (left to right)
        pos_exprs, splice = [], []
        for a in e.args:
            if isinstance(a, ast.Starred):
                splice.append(len(pos_exprs))
                pos_exprs.append(a.value)
            else:
                pos_exprs.append(a)
        kw_names = [k.arg for k in e.keywords]
        for s2, vals in ip.ev_many(pos_exprs + [k.value for k in e.keywords], s):
            if isinstance(f, NoneV) and not ip.spec_mode:
                # calling None: TypeError ('NoneType' object is not callable) once the arguments have been evaluated
                if ip.may_catch(s2, "TypeError"):
                    ip.raise_(s2, "TypeError")
                else:
                    ip.emit("safety", "callee-is-callable", s2, FALSE)
                continue
            pos = []
            for idx, v in enumerate(vals[:len(pos_exprs)]):
                if idx in splice:
                    if isinstance(v, Ref) and type(s2.heap.get(v.cid)).__name__ == "IterCell":
                        from .lib_graph import concrete_iter_items      # f(*iter(<tuple>)): the remaining items, consumed
                        its = concrete_iter_items(ip, s2, v)
                        if its is None:
                            raise U("*args from an iterator whose items are not known")
                        v = Tup(its)
                    view = ip.as_view(s2, v)
                    if view.items is None:
                        if isinstance(f, Fun) and f.kind == "lib" and getattr(f.impl, "star_view", False) and len(pos_exprs) == 1:
                            # a library function whose contract is stated over the argument SEQUENCE (zip_longest(*its))
                            from .lib_acc import StarView
                            pos.append(StarView(view))
                            continue
                        k0 = getattr(f, "contract", None) if isinstance(f, Fun) else None
                        alt = ip.contracts.by_key.get((k0.file, k0.qual + "#variadic")) if k0 is not None else None
                        if alt is not None and len(pos_exprs) == 1 and not e.keywords:
                            # f(*xs) with xs of symbolic length: the contract case that takes the argument list as ONE sequence
                            f = Fun("contract", contract=alt)
                            pos.append(v)
                            continue
                        if isinstance(f, Opaque) and f.sort == "Obj" and len(pos_exprs) == 1 and not e.keywords:
                            # an abstract callable applied to *xs: a function of the callable and the argument sequence
                            from .lib_flow import StarArgs
                            pos.append(StarArgs(v))
                            continue
                        if isinstance(f, Fun) and f.kind == "method" and f.name == "format" and len(pos_exprs) == 1 \
                                and not e.keywords and ip.c is not None and ip.c.ghost.get("str_format_abstract") \
                                and (isinstance(f.recv, Str) or (isinstance(f.recv, Opaque) and f.recv.sort == "Key")):
                            # fmt.format(*xs) under the abstract model of str.format (pyvc/lib_fmt.py)
                            from .lib_flow import StarArgs
                            pos.append(StarArgs(v))
                            continue
                        raise U("star-call with a sequence of symbolic length")
                    pos += view.items
                else:
                    pos.append(v)
            kws = {}
            for kn, kv in zip(kw_names, vals[len(pos_exprs):]):
                if kn is None:
                    # f(**d): d must be a dictionary with concrete string keys (a **kwargs dictionary, a display): its
                    # items become keyword arguments (python raises TypeError for a keyword given twice)
                    if not (isinstance(kv, Ref) and isinstance(s2.heap[kv.cid], PyDictCell)):
                        raise U("**kwargs call with a dictionary whose keys are not known")
                    for dk, dv in s2.heap[kv.cid].items.items():
                        if dk in kws or dk in kw_names:
                            raise U("**kwargs call: keyword %s given twice" % dk)
                        kws[dk] = dv
                else:
                    kws[kn] = kv
            outs += call_value(ip, s2, f, pos, kws, e)
    return outs


def call_value(ip, st, f, pos, kws, node=None):
    if not isinstance(f, Fun):
        if isinstance(f, Opaque) and f.sort == "Obj":
            return elem_call(ip, st, f, "__call__", pos, kws)
        if isinstance(f, Ref) and isinstance(st.heap[f.cid], ObjCell):
            k = ip.contracts.find_method(st.heap[f.cid].cls, "__call__")
            if k is not None:
                return apply_contract(ip, st, k, [f] + pos, kws)
        raise U("call of non-function %r" % (f,))
    k = f.kind
    if k == "builtin":
        from .builtins_ import call_builtin
        return call_builtin(ip, st, f.name, pos, kws, node)
    if k == "namedtuple":
        # a collections.namedtuple class: the instance IS a tuple of its fields (equality, indexing, isinstance(.., tuple));
        # the field names are kept for attribute access
        names = list(f.fields)
        if len(pos) > len(names) or any(kw not in names[len(pos):] for kw in kws) or len(pos) + len(kws) != len(names):
            raise U("namedtuple %s called with the wrong arguments" % f.name)
        t = Tup(list(pos) + [kws[n] for n in names[len(pos):]])
        t.ntfields = names
        return [(st, t)]
    if k == "exc":
        return [(st, ExcV(f.name, tuple(pos)))]
    if k == "lambda":
        return inline_lambda(ip, st, f, pos, kws)
    if k == "def":
        return inline_def(ip, st, f, pos, kws)
    if k == "contract":
        return apply_contract(ip, st, f.contract, pos, kws)
    if k == "bound":
        if f.contract.self_class == "static":
            return apply_contract(ip, st, f.contract, pos, kws)          # @staticmethod: no self
        return apply_contract(ip, st, f.contract, [f.self_ref] + pos, kws)
    if k == "method":
        from .builtins_ import call_method
        return call_method(ip, st, f.recv, f.name, pos, kws, node)
    if k == "elem-method":
        return elem_call(ip, st, f.elem, f.name, pos, kws)
    if k == "spec":
        return [(st, call_spec(ip, st, f.name, pos, kws))]
    if k == "lib":
        return f.impl(ip, st, pos, kws)
    if k == "absfn":
        from .histlib import call_absfn
        return call_absfn(ip, st, f, pos, kws)
    if k == "class":
        return instantiate(ip, st, f, pos, kws)
    if k == "unbound":
        # executing a load of an unbound global raises NameError
        if ip.may_catch(st, "NameError"):
            ip.raise_(st, "NameError")
        else:
            ip.emit("safety", "name-%s-bound" % f.name, st, FALSE)
        return []
    if k == "moddef":
        c = ip.contracts.find(f.name, f.mod.relpath)
        if c is not None:
            return apply_contract(ip, st, c, pos, kws)
        ov = (ip.c.ghost.get("assumed_callees") if ip.c is not None else None) or {}
        if f.name in ov and ov[f.name].file == f.mod.relpath and st.depth == 0:
            # a helper that has no registered contract but an assumed one inside THIS unit (see apply_contract)
            return apply_contract(ip, st, ov[f.name], pos, kws)
        # a module-level helper without a contract: executed in place from its real AST (not modular; listed in the
        # evidence as an inlined helper); generators and recursion are refused
        c = auto_inline_contract(ip, f.mod.relpath, f.name)
        if c is not None:
            return inline_contract(ip, st, c, pos, kws)
        raise U("call of %s.%s: no contract" % (f.mod.modname, f.name))
    if k == "external":
        raise U("call of external %s.%s: no library contract" % (f.mod, f.name))
    raise U("call of Fun kind " + k)


# --------------------------------------------------------------------------- closures
def bind_args(ip, st, fnnode, pos, kws, env, selfv=None):
    a = fnnode.args
    names = [x.arg for x in a.args]
    new = dict(env)
    vals = list(pos)
    if selfv is not None:
        vals = [selfv] + vals
    if len(vals) > len(names) and not a.vararg:
        raise U("too many arguments")
    for n, v in zip(names, vals):
        new[n] = v
    if a.vararg:
        new[a.vararg.arg] = Tup(vals[len(names):])
    defaults = a.defaults
    dstart = len(names) - len(defaults)
    for idx, n in enumerate(names):
        if n in new and idx < len(vals):
            continue
        if n in kws:
            new[n] = kws[n]
        elif idx >= dstart:
            tmp = State(env, st.heap, st.pc)
            new[n] = ip.ev1(defaults[idx - dstart], tmp)
        else:
            raise U("missing argument " + n)
    for ko, kd in zip(a.kwonlyargs, a.kw_defaults):
        if ko.arg in kws:
            new[ko.arg] = kws[ko.arg]
        elif kd is not None:
            new[ko.arg] = ip.ev1(kd, State(env, st.heap, st.pc))
    if a.kwarg:
        extra = {k: v for k, v in kws.items() if k not in names and k not in [x.arg for x in a.kwonlyargs]}
        new[a.kwarg.arg] = ip.new_cell(st, PyDictCell(extra))
    return new


def inline_lambda(ip, st, f, pos, kws):
    env = bind_args(ip, st, f.node, pos, kws, f.env)
    saved = st.env
    s2 = st.copy()
    s2.env = env
    outs = []
    # a lambda called from an inlined helper of ANOTHER module still resolves its global names in its own module
    saved_mod = ip.mod
    if getattr(f, "defmod", None) is not None:
        ip.mod = f.defmod
    n_exc0 = len(ip._exc_out)
    try:
        for s3, v in ip.ev(f.node.body, s2):
            s3.env = dict(saved)
            outs.append((s3, v))
    finally:
        ip.mod = saved_mod
    for s3, _exc in ip._exc_out[n_exc0:]:
        # an exception that leaves the lambda: the state goes on (into a handler of the caller) in the CALLER's frame
        if s3.env is env or (set(s3.env) == set(env) and all(s3.env[k] is env[k] for k in env)):
            s3.env = dict(saved)
    return outs


def inline_def(ip, st, f, pos, kws):
    """nested `def` called in the same function: inlined (its loops need specs under the parent's contract)"""
    from .stmts import exec_block
    env = bind_args(ip, st, f.node, pos, kws, f.env)
    env[f.node.name] = f
    saved = dict(st.env)
    s2 = st.copy()
    s2.env = env
    s2.depth += 1
    if s2.depth > 6:
        raise U("inlining depth (recursive nested def needs a contract)")
    outs = []
    n_exc0 = len(ip._exc_out)
    is_gen = any(isinstance(n, (ast.Yield, ast.YieldFrom)) for n in ast.walk(f.node))
    if is_gen:
        raise U("nested generator def")
    for kind, s3, payload in exec_block(ip, f.node.body, s2):
        s3.env = dict(saved)
        s3.depth -= 1
        if kind == "next":
            outs.append((s3, NONE))
        elif kind == "return":
            outs.append((s3, payload))
        elif kind == "raise":
            ip._exc_out.append((s3, payload))
        else:
            raise U("break/continue escaping a nested def")
    if len(outs) > 1 and getattr(ip, "bound_guards", None) and len(ip._exc_out) == n_exc0:
        m = merge_pure_outcomes(ip, st, outs)
        if m is not None:
            return m
    return outs


def merge_pure_outcomes(ip, st, outs):
    """the alternatives of a nested def called while the body of a quantifier is evaluated (no forking possible there): when
    the helper is PURE on every path -- no heap cell, note or binding differs from the caller's state, nothing was raised --
    the alternatives differ only in their path condition and result: one outcome, the caller's state, with the result
    `ite(path condition 1, result 1, ite(...))`.  None when the helper is not of this form (the caller then refuses the fork)."""
    from .interp import Unsupported
    n0 = len(st.pc)
    alts = []
    for s3, v in outs:
        if set(s3.heap) != set(st.heap) or any(s3.heap[k] is not st.heap[k] for k in st.heap):
            return None
        if s3.notes != st.notes or set(s3.env) != set(st.env) or any(s3.env[k] is not st.env[k] for k in st.env):
            return None
        if len(s3.pc) < n0 or any(a is not b for a, b in zip(s3.pc[:n0], st.pc)):
            return None
        alts.append((AND(*s3.pc[n0:]), v))
    res = alts[-1][1]
    try:
        for c, v in reversed(alts[:-1]):
            res = ip.ite_sv(c, v, res)
    except Unsupported:
        return None
    return [(st, res)]


# --------------------------------------------------------------------------- contracts
class Mismatch(Exception):
    pass


def conform(ip, st, v, ty):
    """convert a caller value to the callee's declared parameter type (or raise Mismatch)"""
    from .interp import parse_type
    head, args = parse_type(ty)
    if head == "Any":
        return v
    if head == "Dec":
        if isinstance(v, Num) and getattr(v, "decimal", False):
            return v
        raise Mismatch(ty)
    if head == "Real":
        if getattr(v, "decimal", False):
            raise Mismatch(ty)          # a Decimal is not handed to code typed for ints / floats (its arithmetic rounds)
        if isinstance(v, (Num, Bool)):
            return Num(to_real(ip.num(v)))
        raise Mismatch(ty)
    if head == "Int":
        if isinstance(v, Num) and v.sort == "Int":
            return v
        if isinstance(v, Bool):
            return Num(ip.num(v))
        raise Mismatch(ty)
    if head == "Bool":
        if isinstance(v, Bool):
            return v
        raise Mismatch(ty)
    if head == "None":
        if isinstance(v, NoneV):
            return v
        raise Mismatch(ty)
    if head in ("V", "Obj", "Key", "Val", "St"):
        if isinstance(v, Opaque) and v.sort == head:
            return v
        if head == "Val" and isinstance(v, Ref) and isinstance(st.heap[v.cid], ValCell):
            return v
        if head == "Val" and (isinstance(v, (Num, Bool, NoneV, Str)) or (isinstance(v, Opaque) and v.sort == "Key")):
            # a python scalar where a context value is expected: its denotation as a value (dicts.scalar)
            from .dicts import scalar
            return Opaque(scalar(ip, st, v))
        if head == "Key" and isinstance(v, Str):
            return Opaque(ip.reg.key(v.s))
        if head == "Val" and isinstance(v, Sentinel) and v.name.startswith("anon"):
            from .dicts import scalar          # a local `object()` sentinel passed where a context value is expected
            return Opaque(scalar(ip, st, v))
        if head == "Val" and isinstance(v, Ref) and not v.path and isinstance(st.heap.get(v.cid), PyDictCell) \
                and st.heap[v.cid].items and ip.c is not None and ip.c.dict_model == "Val":
            # (units with dict_model="Val" only) a non-empty dictionary display with literal keys
            # (`{"output": {"filetype": "tex"}}`) where a context VALUE is expected: its denotation (dicts.dterm), exactly
            # as for a ValCell argument of a `Val` parameter
            from .dicts import dterm
            from .interp import Unsupported
            try:
                return Opaque(dterm(ip, st, v))
            except Unsupported as e:
                raise Mismatch("%s (%s)" % (ty, e))
        raise Mismatch(ty)
    if head == "Dict":
        if isinstance(v, Ref) and isinstance(st.heap[v.cid], ValCell):
            return v
        raise Mismatch(ty)
    if head == "KeyMap":
        if isinstance(v, Ref) and type(st.heap[v.cid]).__name__ == "KeyMapCell" and not v.path:
            return v
        raise Mismatch(ty)
    if head == "Str":
        if isinstance(v, Str) and (not args or args[0].strip("'\"") == v.s):
            return v
        if isinstance(v, Opaque) and v.sort == "Key" and not args:
            return v
        raise Mismatch(ty)
    if head == "Sentinel":
        if isinstance(v, Sentinel) and v.name.endswith(args[0]):
            return v
        raise Mismatch(ty)
    if head == "Lst":
        sort = ip.lst_sort(args[0])
        if isinstance(v, Ref) and isinstance(st.heap[v.cid], LstCell) and ip.deref(st, v).sort == sort:
            return v
        if isinstance(v, View) and getattr(v, "term", None) is not None and v.term.sort == sort:
            return v
        if isinstance(v, Ref) and type(st.heap[v.cid]).__name__ == "KeyMapCell" and len(v.path) == 1 and ip.deref(st, v).sort == sort:
            # a list stored in a dict of lists (m[k]) handed to a callee: its content now (a snapshot; a callee that changes
            # its argument would have to say so in `modifies`, which is not supported for such an argument)
            return ip.lst_view(ip.deref(st, v))
        _src = ip.deref(st, v) if isinstance(v, Ref) and isinstance(st.heap[v.cid], LstCell) else getattr(v, "term", None) if isinstance(v, View) else None
        if _src is not None and ip.reg.is_lst(_src.sort) and args[0] != "Val" and \
                (ip.reg.lst_elem[_src.sort] in ("Int", "Real", "Bool")) != (ip.reg.lst_elem[sort] in ("Int", "Real", "Bool")):
            # a list of numbers is no list of abstract values / objects and vice versa (== between them is not modelled):
            # this case does not fit, another one may (case selection goes on instead of ending out-of-subset)
            raise Mismatch(ty)
        if args[0] == "Val":
            # a list of strings where a list of context values is expected: the strings embedded by key_as_val
            # (a canonical list term: the same strings give the same term)
            kt = None
            if isinstance(v, Ref) and isinstance(st.heap[v.cid], LstCell):
                kt = ip.deref(st, v)
            elif isinstance(v, View) and getattr(v, "term", None) is not None:
                kt = v.term
            if kt is not None and kt.sort == ip.reg.lst("Key"):
                from .dicts import key_as_val
                arr = "(lambda ((pi Int)) %s)" % key_as_val(ip, T("(select %s pi)" % ip.reg.l_arr(kt).s, "Key")).s
                return ip.lst_view(T("(mk_%s %s %s)" % (sort, arr, ip.reg.l_len(kt).s), sort))
        if ip.is_seq(st, v):
            # materialise: fresh list term equal to the view pointwise
            view = ip.as_view(st, v)
            have = getattr(view, "term", None)
            if have is not None and ip.reg.is_lst(have.sort) and {ip.reg.lst_elem[have.sort], ip.reg.lst_elem[sort]} != {"Int", "Real"} \
                    and ip.reg.lst_elem[have.sort] != ip.reg.lst_elem[sort]:
                raise Mismatch(ty)          # a list of another element sort (numbers / flow values / objects): another case may fit
            if view.items is not None and ip.reg.lst_elem[sort] in ("Int", "Real", "Bool") \
                    and any(not isinstance(x, (Num, Bool)) for x in view.items):
                raise Mismatch(ty)          # a list of lists / objects is not a list of numbers (another case may fit)
            if view.items is not None and ip.reg.is_lst(ip.reg.lst_elem[sort]):
                # a display of lists: every item must itself fit the element type (a row of flow values is no row of numbers)
                for x in view.items:
                    conform(ip, st, x, args[0])
            t = materialise(ip, st, view, sort)
            return ip.lst_view(t)
        raise Mismatch(ty)
    if head == "IterLst":
        if isinstance(v, Ref) and not v.path and type(st.heap[v.cid]).__name__ == "IterLstCell":
            return v
        raise Mismatch(ty)
    if head == "PyList":
        if isinstance(v, Ref) and isinstance(st.heap[v.cid], PyListCell) and len(st.heap[v.cid].items) == int(args[0]):
            if any("IterLst[" in a for a in args[1:]):
                for k, x in enumerate(st.heap[v.cid].items):      # (a display of lists of generators: item by item)
                    conform(ip, st, x, args[1 + k] if len(args) == int(args[0]) + 1 and int(args[0]) > 1 else args[1])
            return v
        if isinstance(v, Tup) and len(v.items) == int(args[0]):
            return v
        raise Mismatch(ty)
    if head == "Tuple":
        if isinstance(v, Tup) and len(v.items) == len(args):
            return Tup([conform(ip, st, x, a) for x, a in zip(v.items, args)])
        raise Mismatch(ty)
    if head == "KwDict":
        if isinstance(v, Ref) and isinstance(st.heap[v.cid], PyDictCell):
            kw_conform(ip, st, st.heap[v.cid].items, ty)
            return v
        raise Mismatch(ty)
    if head == "Iter":
        if isinstance(v, Ref) and isinstance(st.heap[v.cid], IterCell):
            return v
        raise Mismatch(ty)
    if head in ("Self", "Inst"):
        if isinstance(v, Ref) and isinstance(st.heap[v.cid], ObjCell):
            # two ClassSpecs of the SAME real class that type a common field differently describe different objects
            # (1-d / 2-d histogram, scale computed / not computed): such a case does not accept the object
            want, have = ip.contracts.classes.get(args[0] if args else None), ip.contracts.classes.get(st.heap[v.cid].cls)
            if want is not None and have is not None and want is not have \
                    and (want.alias_of or want.name) == (have.alias_of or have.name):
                for f, fty in want.fields.items():
                    if f in have.fields and have.fields[f].replace(" ", "") != fty.replace(" ", ""):
                        raise Mismatch("%s: field %s is %s in %s" % (ty, f, have.fields[f], have.name))
                    if f not in have.fields and fty.replace(" ", "").split("[")[0] in ("IterLst", "PyList") \
                            and "IterLst[" in fty and f in st.heap[v.cid].fields:
                        # a field the object's own spec does not type, declared by the wanted view as a list of generators
                        # (pyvc/lib_sib.py) or a display of such lists: decided by the value the field holds
                        conform(ip, st, st.heap[v.cid].fields[f], fty)
            return v
        raise Mismatch(ty)
    if head == "Fn":
        if isinstance(v, Fun) or (isinstance(v, Opaque) and v.sort == "Obj"):
            return v
        raise Mismatch(ty)
    if head == "OpaqueFn":
        if isinstance(v, Fun):
            return v          # (what is known about the callable is kept)
        raise Mismatch(ty)
    if head == "Def":
        # a parameter declared to hold THAT module-level function of the repository: the argument must be it
        modname, _, attr = args[0].strip().rpartition(".")
        want = ip.world.module_attr(modname, attr, ip)
        if isinstance(v, Fun) and isinstance(want, Fun) and v.kind == want.kind and (
                (v.kind == "contract" and v.contract is want.contract) or
                (v.kind == "moddef" and v.name == want.name and v.mod is want.mod)):
            return v
        raise Mismatch(ty)
    if head == "Lib":
        # a parameter that is a particular library / assumed user function: only that very function fits
        if isinstance(v, Fun) and v.kind == "lib" and getattr(v, "name", None) == args[0]:
            return v
        raise Mismatch(ty)
    if head in ("Tree", "KeySet", "TreeMap"):
        from .iet import conform_value          # include / exclude trees as values (pyvc/iet.py)
        r = conform_value(ip, st, v, head)
        if r is None:
            raise Mismatch(ty)
        return r
    raise U("conform to type " + ty)


def materialise(ip, st, view, sort):
    reg = ip.reg
    t = reg.new("mat", sort)
    st.assume(EQ(reg.l_len(t), view.len))
    el = reg.lst_elem[sort]
    if view.items is not None:
        try:
            # a list display of known length has a canonical term: the same values give the same term
            from .builtins_ import elem_term
            terms = [elem_term(ip, st, coerce_elem(ip, it, el), el) for it in view.items]
            reg.need(el)
            d = "|dflt:%s|" % el
            if not any(n == d for n, _ in reg.const_decls):
                reg.const_decls.append((d, el))
            arr = "((as const (Array Int %s)) %s)" % (el, d)
            for k, x in enumerate(terms):
                arr = "(store %s %d %s)" % (arr, k, x.s)
            reg.const_decls.pop() if False else None
            reg._unused = None
            # drop the fresh constant declared above: the canonical term replaces it
            return T("(mk_%s %s %d)" % (sort, arr, len(terms)), sort)
        except Exception:
            pass
        for k, it in enumerate(view.items):
            st.assume(ip.py_eq(st, ip.wrap(reg.l_get(t, I(k))), coerce_elem(ip, it, el)))
    else:
        q = T("q%d" % next(ip.bound), "Int")
        body = ip.py_eq(st, ip.wrap(reg.l_get(t, q)), coerce_elem(ip, view.get(q), el))
        st.assume(T("(forall ((%s Int)) (=> (and (<= 0 %s) (< %s %s)) %s))" % (q.s, q.s, q.s, view.len.s, body.s), "Bool"))
    return t


def coerce_elem(ip, v, el):
    if el == "Real" and isinstance(v, (Num, Bool)):
        return Num(to_real(ip.num(v)))
    return v


def spec_state(st, env):
    """state for evaluating a contract clause: callee parameter names only, caller heap and path condition shared"""
    s = State.__new__(State)
    s.env, s.heap, s.pc, s.trace, s.catching, s.depth, s.notes = env, st.heap, st.pc, st.trace, st.catching, st.depth, st.notes
    return s


def eval_spec(ip, st, env, text, old=None):
    """evaluate one contract clause (python expression text) to a Bool term in state st with names env"""
    ip.spec_mode += 1
    saved_old = ip.oldst
    if old is not None:
        ip.oldst = old
    try:
        s = spec_state(st, env)
        parts = split_implies(text)
        terms = []
        for p in parts:
            if terms and (terms[-1].s == "false" or ip.known(s, NOT(terms[-1]))):
                # the antecedent is refuted on this path: the consequent is not evaluated (it may be ill-typed here)
                terms.append(TRUE)
                break
            node = ip.contracts_parse(p)
            try:
                v = ip.ev1(node, s)
                terms.append(ip.truth(s, v))
            except Exception as e:
                unbound = type(e).__name__ == "Unsupported" and "unbound name in spec" in str(e)
                if not (unbound and len(parts) > 1) and \
                        (not terms or type(e).__name__ not in ("Unsupported", "KeyError", "IndexError", "AttributeError")):
                    raise
                # a consequent that is ill-typed on this path: an unknown truth value (provable only if the antecedent
                # is refuted; gives no information when assumed)
                terms.append(ip.reg.new("illtyped", "Bool"))
        res = terms[-1]
        for t in reversed(terms[:-1]):
            res = IMP(t, res)
        return res
    finally:
        ip.spec_mode -= 1
        ip.oldst = saved_old


def split_implies(text):
    """`a implies b implies c` (right associative), split textually at top level"""
    parts, depth, cur, i = [], 0, "", 0
    key = " implies "
    while i < len(text):
        c = text[i]
        if c in "([{":
            depth += 1
        elif c in ")]}":
            depth -= 1
        if depth == 0 and text.startswith(key, i):
            parts.append(cur)
            cur = ""
            i += len(key)
            continue
        cur += c
        i += 1
    parts.append(cur)
    return [p.strip() for p in parts]


def select_case(ip, st, c, args, kws):
    """pick the contract case whose parameter types accept the arguments"""
    if not c.cases:
        return c
    last = None
    for case in c.cases:
        try:
            env = bind_contract_args(ip, st, case, args, kws, dry=True)
            if c.ghost.get("select_by_requires") and case.requires and requires_refuted(ip, st, case, env):
                # opt-in (contracts/P_hist2.py graph.__init__): cases of the same typing that differ by a precondition
                # (which names are error names).  Every case whose types fit and whose precondition holds is applicable;
                # one whose precondition is refuted on this path is passed over instead of failing the call.
                last = Mismatch("precondition of %s refuted at the call" % case.name)
                continue
            return case
        except Mismatch as m:
            last = m
    raise U("no contract case of %s accepts the arguments (%s)" % (c.name, last))


def requires_refuted(ip, st, case, env):
    for r in case.requires:
        try:
            t = eval_spec(ip, st, env, r)
        except Exception:
            continue
        if t.s == "false" or ip.known(st, NOT(t)):
            return True
    return False


def conform_arg(ip, st, v, ty, dry):
    """conform() for an actual argument.  A list object the caller created with a concrete length (a display, a
    comprehension over a concrete sequence) that is handed to a parameter of type Lst[T] keeps its identity: the very
    cell changes to the symbolic-length representation (same items), so that `param is <that list>` clauses and the
    callee's frame refer to the caller's object."""
    r = conform(ip, st, v, ty)
    if (not dry and isinstance(v, Ref) and not v.path and isinstance(st.heap.get(v.cid), PyListCell)
            and isinstance(r, View) and getattr(r, "term", None) is not None and ty.strip().startswith("Lst[")
            and (ip.entry is None or v.cid not in ip.entry.heap)):
        st.heap[v.cid] = LstCell(r.term)
        return v
    return r


def bind_contract_args(ip, st, c, args, kws, dry=False):
    vararg, kwarg = getattr(c, "vararg", None), getattr(c, "kwarg", None)
    names = [n for n in c.params.keys() if n not in (vararg, kwarg)]
    env = {}
    vals = list(args)
    if len(vals) > len(names):
        if vararg is None:
            raise Mismatch("too many arguments for %s" % c.name)
    for n, v in zip(names, vals):
        env[n] = conform_arg(ip, st, v, c.params[n], dry)
    for n in names[len(vals):]:
        if n in kws:
            env[n] = conform_arg(ip, st, kws[n], c.params[n], dry)
        elif n in c.defaults:
            env[n] = conform(ip, st, default_value(ip, c.defaults[n]), c.params[n])
        elif ast_default(ip, c, n) is not None:
            env[n] = conform(ip, st, ast_default(ip, c, n), c.params[n])
        else:
            raise Mismatch("missing argument %s of %s" % (n, c.name))
    if vararg is not None:
        # def f(..., *args): the surplus positional arguments, as a tuple (python's own binding rule)
        env[vararg] = conform(ip, st, Tup(vals[len(names):]), c.params[vararg])
    extra = {}
    for k in kws:
        if k not in names:
            if kwarg is None:
                raise Mismatch("unexpected keyword " + k)
            extra[k] = kws[k]
    if kwarg is not None:
        # def f(..., **kwargs): the keyword arguments that name no parameter, as a NEW dictionary (one per call)
        head = c.params[kwarg].split("[")[0].strip()
        if head != "KwDict":
            raise U("**%s of %s must be typed KwDict[...]" % (kwarg, c.name))
        items = kw_conform(ip, st, extra, c.params[kwarg])
        env[kwarg] = None if dry else ip.new_cell(st, PyDictCell(items))
    return env


def ast_default(ip, c, name):
    """the default value the function's own `def` gives the parameter: a constant or a module-level sentinel (else None)"""
    try:
        from .contracts import find_function
        mc = ip.world.modctx(c.file)
        fn = find_function(mc.tree, c.qual)
    except Exception:
        return None
    a = fn.args
    names = [x.arg for x in a.args]
    pairs = list(zip(names[len(names) - len(a.defaults):], a.defaults)) + \
        [(k.arg, d) for k, d in zip(a.kwonlyargs, a.kw_defaults) if d is not None]
    for n, d in pairs:
        if n != name:
            continue
        if isinstance(d, ast.Constant) and (d.value is None or isinstance(d.value, (bool, int, float, str))):
            return default_value(ip, d.value)
        if isinstance(d, ast.Name):
            v = mc.resolve(d.id, ip)
            if isinstance(v, Sentinel):
                return v
    return None


def kw_fields(ty):
    from .interp import parse_type
    head, args = parse_type(ty)
    out = {}
    for a in args:
        k, t = a.split(":", 1)
        out[k.strip()] = t.strip()
    return out


def kw_conform(ip, st, items, ty):
    """keyword dictionary {name: value} against KwDict[name:Type,...]: exactly the declared names"""
    want = kw_fields(ty)
    if set(want) != set(items):
        raise Mismatch("keywords %s do not fit %s" % (sorted(items), ty))
    return {k: conform(ip, st, items[k], want[k]) for k in items}


def default_value(ip, d):
    if isinstance(d, SV):
        return d
    if d is None:
        return NONE
    if isinstance(d, bool):
        return Bool(TRUE if d else FALSE)
    if isinstance(d, int):
        return Num(I(d))
    if isinstance(d, float):
        return Num(R(d))
    if isinstance(d, str):
        if d.startswith("sentinel:"):
            return Sentinel(d[9:])
        return Str(d)
    raise U("default %r" % (d,))


def places_of(ip, st, env, text):
    """resolve a `modifies` entry to (ref, field) descriptions"""
    node = ip.contracts_parse(text)
    s = spec_state(st, env)
    if isinstance(node, ast.Attribute):
        ip.spec_mode += 1
        try:
            base = ip.ev1(node.value, s)
        finally:
            ip.spec_mode -= 1
        return ("field", base, node.attr)
    ip.spec_mode += 1
    try:
        v = ip.ev1(node, s)
    finally:
        ip.spec_mode -= 1
    return ("value", v, None)


def havoc_value(ip, st, v, name, deep=True):
    """replace the content of a mutable value by fresh content of the same shape; returns the new SV for fields
    (deep=False: only the object itself is known to change, not the objects stored in it -- used by pyvc/dictobj.py)"""
    if isinstance(v, Ref) and type(st.heap[v.cid]).__name__ == "StructLstCell":
        from .histlib import struct_havoc       # ghost `out` of a generator yielding tuples
        st.heap[v.cid] = struct_havoc(ip, st, st.heap[v.cid], name)
        return v
    if isinstance(v, Ref) and type(st.heap[v.cid]).__name__ == "KeyMapCell":
        from .keymap import km_havoc
        return km_havoc(ip, st, Ref(v.cid), name)
    if isinstance(v, Ref) and type(st.heap[v.cid]).__name__ == "IterLstCell" and not v.path:
        from .lib_sib import havoc_iterlst       # a list of generators: unknown generators at unknown positions
        return havoc_iterlst(ip, st, v, name)
    if isinstance(v, Ref):
        cell = st.heap[v.cid]
        if isinstance(cell, LstCell):
            t = ip.deref(st, v)
            nt = ip.reg.new(name, t.sort)
            ip.assume_wf(st, nt)
            ip.store(st, v, nt)
            return v
        if isinstance(cell, ValCell):
            nt = ip.reg.new(name, "Val")
            if ip.c is not None and ip.c.ghost.get("dict_objects"):
                from . import dictobj      # dictionaries as objects: the objects linked below this one
                dictobj.havoc_hook(ip, st, v, deep)
            ip.store(st, v, nt)
            if not v.path:
                pass
            return v
        if isinstance(cell, IterCell):
            if getattr(cell, "kind", None) is not None:
                raise U("havoc of a special iterator (%s)" % cell.kind)
            st.heap[v.cid] = IterCell(cell.src, ip.reg.new(name + "$cur", "Int"), cell.name, cell.limit)
            cur = st.heap[v.cid].cursor
            st.assume(CMP("<=", cell.cursor, cur))
            st.assume(CMP("<=", cur, cell.src.len))
            return v
        if isinstance(cell, PyListCell):
            st.heap[v.cid] = PyListCell([havoc_value(ip, st, x, "%s_%d" % (name, k)) for k, x in enumerate(cell.items)])
            return v
        if isinstance(cell, ObjCell):
            raise U("havoc of a whole object: list its fields in `modifies`")
        if isinstance(cell, PyDictCell) and not v.path:
            # a dictionary display of the caller (`{}`, {"a": x}) that a callee may change in place: afterwards some
            # dictionary (unknown items); from now on the cell holds a dictionary VALUE
            nt = ip.reg.new(name, "Val")
            st.heap[v.cid] = ValCell(nt)
            st.assume(T("(isD %s)" % nt.s, "Bool"))
            return v
        raise U("havoc of " + type(cell).__name__)
    if isinstance(v, Num):
        return Num(ip.reg.new(name, v.sort))
    if isinstance(v, Bool):
        return Bool(ip.reg.new(name, "Bool"))
    if isinstance(v, Opaque):
        return Opaque(ip.reg.new(name, v.sort))
    if isinstance(v, NoneV):
        return v
    if isinstance(v, Tup):
        return Tup([havoc_value(ip, st, x, name) for x in v.items])
    raise U("havoc of %r" % (v,))


def apply_contract(ip, st, c, args, kws):
    """caller side: check the precondition, havoc the frame, assume the postcondition; fork on declared raises"""
    ov = (ip.c.ghost.get("assumed_callees") if ip.c is not None else None) or {}
    if c.qual in ov and ov[c.qual].file == c.file and st.depth == 0:
        # Contract(ghost={"assumed_callees": {qualname: Contract(..., trusted=True)}}): inside THIS unit the callee is
        # taken under the given assumed contract (listed as an assumption) instead of its registered one -- for callees
        # whose arguments the unit has abstracted, so that the registered preconditions cannot be established
        c = ov[c.qual]
        if not c.trusted:
            raise U("assumed_callees: the contract of %s must be trusted=True" % c.qual)
        ip.assumptions.add("assumed callee contract inside %s: %s (%s)" % (ip.c.name, c.name, c.notes or "no notes"))
    if ip.c is not None and c.qual in (ip.c.ghost.get("inline_callees") or ()) and not ip.spec_mode:
        # Contract(ghost={"inline_callees": [qualname, ..]}): inside THIS unit the callee is executed in place from its real
        # AST instead of being replaced by its contract (nothing is assumed about it; its loops must unroll)
        return inline_contract(ip, st, c, args, kws)
    if c.inline:
        if c.qual in ("get_data_context", "get_context", "get_data") and c.file.endswith("flow/functions.py") \
                and len(args) == 1 and isinstance(args[0], Opaque) and args[0].sort == "V":
            if getattr(ip, "item_eval", 0) and c.qual != "get_data_context":
                from .lib import get_part_value_level          # inside a comprehension item: the part as a value, no fork
                return get_part_value_level(ip, st, args[0], c.qual)
            from .lib import lib_get_data_context_v
            outs = lib_get_data_context_v(ip, st, args, kws)
            if c.qual == "get_data_context":
                return outs
            return [(s2, pair.items[0] if c.qual == "get_data" else pair.items[1]) for s2, pair in outs]
        return inline_contract(ip, st, c, args, kws)
    if ip.c is not None and not ip.spec_mode and c.qual in getattr(ip.c, "at_call", {}) and st.depth == 0:
        # Contract(at_call={"<qualname of a repository function>": [clauses]}): obligations at every call of that function
        # made by the function under proof (call_args[i]: the positional arguments as passed)
        aenv = dict(ip.spec_env(st))
        aenv["call_args"] = Tup(list(args))
        for k, cl in enumerate(ip.c.at_call[c.qual]):
            ip.emit("call-site", "at-call %s#%d" % (c.qual, k), st, eval_spec(ip, st, aenv, cl, old=ip.entry), {"clause": cl})
    case = select_case(ip, st, c, args, kws)
    try:
        env = bind_contract_args(ip, st, case, args, kws)
    except Mismatch as m:
        raise U("call of %s: argument does not fit the contract: %s" % (c.name, m))
    if case.ghost.get("bind_closure") and ip.c is not None and st.depth == 0 and c.qual.startswith(ip.c.qual + "."):
        # Contract(ghost={"bind_closure": True}) of a nested def called from its ENCLOSING function: its free variables are
        # the caller's own variables; they are bound (when they fit the declared closure type; else the call is refused) so
        # that the callee's clauses may speak about them
        for cn, cty in case.closure.items():
            if cn not in env and cn in st.env:
                try:
                    env[cn] = conform_arg(ip, st, st.env[cn], cty, False)
                except Mismatch as m:
                    raise U("call of %s: free variable %s does not fit the declared closure type: %s" % (c.name, cn, m))
    if case.trusted:
        ip.assumptions.add("library contract (tier A): %s" % case.name)
    elst_callee = bool(case.ghost.get("elstate"))
    if elst_callee:
        # the callee's contract speaks about element states: its clauses read the caller's current states ...
        if "$elst" not in st.env:
            ip.reg.need("Obj")
            ip.reg.need("St")
            st.env["$elst"] = Opaque(ip.reg.new("elst", "(Array Obj St)"))
        env["$elst"] = st.env["$elst"]
    for k, r in enumerate(case.requires):
        goal = eval_spec(ip, st, env, r)
        ip.emit("pre-call", "call %s: requires#%d" % (case.name, k), st, goal)
        st.assume(goal)
    # the callee is verified under the object invariant of the view its `self` is typed with: the caller owes it
    inv_self = None
    if case.params and not c.qual.endswith("__init__") and case.self_class != "static" and not ip.spec_mode:
        for pname, pty in case.params.items():
            ty = pty.strip()
            if ty.startswith(("Self[", "Inst[")) and isinstance(env.get(pname), Ref):
                cs_view = ip.contracts.classes.get(ty[ty.index("[") + 1:ty.rindex("]")].strip())
                if cs_view is not None and cs_view.invariant:
                    for k, inv in enumerate(cs_view.invariant):
                        goal = eval_spec(ip, st, {"self": env[pname]}, inv)
                        ip.emit("pre-call", "call %s: object invariant#%d of the view %s (%s)" % (case.name, k, cs_view.name, pname),
                                st, goal)
    old = st.copy()
    old.env = dict(env)
    outs = []
    # exceptional outcomes
    normal_conds = []
    for exc, cond in case.raises.items():
        if case.generator:
            break       # calling a generator function runs nothing: its exceptions belong to the iteration
        if cond == "?":
            ct = ip.reg.new("raises_%s" % exc, "Bool")
        else:
            try:
                ct = eval_spec(ip, st, env, cond)
            except Exception as ex:
                if type(ex).__name__ != "Unsupported":
                    raise
                # the raise condition cannot be stated for these arguments (it is typed for other callers): may raise
                ct = ip.reg.new("raises_%s" % exc, "Bool")
                ip.assumptions.add("raise condition of %s (%s) not evaluable at a call site: taken as `may raise`" % (case.name, exc))
        if ct.s != "false":
            if ip.spec_mode:
                pass
            elif getattr(ip, "bound_guards", None):
                # the call is part of an ITEM of all(...) / any(...) over a sequence of symbolic length (no path per item
                # there): that no item raises is an obligation, closed over the item index (vmembers.emit_closed)
                from .vmembers import emit_closed
                emit_closed(ip, "safety", "call %s for an item of a quantified sequence: does not raise %s" % (case.name, exc), st, NOT(ct))
            else:
                bad = st.fork(ct, "!%s." % exc)
                benv = dict(env)
                if case.raises_frame == "havoc":
                    do_havoc(ip, bad, case, dict(env))
                    if elst_callee:
                        benv["$elst"] = Opaque(ip.reg.new("elst", "(Array Obj St)"))
                for cl in case.exc_ensures.get(exc, []):
                    try:
                        bad.assume(eval_spec(ip, bad, dict(benv), cl, old=old))
                    except Exception as ex:
                        if type(ex).__name__ != "Unsupported":
                            raise
                        ip.assumptions.add("a postcondition of %s is not evaluable at a call site: not used there" % case.name)
                if elst_callee:
                    bad.env["$elst"] = benv["$elst"]
                ip.raise_(bad, exc)
        normal_conds.append(NOT(ct))
    if AND(*normal_conds).s == "false" and not ip.spec_mode:
        return outs          # a case that always raises (raises={"E": "True"}): the call has no normal outcome
    st.assume(AND(*normal_conds))
    env2 = dict(env)
    do_havoc(ip, st, case, env2)
    if elst_callee:
        # ... and afterwards the element states are whatever its postcondition says (no frame for element states: every
        # state is unknown unless a clause determines it)
        env2["$elst"] = Opaque(ip.reg.new("elst", "(Array Obj St)"))
    if case.ghost.get("alloc"):
        # the callee may create abstract objects: the ghost allocation clock moves on (see histlib)
        from .histlib import call_advances_clock
        call_advances_clock(ip, st)
    if case.generator:
        # calling a generator function runs nothing; modelled functionally: the iterator's content is the ghost `out`
        from .histlib import is_struct_type
        if getattr(case, "out_def", None):
            from .histlib import defined_out_view        # the delivered values are a stated function of the arguments
            oview = defined_out_view(ip, st, case, env2)
            env2["out"] = oview
            res = ip.new_cell(st, IterCell(oview, I(0), name=None))
        elif is_struct_type(case.yields):
            from .histlib import struct_new, struct_view
            oview = struct_view(ip, struct_new(ip, st, case.yields, "out_" + case.simple))
            env2["out"] = oview
            res = ip.new_cell(st, IterCell(oview, I(0), name=None))
        else:
            sort = ip.lst_sort(case.yields)
            out_t = ip.reg.new("out_" + case.simple, sort)
            ip.assume_wf(st, out_t)
            env2["out"] = ip.lst_view(out_t)
            res = ip.new_cell(st, IterCell(ip.lst_view(out_t), I(0), name=None))
        env2["result"] = res
        # the callee's body runs while its result is iterated: consumers that change what it can reach are refused
        # (builtins_.list_method, extend)
        st.heap[res.cid].gen_args = [v for v in env.values() if isinstance(v, Ref)]
    elif case.result_alias is not None:
        res = env2[case.result_alias]
        env2["result"] = res
    elif getattr(case, "result_ref", None) and isinstance(env2.get(case.result_ref[0]), Ref) \
            and isinstance(st.heap.get(env2[case.result_ref[0]].cid), ValCell):
        # the callee returns the very object at a key path inside the dictionary it was given (proved at its exits)
        from .dicts import path_ref
        res, _root = path_ref(ip, st, env2, case.result_ref)
        env2["result"] = res
    elif case.result is not None and case.result.strip() == "Bool" and case.ghost.get("result_def") \
            and _result_def_text(case) is not None:
        # opt-in Contract(ghost={"result_def": True}) of a predicate without effects whose (proved) postcondition is
        # `result == <expression over the arguments>`: the call IS that term -- the same as a fresh symbol constrained by
        # the clause (which is still assumed below, trivially), but the syntactic path pruning sees through it
        res = Bool(eval_spec(ip, st, env2, _result_def_text(case), old=old))
        env2["result"] = res
    elif case.result is not None:
        res = ip.make(case.result, "res_" + case.simple, st)
        env2["result"] = res
        if isinstance(res, Ref) and any(cl.replace(" ", "") == "is_deep_copy(result)" for cl in case.ensures):
            # the callee's (proved or assumed) postcondition hands out a deep copy: provenance of the new object
            st.notes["deep_copies"] = set(st.notes.get("deep_copies", ())) | {res.cid}
    else:
        res = NONE
        env2["result"] = NONE
    for cl in case.ensures:
        bind_identity_clause(ip, st, case, env2, cl, old)
    for cl in case.ensures + case.assume_post:
        try:
            t_cl = eval_spec(ip, st, env2, cl, old=old)
            if t_cl.s == "false" and cl.strip() not in ("False", "false"):
                # a clause that is proved in the callee's own unit but evaluates to the constant false here (typically an
                # identity clause about an object the call has just re-created with fresh terms) would make every later
                # obligation of the caller vacuously true: refused instead of assumed
                raise U("postcondition `%s` of %s evaluates to false at the call site" % (cl[:80], case.name))
            st.assume(t_cl)
        except Exception as ex:
            if type(ex).__name__ != "Unsupported":
                raise
            # a postcondition that cannot be stated for these arguments gives the caller no information (sound: less is assumed)
            ip.assumptions.add("a postcondition of %s is not evaluable at a call site: not used there" % case.name)
    if elst_callee:
        st.env["$elst"] = env2["$elst"]
    outs.append((st, res))
    return outs


def _result_def_text(case):
    """the expression E of the first postcondition of the exact form `result == E` (E does not mention `result`), else None"""
    for cl in case.ensures:
        if " implies " in cl:
            continue
        try:
            node = ast.parse(cl.strip(), mode="eval").body
        except SyntaxError:
            continue
        if isinstance(node, ast.Compare) and isinstance(node.left, ast.Name) and node.left.id == "result" \
                and len(node.ops) == 1 and isinstance(node.ops[0], ast.Eq) \
                and not any(isinstance(n, ast.Name) and n.id == "result" for n in ast.walk(node.comparators[0])):
            return ast.unparse(node.comparators[0])
    return None


def bind_identity_clause(ip, st, case, env, text, old):
    """caller side of a postcondition `<object>.<field> is <expr>` when the field is in `modifies` and <expr> denotes a heap
    object of the caller (a parameter, a part of one, old(...)): after the call the field holds THAT object, not the
    arbitrary new one the havoc of the frame put there (which would make the clause plainly false and the caller's
    hypotheses contradictory).  Aliasing established by a callee is thereby visible to the caller."""
    if " implies " in text:
        return
    try:
        node = ip.contracts_parse(text)
    except SyntaxError:
        return
    if isinstance(node, ast.Compare) and len(node.ops) == 1 and isinstance(node.ops[0], ast.Is) \
            and isinstance(node.left, ast.Subscript) and ip.c is not None and ip.c.ghost.get("dict_objects"):
        return bind_item_identity(ip, st, case, env, node, old)
    if not (isinstance(node, ast.Compare) and len(node.ops) == 1 and isinstance(node.ops[0], ast.Is)
            and isinstance(node.left, ast.Attribute)):
        return
    s = spec_state(st, env)
    ip.spec_mode += 1
    saved = ip.oldst
    ip.oldst = old
    try:
        try:
            base = ip.ev1(node.left.value, s)
            target = ip.ev1(node.comparators[0], s)
        except Exception:
            return
    finally:
        ip.spec_mode -= 1
        ip.oldst = saved
    if isinstance(base, Ref) and isinstance(st.heap.get(base.cid), ObjCell) and isinstance(target, Fun):
        pass        # (a function object: an immutable value the field can simply hold)
    elif not (isinstance(base, Ref) and isinstance(st.heap.get(base.cid), ObjCell) and isinstance(target, Ref) and not target.path
              and target.cid in st.heap):
        return
    modified = False
    for m in case.modifies:
        if m == "fs":
            continue
        try:
            kind, b, f = places_of(ip, st, env, m)
        except Exception:
            continue
        if kind == "field" and isinstance(b, Ref) and b.cid == base.cid and f == node.left.attr:
            modified = True
    if not modified:
        return
    cell = st.heap[base.cid]
    fields = dict(cell.fields)
    fields[node.left.attr] = target
    st.heap[base.cid] = ObjCell(cell.cls, fields)


def bind_item_identity(ip, st, case, env, node, old):
    """caller side (dictionaries as objects, pyvc/dictobj.py) of a postcondition `<dict param>[<key>] is <dict param>`: after
    the call the item IS that object -- the link is recorded, so that the caller's later uses of either name see one object"""
    from . import dictobj
    s = spec_state(st, env)
    ip.spec_mode += 1
    saved = ip.oldst
    ip.oldst = old
    try:
        try:
            base = ip.ev1(node.left.value, s)
            key = ip.key_term(ip.ev1(node.left.slice, s))
            target = ip.ev1(node.comparators[0], s)
        except Exception:
            return
    finally:
        ip.spec_mode -= 1
        ip.oldst = saved
    if not (dictobj.is_root_dict(st, base) and dictobj.is_root_dict(st, target)) or base.cid == target.cid:
        return
    modified = False
    for m in case.modifies:
        if m == "fs":
            continue
        try:
            kind, b, f = places_of(ip, st, env, m)
        except Exception:
            continue
        if kind == "value" and isinstance(b, Ref) and b.cid == base.cid and not b.path:
            modified = True
    if not modified or dictobj.is_frozen(st, base.cid) or target.cid in dictobj.ancestors(st, base.cid):
        return
    dictobj.cut_children(ip, st, base.cid, key)
    d = dictobj.get(st)
    dictobj.put(st, dictobj.Links(d.links + ((target.cid, base.cid, key, "live"),), d.frozen, d.kids_frozen))
    dictobj.after_store(ip, st, target.cid)


def do_havoc(ip, st, case, env):
    for m in case.modifies:
        if m == "fs":
            from .lib import fs_init
            fs_init(ip, st)
            continue
        kind, base, field = places_of(ip, st, env, m)
        if kind == "field":
            if not (isinstance(base, Ref) and isinstance(st.heap[base.cid], ObjCell)):
                raise U("modifies %s: not an object field" % m)
            cell = st.heap[base.cid]
            if getattr(case, "post_class", None) and m.startswith("self."):
                cell = ObjCell(case.post_class, cell.fields)       # the callee leaves `self` as an instance of this spec
            cur = cell.fields.get(field)
            if cur is None:
                cs = ip.contracts.classes.get(cell.cls)
                if (cs is None or field not in cs.fields) and m.startswith("self.") and "self" in case.params:
                    # the field is declared by the class spec the callee's contract types `self` with
                    sty = case.params["self"]
                    if "[" in sty:
                        cs2 = ip.contracts.classes.get(sty[sty.index("[") + 1:sty.rindex("]")].strip())
                        if cs2 is not None and field in cs2.fields:
                            cs = cs2
                if cs is not None and field in cs.fields and cs.fields[field].startswith("MethodOf["):
                    # declared as a bound method of the abstract element held by another field: that, if the object has
                    # such an element at this point; else a value nothing is known about (a clause of the callee may bind it)
                    a_, m_ = [x.strip() for x in cs.fields[field][9:-1].split(",")]
                    el_ = cell.fields.get(a_)
                    if isinstance(el_, Opaque) and el_.sort == "Obj":
                        nv = Fun("elem-method", elem=el_, name=m_)
                    else:
                        nv = Opaque(ip.reg.new("%s.%s" % (cell.cls, field), "Unk"))
                elif cs is not None and field in cs.fields:
                    nv = ip.make(cs.fields[field], "%s.%s" % (cell.cls, field), st)
                else:
                    nv = Opaque(ip.reg.new("%s.%s" % (cell.cls, field), "Unk"))     # a value nothing is known about
            elif isinstance(cur, Ref) and getattr(st.heap.get(cur.cid), "kind", None) == "arith":
                from .lib import copy_special
                st.heap[cur.cid] = copy_special(st.heap[cur.cid], nextval=ip.reg.new("%s.%s$next" % (cell.cls, field), "Int"))
                nv = cur
            elif isinstance(cur, Ref):
                # the field may be rebound to a new object: fresh cell of the same shape
                cs = ip.contracts.classes.get(cell.cls)
                if cs and field in cs.fields:
                    nv = ip.make(cs.fields[field], "%s.%s" % (cell.cls, field), st)
                else:
                    nv = havoc_value(ip, st, cur, "%s.%s" % (cell.cls, field))
            else:
                cs = ip.contracts.classes.get(cell.cls)
                if cs and field in cs.fields:
                    nv = ip.make(cs.fields[field], "%s.%s" % (cell.cls, field), st)
                else:
                    nv = havoc_value(ip, st, cur, "%s.%s" % (cell.cls, field))
            fields = dict(cell.fields)
            fields[field] = nv
            st.heap[base.cid] = ObjCell(cell.cls, fields)
        else:
            # a callee that changes a dictionary in place may change it below the top level (update_recursively, ...)
            from .dicts import refuse_nested_change
            refuse_nested_change(st, base, "an in-place change by a callee (`modifies %s`)" % m)
            havoc_value(ip, st, base, "hv_" + m.replace(".", "_"))


_AUTO_INLINE = {}


def auto_inline_contract(ip, relpath, qual):
    """synthetic inline=True contract for a plain function / method of the repository that has no contract of its own
    (typically a helper a refactoring has extracted); None when the function is missing, decorated, or a generator"""
    key = (relpath, qual)
    if key in _AUTO_INLINE:
        return _AUTO_INLINE[key]
    c = None
    try:
        from .contracts import find_function, Contract
        node = find_function(ip.world.modctx(relpath).tree, qual)
        is_gen = any(isinstance(n, (ast.Yield, ast.YieldFrom)) for n in ast.walk(node))
        if isinstance(node, ast.FunctionDef) and not node.decorator_list and not is_gen:
            c = Contract(relpath, qual, props=[], inline=True, notes="helper without a contract, inlined from its real AST")
    except Exception:
        c = None
    _AUTO_INLINE[key] = c
    return c


def inline_contract(ip, st, c, args, kws):
    """tiny helper functions marked inline=True are executed in place from their real AST (stated in the evidence)"""
    from .stmts import exec_block
    modctx = ip.world.modctx(c.file)
    from .contracts import find_function
    node = find_function(modctx.tree, c.qual)
    saved_mod, saved_env = ip.mod, dict(st.env)
    ip.mod = modctx
    try:
        env = bind_args(ip, st, node, args, kws, {})
        s2 = st.copy()
        s2.env = env
        s2.depth += 1
        if s2.depth > 6:
            raise U("inline depth")
        outs = []
        for kind, s3, payload in exec_block(ip, node.body, s2):
            s3.env = dict(saved_env)
            s3.depth -= 1
            if kind == "next":
                outs.append((s3, NONE))
            elif kind == "return":
                outs.append((s3, payload))
            elif kind == "raise":
                ip._exc_out.append((s3, payload))
        ip.assumptions.add("inlined helper (not modular): %s:%s" % (c.file, c.qual))
        return outs
    finally:
        ip.mod = saved_mod


# --------------------------------------------------------------------------- spec functions
def call_spec(ip, st, name, pos, kws):
    sf = ip.contracts.spec_names[name]
    if callable(sf):
        return sf(ip, st, pos, kws)
    if sf.smt is not None:
        return sf.smt(ip, st, pos)
    raise U("spec function " + name)


# --------------------------------------------------------------------------- abstract elements
def elem_pred(ip, name, el):
    f = ip.reg.ufun(name, ["Obj"], "Bool")
    return T("(%s %s)" % (f, el.t.s), "Bool")


def elem_call(ip, st, el, meth, pos, kws):
    """interface contract of a user element (assumption 4 of DESIGN 2.4): denotations are uninterpreted functions"""
    reg = ip.reg
    ip.assumptions.add("element interface: run/fill/compute/request/__call__ of user elements denote functions "
                       "of their input (DESIGN 2.4 item 4)")
    if ip.c is not None and not ip.spec_mode and meth in getattr(ip.c, "at_call", {}) and st.depth == 0:
        env = dict(ip.spec_env(st))
        env["call_args"] = Tup(list(pos))        # the arguments of this call
        env["call_self"] = el                    # the element whose method is called
        for k, cl in enumerate(ip.c.at_call[meth]):
            ip.emit("call-site", "at-call %s#%d" % (meth, k), st, eval_spec(ip, st, env, cl, old=ip.entry))
    if ip.c is not None and not ip.spec_mode and ip.c.ghost.get("call_count"):
        # ghost counter of the calls of this element method made so far by the function under proof (spec form
        # call_count('<method>'); at an at_call clause it still counts the EARLIER calls only); havocked at loop cuts
        st.notes["cc_" + meth] = ADD(st.notes.get("cc_" + meth, I(0)), I(1))
    if meth == "__call__":
        if len(pos) == 1 and isinstance(pos[0], Opaque) and pos[0].sort == "V":
            f = reg.ufun("el_call", ["Obj", "V"], "V")
            if ip.may_catch(st, "Exception") and not ip.spec_mode:
                # a user callable may raise: abstract predicate of the callable and its argument
                p = reg.ufun("el_call_raises", ["Obj", "V"], "Bool")
                cond = T("(%s %s %s)" % (p, el.t.s, pos[0].t.s), "Bool")
                bad = st.fork(cond, "uexc.")
                ip.raise_(bad, "Exception")
                st.assume(NOT(cond))
            return [(st, Opaque(T("(%s %s %s)" % (f, el.t.s, pos[0].t.s), "V")))]
        if not pos:
            # source-like element: returns a flow
            f = reg.ufun("el_source", ["Obj"], reg.lst("V"))
            t = T("(%s %s)" % (f, el.t.s), reg.lst("V"))
            ip.assume_wf(st, t)
            return [(st, ip.new_cell(st, IterCell(ip.lst_view(t), I(0))))]
        if len(pos) == 1 and not kws:
            from .lib_flow import abstract_call_on_list          # c(xs) / c(*xs) for a list xs of flow values
            r = abstract_call_on_list(ip, st, el, pos[0])
            if r is not None:
                return r
        if len(pos) == 1 and not kws:
            from .lib_ctxcall import call_on_context          # c(x) for a context value x (pyvc/lib_ctxcall.py)
            r = call_on_context(ip, st, el, pos[0])
            if r is not None:
                return r
        raise U("element call with arguments %r" % (pos,))
    if meth == "run":
        flow = pos[0]
        if ip.c is not None and ip.c.ghost.get("run_consumes") and not ip.spec_mode:
            from .lib_run import consumable, run_call        # the element pulls from the iterator it is given
            if consumable(st, flow):
                return [(st, run_call(ip, st, el, flow))]
        content = flow_remaining_term(ip, st, flow)
        f = reg.ufun("el_run", ["Obj", reg.lst("V")], reg.lst("V"))
        t = T("(%s %s %s)" % (f, el.t.s, content.s), reg.lst("V"))
        ip.assume_wf(st, t)
        res = ip.new_cell(st, IterCell(ip.lst_view(t), I(0)))
        st.heap[res.cid].upstream = flow
        return [(st, res)]
    if meth == "fill":
        cur = elem_state(ip, st, el)
        f = reg.ufun("el_fill", ["Obj", "St", "V"], "St")
        stops = reg.ufun("el_fill_stops", ["Obj", "St", "V"], "Bool")
        v = as_flow_value(ip, st, pos[0])
        stop_c = T("(%s %s %s %s)" % (stops, el.t.s, cur.s, v.t.s), "Bool")
        if ip.may_catch(st, "LenaStopFill"):
            bad = st.fork(stop_c, "stop.")
            ip.raise_(bad, "LenaStopFill")
            st.assume(NOT(stop_c))
        else:
            ip.assumptions.add("fill() of the wrapped element does not raise here")
        set_elem_state(ip, st, el, T("(%s %s %s %s)" % (f, el.t.s, cur.s, v.t.s), "St"))
        if ip.c is not None and ip.c.ghost.get("fill_mutates_context") and not ip.spec_mode:
            from .histlib import fill_may_change_context
            fill_may_change_context(ip, st, el, cur, v, pos[0])
        return [(st, NONE)]
    if meth in ("compute", "request"):
        cur = elem_state(ip, st, el)
        f = reg.ufun("el_" + meth, ["Obj", "St"], reg.lst("V"))
        t = T("(%s %s %s)" % (f, el.t.s, cur.s), reg.lst("V"))
        ip.assume_wf(st, t)
        if meth == "request":
            g = reg.ufun("el_request_state", ["Obj", "St"], "St")
            set_elem_state(ip, st, el, T("(%s %s %s)" % (g, el.t.s, cur.s), "St"))
        return [(st, ip.new_cell(st, IterCell(ip.lst_view(t), I(0))))]
    if meth == "reset":
        f = reg.ufun("el_reset", ["Obj"], "St")
        set_elem_state(ip, st, el, T("(%s %s)" % (f, el.t.s), "St"))
        return [(st, NONE)]
    if meth == "_set_context":
        # static-context protocol of an element: stores / updates what it needs; may raise LenaKeyError (unresolved key)
        from .dicts import dterm
        cur = elem_state(ip, st, el)
        c = dterm(ip, st, pos[0])
        if ip.may_catch(st, "LenaKeyError"):
            p = reg.ufun("el_setctx_raises", ["Obj", "St", "Val"], "Bool")
            cond = T("(%s %s %s %s)" % (p, el.t.s, cur.s, c.s), "Bool")
            bad = st.fork(cond, "ke.")
            ip.raise_(bad, "LenaKeyError")
            st.assume(NOT(cond))
        f = reg.ufun("el_setctx", ["Obj", "St", "Val"], "St")
        set_elem_state(ip, st, el, T("(%s %s %s %s)" % (f, el.t.s, cur.s, c.s), "St"))
        # the element may change the dictionary it is given in place (SetContext does)
        if isinstance(pos[0], Ref):
            g = reg.ufun("el_setctx_out", ["Obj", "St", "Val"], "Val")
            ip.store(st, pos[0], T("(%s %s %s %s)" % (g, el.t.s, cur.s, c.s), "Val"))
        return [(st, NONE)]
    if meth == "_get_context":
        cur = elem_state(ip, st, el)
        if ip.may_catch(st, "LenaKeyError"):
            p = reg.ufun("el_getctx_raises", ["Obj", "St"], "Bool")
            cond = T("(%s %s %s)" % (p, el.t.s, cur.s), "Bool")
            bad = st.fork(cond, "ke.")
            ip.raise_(bad, "LenaKeyError")
            st.assume(NOT(cond))
        f = reg.ufun("el_getctx", ["Obj", "St"], "Val")
        res = ip.new_cell(st, ValCell(T("(%s %s %s)" % (f, el.t.s, cur.s), "Val")))
        st.notes["deep_copies"] = set(st.notes.get("deep_copies", ())) | {res.cid}      # documented: a deep copy
        return [(st, res)]
    if meth == "fill_into":
        raise U("fill_into on abstract element")
    if len(pos) == 1 and not kws and meth.isidentifier() and isinstance(pos[0], Opaque) and pos[0].sort == "Obj":
        # a one-argument method of a user object applied to an abstract OBJECT (a hook such as el.alter_sequence(el)): an
        # abstract object that is a function of the two (no side effect, does not raise: listed as an assumption)
        ip.assumptions.add("a method of a user element applied to an abstract object returns an object that is a function of "
                           "the element and the argument, without side effect (el_mo_%s)" % meth)
        f = reg.ufun("el_mo_" + meth, ["Obj", "Obj"], "Obj")
        return [(st, Opaque(T("(%s %s %s)" % (f, el.t.s, pos[0].t.s), "Obj")))]
    if len(pos) == 1 and not kws and meth.isidentifier():
        # any other one-argument method of a user object on a flow value: a pure function of the object and the value
        v = as_flow_value(ip, st, pos[0])
        f = reg.ufun("el_m_" + meth, ["Obj", "V"], "V")
        return [(st, Opaque(T("(%s %s %s)" % (f, el.t.s, v.t.s), "V")))]
    raise U("method %s of abstract element" % meth)


def as_flow_value(ip, st, v):
    """a value handed to a user element, as a term of sort V; a (data, context) pair with a dictionary context is folded
    by an injective pairing of the data and the VALUE of the context"""
    v = ip.to_yield_value(st, v)
    if isinstance(v, Opaque) and v.sort == "V":
        return v
    if isinstance(v, Tup) and len(v.items) == 2 and isinstance(v.items[0], Opaque) and v.items[0].sort == "V":
        from .dicts import dterm
        try:
            c = dterm(ip, st, v.items[1])
        except Exception:
            raise U("fill of a non-V value")
        f = ip.reg.ufun("mkpair_ctx", ["V", "Val"], "V")
        return Opaque(T("(%s %s %s)" % (f, v.items[0].t.s, c.s), "V"))
    raise U("fill of a non-V value")


def elem_state(ip, st, el):
    reg = ip.reg
    reg.need("St")
    reg.need("Obj")
    if "$elst" not in st.env:
        st.env["$elst"] = Opaque(reg.new("elst", "(Array Obj St)"))
    return T("(select %s %s)" % (st.env["$elst"].t.s, el.t.s), "St")


def set_elem_state(ip, st, el, new):
    cur = st.env["$elst"].t
    st.env["$elst"] = Opaque(T("(store %s %s %s)" % (cur.s, el.t.s, new.s), "(Array Obj St)"))


def flow_remaining_term(ip, st, flow):
    """Lst term of the values an iterator / sequence will still deliver"""
    reg = ip.reg
    sort = reg.lst("V")
    if isinstance(flow, Ref) and isinstance(st.heap[flow.cid], IterCell):
        cell = st.heap[flow.cid]
        src = cell.src
        if src is None and getattr(cell, "live", None) is not None and getattr(cell, "kind", None) is None:
            # iter(<list>): delivers the list's items from the cursor on (the list as it is now, like a list passed directly)
            lt = ip.deref(st, cell.live)
            if lt.sort == sort and lit_int(cell.cursor) == 0:
                return lt
            src = ip.lst_view(lt)
            cur = cell.cursor
            return materialise(ip, st, View(SUB(src.len, cur), lambda i: src.get(ADD(cur, i))), sort)
        if src is None:
            raise U("remaining content of a special iterator")
        t = getattr(src, "term", None)
        if t is not None and lit_int(cell.cursor) == 0 and t.sort == sort:
            return t
        rest = View(SUB(src.len, cell.cursor), lambda i: src.get(ADD(cell.cursor, i)))
        m = materialise(ip, st, rest, sort)
        if t is not None and t.sort == sort and lit_int(cell.cursor) is None:
            # an untouched iterator delivers exactly its content term (keeps term identity for denotations)
            return ITE(EQ(cell.cursor, I(0)), t, m)
        return m
    view = ip.as_view(st, flow)
    t = getattr(view, "term", None)
    if t is not None and t.sort == sort:
        return t
    return materialise(ip, st, view, sort)


# --------------------------------------------------------------------------- class instantiation
def instantiate(ip, st, f, pos, kws):
    name = f.name
    k = ip.contracts.find_method(name, "__init__")
    if k is None:
        if name in ip.contracts.lib:
            return ip.contracts.lib[name](ip, st, pos, kws)
        raise U("instantiation of %s: no contract for __init__" % name)
    cs = ip.contracts.classes.get(name)
    ref = ip.new_cell(st, ObjCell(name, {}))
    outs = []
    for s2, _ in apply_contract(ip, st, k, [ref] + pos, kws):
        outs.append((s2, ref))
    return outs


# --------------------------------------------------------------------------- special forms of the contract language
def _sf_old(ip, e, st):
    """old(expr): value of expr in the pre-state (function entry, or call-site pre-state for callee clauses)"""
    o = ip.oldst
    if o is None:
        raise U("old() outside a two-state clause")
    env = dict(st.env)
    env.update(o.env)
    s = State.__new__(State)
    s.env, s.heap, s.pc, s.trace, s.catching, s.depth, s.notes = env, o.heap, st.pc, st.trace, st.catching, st.depth, o.notes
    v = ip.ev1(e.args[0], s)
    # a reference to a mutable value is snapshotted: old(d) is the VALUE d had, whatever happens to the object later
    if isinstance(v, Ref) and isinstance(o.heap.get(v.cid), ValCell):
        return Opaque(ip.deref(s, v))
    if isinstance(v, Ref) and isinstance(o.heap.get(v.cid), LstCell):
        return ip.lst_view(ip.deref(s, v))
    return v


def _sf_implies(ip, e, st):
    a = ip.truth(st, ip.ev1(e.args[0], st))
    b = ip.truth(st, ip.ev1(e.args[1], st))
    return Bool(IMP(a, b))


def _sf_iff(ip, e, st):
    a = ip.truth(st, ip.ev1(e.args[0], st))
    b = ip.truth(st, ip.ev1(e.args[1], st))
    return Bool(EQ(a, b))


def _iter_cell(ip, st, v):
    if isinstance(v, Ref) and isinstance(st.heap[v.cid], IterCell):
        return st.heap[v.cid]
    raise U("not an iterator: %r" % (v,))


def _sf_pulled(ip, e, st):
    """pulled(flow): number of values taken from the input iterator so far (nothing is ever taken from a plain list)"""
    v = ip.ev1(e.args[0], st)
    if ip.is_seq(st, v):
        return Num(I(0))
    return Num(_iter_cell(ip, st, v).cursor)


def _sf_content(ip, e, st):
    """content(flow): the whole sequence the input iterator delivers (ghost)"""
    v = ip.ev1(e.args[0], st)
    if ip.is_seq(st, v):
        return ip.as_view(st, v)
    c = _iter_cell(ip, st, v)
    if getattr(c, "live", None) is not None:
        return ip.lst_view(ip.deref(st, c.live))
    return c.src


def _sf_rest(ip, e, st):
    """rest(flow): the values the iterator has not delivered yet"""
    c = _iter_cell(ip, st, ip.ev1(e.args[0], st))
    src, cur = c.src, c.cursor
    n = SUB(src.len, cur)
    return View(ITE(CMP("<", n, I(0)), I(0), n), lambda i: src.get(ADD(cur, i)))


def _dict_forms():
    from .dicts import FORMS
    return FORMS


def _sf_arith_next(ip, e, st):
    """arith_next(it): the value the arithmetic-progression iterator would deliver next (ghost)"""
    return Num(_iter_cell(ip, st, ip.ev1(e.args[0], st)).nextval)


def _sf_is_fresh(ip, e, st):
    """is_fresh(x): x is an object created during this call (not reachable at entry): shares nothing with the
    arguments, the fields of self or anything yielded before -- at the top level (nested sharing is not modelled)"""
    v = ip.ev1(e.args[0], st)
    if isinstance(v, Ref):
        if v.cid in ip.entry.heap or v.path:
            return Bool(FALSE)
        out = st.env.get("out")
        if isinstance(out, Ref) and isinstance(st.heap[out.cid], PyListCell):
            n = 0
            for it in st.heap[out.cid].items:
                for x in (it.items if isinstance(it, Tup) else [it]):
                    if isinstance(x, Ref) and x.cid == v.cid:
                        n += 1
            # in a postcondition the object itself is one of the yielded values; at a yield it is not in `out` yet
            if n > (0 if getattr(ip, "in_at_yield", False) else 1):
                return Bool(FALSE)
        return Bool(TRUE)
    return Bool(TRUE)       # immutable values share nothing


def _sf_made_in_iteration(ip, e, st):
    """made_in_iteration(x, k): the object x was created during the current iteration of loop #k (a new object per
    iteration: nothing an earlier iteration handed out can be reached through it)"""
    v = ip.ev1(e.args[0], st)
    k = e.args[1].value
    ep = st.notes.get("epoch_%s" % k)
    if ep is None or not isinstance(v, Ref):
        return Bool(FALSE)
    return Bool(TRUE if int(v.cid[1:]) > ep else FALSE)


def _sf_in_loop(ip, e, st):
    """in_loop(k): control is inside the body of (for-)loop #k"""
    return Bool(TRUE if st.notes.get("inloop_%s" % e.args[0].value) else FALSE)


def _sf_local(ip, e, st):
    """local(name): the value the function's local variable `name` holds at the normal exit under consideration
    (postconditions only; ill-typed -- hence unprovable -- on exits where the local is not bound)"""
    loc = st.env.get("$locals")
    a = e.args[0]
    name = a.id if isinstance(a, ast.Name) else a.value
    if loc is None or name not in loc.env:
        raise U("local(%s): not bound at this exit" % name)
    return loc.env[name]


def _sf_is_deep_copy(ip, e, st):
    """is_deep_copy(x): x is an object created during this call by copy.deepcopy (or handed out by a callee that
    documents a deep copy): it shares no mutable object, at any depth, with anything that existed before"""
    v = ip.ev1(e.args[0], st)
    if isinstance(v, Ref) and ip.entry is None and not v.path:
        # a PRECONDITION of the function under verification (assumed at entry): the argument shares no mutable object with
        # anything else the function can reach -- recorded as provenance of the parameter's cell
        st.notes["deep_copies"] = set(st.notes.get("deep_copies", ())) | {v.cid}
        return Bool(TRUE)
    if isinstance(v, Ref):
        return Bool(TRUE if (v.cid in st.notes.get("deep_copies", ()) and v.cid not in ip.entry.heap and not v.path) else FALSE)
    if isinstance(v, Opaque) and v.sort == "Obj":
        # an abstract element: made by copy.deepcopy during this call (ghost allocation clock, see histlib)
        from .histlib import obj_is_deep_copy
        return Bool(obj_is_deep_copy(ip, st, v))
    return Bool(TRUE if isinstance(v, (Num, Bool, NoneV, Str)) else FALSE)


def _sf_is_iterator(ip, e, st):
    """is_iterator(x): x supports next() (an iterator / generator), not merely iteration (a list, tuple, range)"""
    v = ip.ev1(e.args[0], st)
    return Bool(TRUE if (isinstance(v, Ref) and isinstance(st.heap[v.cid], IterCell)) else FALSE)


SPEC_FORMS = {"is_iterator": _sf_is_iterator, "is_deep_copy": _sf_is_deep_copy, "in_loop": _sf_in_loop, "made_in_iteration": _sf_made_in_iteration, "is_fresh": _sf_is_fresh, "arith_next": _sf_arith_next, "old": _sf_old, "implies": _sf_implies, "iff": _sf_iff, "pulled": _sf_pulled, "content": _sf_content,
              "rest": _sf_rest}
SPEC_FORMS.update(_dict_forms())
SPEC_FORMS["local"] = _sf_local


def _sf_yield_count(ip, e, st):
    """yield_count(): number of values this generator call has yielded so far (tracked across loop cuts, also for
    yields="Any" where the list `out` itself is not)"""
    return Num(st.notes.get("yc", I(0)))


SPEC_FORMS["yield_count"] = _sf_yield_count


def _sf_call_count(ip, e, st):
    """call_count('fill'): number of calls of that method of abstract elements (whatever the element) the function has made
    so far; needs Contract(ghost={"call_count": True})"""
    if ip.c is None or not ip.c.ghost.get("call_count"):
        raise U("call_count() needs ghost={'call_count': True}")
    a = e.args[0]
    if not (isinstance(a, ast.Constant) and isinstance(a.value, str)):
        raise U("call_count(<method name literal>)")
    from .stmts import ELEMENT_METHODS
    if a.value not in ELEMENT_METHODS:
        raise U("call_count of a method whose counter is not havocked at loop cuts: " + a.value)
    return Num(st.notes.get("cc_" + a.value, I(0)))


SPEC_FORMS["call_count"] = _sf_call_count
from .lib_run import _sf_run_input, _sf_loop_iter
SPEC_FORMS["run_input"] = _sf_run_input
SPEC_FORMS["loop_iter"] = _sf_loop_iter
from .keymap import FORMS as _KM_FORMS
SPEC_FORMS.update(_KM_FORMS)
from .lib import FS_FORMS as _FS_FORMS
SPEC_FORMS.update(_FS_FORMS)
