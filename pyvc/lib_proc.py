"""subprocess.Popen as an abstract external action on the ghost file system.  Opt-in: registered by the contract module that
needs it (contracts/P_out2.py calls register(ix)); nothing here changes the meaning of an existing construct.

    subprocess.Popen(cmd, stdin=.., stdout=.., stderr=..)
        cmd: a python list of strings (concrete length) or a list of strings of symbolic length.  The call
          * creates a new object of the (library) class Popen: field `returncode` (an unknown integer: the exit status
            seen after communicate()) and the ghost field `timeout_used` (None; set by communicate(timeout=...));
          * replaces the ghost file system fs by proc_fs(fs, cmd) -- an UNINTERPRETED function: the external program may
            change anything on disk, as a function of the disk and its command line;
          * raises nothing (a missing executable -- OSError -- is not modelled: listed in the note).
    Popen.communicate(input=None, timeout=None): assumed contract below (returns a pair of unknown values).
    spec function proc_fs(fs, cmd): the same term; when cmd is a RECOGNISED command line, the documented effect of that
        external program is added as a hypothesis (and listed as an assumption):
          pdftoppm <pdf> <root> -<fmt> -singlefile                creates <root>.<fmt>
          pdflatex -halt-on-error -interaction errorstopmode -output-directory <dir> <tex>
                                                                  creates <tex>.replace('.tex', '.pdf')
    spec function cmd_line(a, b, ...): the command line [a, b, ...] as a term.
Asynchrony is not modelled: the effect is applied when the process is created."""
from .smt import T, I, EQ, NOT, CMP
from .sym import Opaque, Num, Ref, Str, ObjCell, PyListCell, NONE
from .lib import need_fs, fs_get, FS_SORT, U, str_operand, path_key

NOTE = ("library contract (tier A): subprocess.Popen(cmd) starts the external program; the file system becomes "
        "proc_fs(fs, cmd), an unknown function of the disk and the command line, applied when the process is created "
        "(asynchrony, a missing executable and the program's output streams are not modelled); the new process object "
        "has an unknown integer returncode")
PROGRAMS = ("external programs: `pdftoppm <pdf> <root> -<fmt> -singlefile` creates <root>.<fmt>; `pdflatex -halt-on-error "
            "-interaction errorstopmode -output-directory <dir> <tex>` creates the pdf named like <tex> (both may change "
            "anything else on disk)")


def _items(ip, st, v):
    """the items of a command line given as a python list of concrete length (key terms), or None"""
    if getattr(v, "cmd_items", None) is not None:
        return list(v.cmd_items)          # the value of the spec function cmd_line(...)
    if isinstance(v, Ref) and not v.path and isinstance(st.heap.get(v.cid), PyListCell):
        out = []
        for it in st.heap[v.cid].items:
            if isinstance(it, Opaque) and it.sort == "V":
                out.append(path_key(ip, st, it, "command line"))
            else:
                out.append(ip.key_term(str_operand(ip, st, it, "command line")))
        return out
    return None


def cmd_term(ip, st, v):
    reg = ip.reg
    lk = reg.lst("Key")
    if isinstance(v, Opaque) and v.sort == lk:
        return v.t
    items = _items(ip, st, v)
    if items is not None:
        t = reg.l_empty_canonical(lk)
        for k in items:
            t = reg.l_append(t, k)
        return t
    from .speclib import lst_term
    try:
        return lst_term(ip, st, v, lk)
    except Exception:
        raise U("command line: a list of strings expected, got %r" % (v,))


def proc_fs_term(ip, fs, cmd):
    need_fs(ip.reg)
    f = ip.reg.ufun("proc_fs", [FS_SORT, cmd.sort], FS_SORT)
    return T("(%s %s %s)" % (f, fs.s, cmd.s), FS_SORT)


def _wf(ip, st, fs):
    lv = need_fs(ip.reg)
    q = "fp%d" % next(ip.bound)
    st.assume(T("(forall ((%s Key)) (! (>= (len_%s (fcontent (select %s %s))) 0) :pattern ((select %s %s))))"
                % (q, lv, fs.s, q, fs.s, q), "Bool"))


def program_facts(ip, st, v, after):
    """the documented effect of a recognised external program on the file system `after` = proc_fs(before, cmd)"""
    items = _items(ip, st, v)
    if not items:
        return
    reg = ip.reg
    lit = lambda k, s: k.s == reg.key(s).s
    target = None
    if len(items) == 5 and lit(items[0], "pdftoppm") and lit(items[4], "-singlefile"):
        dash = "(kcat %s " % reg.key("-").s
        opt = items[3].s
        if opt.startswith(dash) and opt.endswith(")"):
            f = reg.ufun("kcat", ["Key", "Key"], "Key")
            target = "(%s (%s %s %s) %s)" % (f, f, items[2].s, reg.key(".").s, opt[len(dash):-1])
    elif len(items) == 7 and [lit(items[j], s) for j, s in enumerate(("pdflatex", "-halt-on-error", "-interaction", "errorstopmode",
                                                                       "-output-directory"))] == [True] * 5:
        f = reg.ufun("kreplace", ["Key", "Key", "Key"], "Key")
        target = "(%s %s %s %s)" % (f, items[6].s, reg.key(".tex").s, reg.key(".pdf").s)
    if target is not None:
        ip.assumptions.add(PROGRAMS)
        ax = T("(not (= (select %s %s) fnone))" % (after.s, target), "Bool")
        if not any(x.s == ax.s for x in st.pc):
            st.pc.append(ax)


def lib_popen(ip, st, pos, kws):
    if len(pos) != 1 or any(k not in ("stdin", "stdout", "stderr") for k in kws):
        raise U("subprocess.Popen: only Popen(cmd, stdin=, stdout=, stderr=) is modelled")
    need_fs(ip.reg)
    cmd = cmd_term(ip, st, pos[0])
    after = proc_fs_term(ip, fs_get(ip, st), cmd)
    ip.assumptions.add(NOTE)
    program_facts(ip, st, pos[0], after)
    st.notes["$fs"] = after
    _wf(ip, st, after)
    rc = ip.reg.new("returncode", "Int")
    from .dicts import scalar
    proc = ip.new_cell(st, ObjCell("Popen", {"returncode": Num(rc), "timeout_used": Opaque(scalar(ip, st, NONE))}))
    return [(st, proc)]


def sp_proc_fs(ip, st, pos, kws):
    """proc_fs(fs, cmd): the file system after the external program cmd ran on fs"""
    from .lib import _fs_arg
    fs = _fs_arg(ip, st, pos[0])
    cmd = cmd_term(ip, st, pos[1])
    after = proc_fs_term(ip, fs, cmd)
    if not ip.bound_stack:
        program_facts(ip, st, pos[1], after)
    return Opaque(after)


def sp_cmd_line(ip, st, pos, kws):
    """cmd_line(a, b, ...): the command line [a, b, ...] (strings; a flow value stands for the file name it is)"""
    reg = ip.reg
    t = reg.l_empty_canonical(reg.lst("Key"))
    items = []
    for p in pos:
        k = path_key(ip, st, p, "command line") if isinstance(p, Opaque) and p.sort == "V" else ip.key_term(str_operand(ip, st, p, "command line"))
        t = reg.l_append(t, k)
        items.append(k)
    r = Opaque(t)
    r.cmd_items = items
    return r


def sp_cmd_of(ip, st, pos, kws):
    """cmd_of(xs): the command line given as a list of strings"""
    return Opaque(cmd_term(ip, st, pos[0]))


def register(ix):
    from .contracts import Contract, ClassSpec
    ix.lib[("subprocess", "Popen")] = lib_popen
    ix.lib[("subprocess", "PIPE")] = Num(I(-1))
    ix.spec_names["proc_fs"] = sp_proc_fs
    ix.spec_names["cmd_line"] = sp_cmd_line
    ix.spec_names["cmd_of"] = sp_cmd_of
    if "Popen" not in ix.classes:
        ix.add_class(ClassSpec("Popen", "<stdlib>/subprocess.py", fields={"returncode": "Int", "timeout_used": "Val"}))
        ix.add(Contract(
            "<stdlib>/subprocess.py", "Popen.communicate", props=[], trusted=True,
            params={"self": "Self[Popen]", "input": "Any", "timeout": "Val"}, result="Tuple[V,V]",
            defaults={"input": None, "timeout": None},
            ensures=["self.timeout_used == timeout"], modifies=["self.timeout_used"],
            notes="subprocess (stdlib): communicate(input=None, timeout=None) waits for the process and returns "
                  "(stdout data, stderr data); the ghost field timeout_used of the process object records the timeout it was "
                  "given (None before / without one); TimeoutExpired is not modelled"))
