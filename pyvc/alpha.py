"""Contracts name the locals of a function (loop invariants, `local(x)`, loop ghosts typed by name).  When a function's
text differs from the text its contract was proved for ONLY by the names of its locals (same AST after replacing every
local by its position of first binding), the contract is renamed accordingly before verification conditions are
generated.  This is not an assumption: the renamed contract is verified like any other (a wrong renaming only makes
proofs fail).  It keeps a pure renaming of locals from turning proved obligations into undecided ones.

norm(fn) -> (ordered locals, sha1 of the position-normalised AST).  Parameters of the function itself, names declared
global / nonlocal, names of nested defs and attribute names are never renamed."""
import ast
import copy
import hashlib
import re


def _own_params(fn):
    a = fn.args
    names = [x.arg for x in a.posonlyargs + a.args + a.kwonlyargs]
    if a.vararg:
        names.append(a.vararg.arg)
    if a.kwarg:
        names.append(a.kwarg.arg)
    return set(names)


def _strip_docstrings(node):
    for n in ast.walk(node):
        body = getattr(n, "body", None)
        if isinstance(n, (ast.FunctionDef, ast.AsyncFunctionDef, ast.ClassDef, ast.Module)) and body:
            first = body[0]
            if isinstance(first, ast.Expr) and isinstance(getattr(first, "value", None), ast.Constant) \
                    and isinstance(first.value.value, str):
                n.body = body[1:] or [ast.Pass()]


class _Order(ast.NodeVisitor):
    """locals in the order of their first binding occurrence in source order"""

    def __init__(self, fixed):
        self.fixed, self.order = set(fixed), []

    def _add(self, name):
        if name not in self.fixed and name not in self.order:
            self.order.append(name)

    def visit_Global(self, n):
        self.fixed.update(n.names)

    visit_Nonlocal = visit_Global

    def visit_Name(self, n):
        if isinstance(n.ctx, (ast.Store, ast.Del)):
            self._add(n.id)

    def visit_arg(self, n):           # parameters of lambdas / nested defs (the function's own are `fixed`)
        self._add(n.arg)

    def visit_ExceptHandler(self, n):
        if n.name:
            self._add(n.name)
        self.generic_visit(n)

    def visit_FunctionDef(self, n):
        self.fixed.add(n.name)        # a nested def is addressed by contracts through its name: never renamed
        self.generic_visit(n)


class _Subst(ast.NodeTransformer):
    def __init__(self, index):
        self.index = index

    def visit_Name(self, n):
        if n.id in self.index:
            return ast.copy_location(ast.Name(id="_L%d" % self.index[n.id], ctx=n.ctx), n)
        return n

    def visit_arg(self, n):
        if n.arg in self.index:
            n.arg = "_L%d" % self.index[n.arg]
        return n

    def visit_ExceptHandler(self, n):
        if n.name in self.index:
            n.name = "_L%d" % self.index[n.name]
        return self.generic_visit(n)


def norm(fnnode):
    fn = copy.deepcopy(fnnode)
    _strip_docstrings(fn)
    fixed = _own_params(fn)
    o = _Order(fixed)
    for st in fn.body:
        o.visit(st)
    order = [x for x in o.order if x not in o.fixed]
    index = {x: k for k, x in enumerate(order)}
    # the function's own parameter list is left alone (params are in `fixed`, hence not in index)
    body = [_Subst(index).visit(st) for st in fn.body]
    text = "\n".join(ast.dump(st, annotate_fields=False, include_attributes=False) for st in body)
    return order, hashlib.sha1(text.encode()).hexdigest()


def rename_map(then, now):
    """then / now: {"locals": [...], "sha": ...}; returns {old: new} for a pure renaming of locals, else None"""
    if not then or then.get("sha") != now.get("sha") or len(then["locals"]) != len(now["locals"]):
        return None
    m = {o: n for o, n in zip(then["locals"], now["locals"]) if o != n}
    return m or None


SPEC_FIELDS = ("requires", "ensures", "raises", "exc_ensures", "at_yield", "abandon", "on_abandon", "at_call", "abstract",
               "assume_post", "local_types", "old_names", "out_def")
LOOP_FIELDS = ("invariant", "decreases", "havoc", "keep", "ghost", "init_ghost", "body_ghost", "cursor", "body_end")


def _ren_text(s, m, spec_names):
    def one(mo):
        name = mo.group(0)
        if name not in m:
            return name
        rest = s[mo.end():]
        if rest.lstrip().startswith("(") and name in spec_names:
            return name               # a specification function of the same name, not the local
        return m[name]
    # identifiers that are neither attribute names (preceded by a dot) nor inside a longer word / a string key
    return re.sub(r"(?<![\w.'\"])[A-Za-z_]\w*(?![\w'\"])", one, s)


def _ren(x, m, spec_names, keys=True):
    if isinstance(x, str):
        return _ren_text(x, m, spec_names)
    if isinstance(x, list):
        return [_ren(y, m, spec_names) for y in x]
    if isinstance(x, tuple):
        return tuple(_ren(y, m, spec_names) for y in x)
    if isinstance(x, dict):
        return {(_ren(k, m, spec_names) if keys and isinstance(k, str) else k): _ren(v, m, spec_names) for k, v in x.items()}
    return x


# names with a fixed meaning in clauses about the function as a whole (a local of the same name is only meant inside
# loop specifications, where no return value / yielded value exists yet)
RESERVED = ("result", "out", "yielded", "call_args", "call_self")


def renamed_case(case, m, spec_names=()):
    """a copy of the contract case whose specification texts follow the renaming m of the function's locals"""
    c = copy.copy(case)
    m_top = {k: v for k, v in m.items() if k not in RESERVED}
    for f in SPEC_FIELDS:
        if hasattr(c, f) and getattr(c, f):
            v = getattr(c, f)
            # raises / exc_ensures / at_call are keyed by exception class / method name: keys are not locals
            setattr(c, f, _ren(v, m_top, spec_names, keys=f in ("abstract", "local_types")))
    loops = {}
    for k, ls in (c.loops or {}).items():
        l2 = copy.copy(ls)
        for f in LOOP_FIELDS:
            if hasattr(l2, f) and getattr(l2, f):
                setattr(l2, f, _ren(getattr(l2, f), m, spec_names))
        loops[k] = l2
    c.loops = loops
    return c
