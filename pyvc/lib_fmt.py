"""str.format as an ABSTRACT library function (opt-in: Contract(ghost={"str_format_abstract": True})).

`fmt.format(*args)` for a format string and arguments that are context values (sort Val: scalars, strings, dictionaries):
  * the text is  kformat(fmt, args)  -- an uninterpreted function of the format string and of the ITEMS of the argument list
    (nothing is assumed about the text, not even injectivity);
  * ValueError is raised iff  kformat_valueerror(fmt, args)  (an uninterpreted predicate: a format spec the value rejects, a
    malformed replacement field) -- forked when a handler / the contract can take it, an obligation otherwise;
  * the other exceptions of str.format (IndexError / KeyError for a format string whose fields do not match the arguments,
    TypeError of a value's own __format__) are outside the model: recorded as an assumption of the unit.
Nothing else changes (str.format has no side effect on dictionaries, lists, numbers, strings)."""
from .smt import T, I, NOT, FALSE
from .sym import Opaque, Str, Ref, Num, Bool, NoneV
from .interp import Unsupported as U


def args_term(ip, st, pos):
    """the positional arguments as ONE list term of sort Lst_Val"""
    from .lib_flow import StarArgs
    from .speclib import lst_term
    from .dicts import dterm
    reg = ip.reg
    reg.need_val()
    sort = reg.lst("Val")
    if len(pos) == 1 and isinstance(pos[0], StarArgs):
        return lst_term(ip, st, pos[0].seq, sort)
    if any(isinstance(p, StarArgs) for p in pos):
        raise U("str.format: *args mixed with other positional arguments")
    t = reg.l_empty_canonical(sort)
    for p in pos:
        t = reg.l_append(t, dterm(ip, st, p))
    return t


def abstract_format(ip, st, fmt, pos, kws):
    """fmt: Str (a literal) or a symbolic string (Opaque of sort Key)"""
    if kws:
        raise U("str.format with keyword arguments (abstract model)")
    reg = ip.reg
    ft = reg.key(fmt.s) if isinstance(fmt, Str) else fmt.t
    at = args_term(ip, st, pos)
    sort = at.sort
    f = reg.ufun("kformat", ["Key", sort], "Key")
    p = reg.ufun("kformat_valueerror", ["Key", sort], "Bool")
    # a function of the ITEMS: two lists with the same items give the same text / the same verdict
    for g in (f, p):
        ax = T("(forall ((c Key) (a %s) (b %s)) (! (=> (and (= (len_%s a) (len_%s b)) (forall ((i Int)) (=> (and (<= 0 i) "
               "(< i (len_%s a))) (= (select (arr_%s a) i) (select (arr_%s b) i))))) (= (%s c a) (%s c b))) "
               ":pattern ((%s c a) (%s c b))))" % (sort, sort, sort, sort, sort, sort, sort, g, g, g, g), "Bool")
        if not any(x.s == ax.s for x in reg.axioms):
            reg.axioms.append(ax)
    ip.assumptions.add("library contract (tier A): str.format(*args) returns a text that is a function of the format string "
                       "and the arguments, or raises ValueError (a function of both as well); IndexError / KeyError / "
                       "TypeError of str.format are outside the model")
    cond = T("(%s %s %s)" % (p, ft.s, at.s), "Bool")
    if not ip.spec_mode:
        if ip.may_catch(st, "ValueError"):
            bad = st.fork(cond, "fmtVE.")
            ip.raise_(bad, "ValueError")
        else:
            ip.emit("safety", "str.format does not raise ValueError", st, NOT(cond))
        st.assume(NOT(cond))
    return [(st, Opaque(T("(%s %s %s)" % (f, ft.s, at.s), "Key")))]


# --------------------------------------------------------------------------- jinja2 templates (third party), abstract
# Opt-in per unit: Contract(ghost={"jinja_abstract": True}); the constructor model is registered by the contract module that
# needs it (ContractIndex.lib[("jinja2", "Template")] = jinja_template_new).  A template object is a SCALAR context value
# (sort Val, no dictionary, no string) that is an instance of jinja2.Template (the abstract predicate of
# builtins_.ext_instance):
#   jinja2.Template(src, undefined=U)  = jtemplate(src, strict)        strict: U is jinja2.StrictUndefined
#                                        raises jinja2.exceptions.TemplateSyntaxError iff jtemplate_syntax_error(src)
#   tm.render(context)                 = jtemplate_render(tm, context) (a string)
#                                        raises jinja2.exceptions.UndefinedError iff jtemplate_undefined(tm, context)
# All four are uninterpreted: nothing is assumed about jinja2 beyond "a function of its arguments, no side effect, these
# two exception classes".  The exceptions carry the class name "ext:<module>.<class>" (stmts.handler_classes).
SYNTAX_ERROR = "ext:jinja2.exceptions.TemplateSyntaxError"
UNDEFINED_ERROR = "ext:jinja2.exceptions.UndefinedError"


def template_facts(ip, st, t):
    """what every jinja2.Template object is in the encoding: a scalar that is no string and is an instance of the class"""
    from .builtins_ import ext_instance, type_test
    st.assume(ext_instance(ip, t, "jinja2", "Template"))
    st.assume(NOT(type_test(ip, st, Opaque(t), "str")))


def jinja_template_new(ip, st, pos, kws):
    if len(pos) != 1 or any(k != "undefined" for k in kws):
        raise U("jinja2.Template: only Template(source, undefined=...) is modelled")
    reg = ip.reg
    reg.need_val()
    src = pos[0]
    if not (isinstance(src, Str) or (isinstance(src, Opaque) and src.sort == "Key")):
        raise U("jinja2.Template of %r" % (src,))
    und = kws.get("undefined")
    from .sym import Fun
    if und is None:
        strict = "false"
    elif isinstance(und, Fun) and und.kind == "external" and und.mod == "jinja2" and und.name in ("StrictUndefined", "ChainableUndefined", "Undefined"):
        strict = "true" if und.name == "StrictUndefined" else "false"
    else:
        raise U("jinja2.Template(undefined=%r)" % (und,))
    ip.assumptions.add("library contract (tier A): jinja2.Template(source, undefined=..) returns a template object that is a "
                       "function of its arguments or raises TemplateSyntaxError; template.render(context) returns a string "
                       "that is a function of the template and the context or raises UndefinedError; no side effects")
    st_key = ip.key_term(src)
    p = reg.ufun("jtemplate_syntax_error", ["Key"], "Bool")
    cond = T("(%s %s)" % (p, st_key.s), "Bool")
    if not ip.spec_mode:
        if ip.may_catch(st, SYNTAX_ERROR):
            bad = st.fork(cond, "jSE.")
            ip.raise_(bad, SYNTAX_ERROR)
        else:
            ip.emit("safety", "jinja2.Template does not raise TemplateSyntaxError", st, NOT(cond))
        st.assume(NOT(cond))
    f = reg.ufun("jtemplate", ["Key", "Bool"], "Val")
    t = T("(%s %s %s)" % (f, st_key.s, strict), "Val")
    st.assume(T("(not (isD %s))" % t.s, "Bool"))
    template_facts(ip, st, t)
    return [(st, Opaque(t))]


jinja_template_new.ext_class = ("jinja2", "Template")


def jinja_render(ip, st, tm, pos, kws):
    """tm: Val term of a template object"""
    from .dicts import dterm
    if len(pos) != 1 or kws:
        raise U("template.render: only render(context) is modelled")
    reg = ip.reg
    c = dterm(ip, st, pos[0])
    p = reg.ufun("jtemplate_undefined", ["Val", "Val"], "Bool")
    cond = T("(%s %s %s)" % (p, tm.s, c.s), "Bool")
    ip.assumptions.add("library contract (tier A): jinja2.Template(source, undefined=..) returns a template object that is a "
                       "function of its arguments or raises TemplateSyntaxError; template.render(context) returns a string "
                       "that is a function of the template and the context or raises UndefinedError; no side effects")
    if not ip.spec_mode:
        if ip.may_catch(st, UNDEFINED_ERROR):
            bad = st.fork(cond, "jUE.")
            ip.raise_(bad, UNDEFINED_ERROR)
        else:
            ip.emit("safety", "template.render does not raise UndefinedError", st, NOT(cond))
        st.assume(NOT(cond))
    f = reg.ufun("jtemplate_render", ["Val", "Val"], "Key")
    return [(st, Opaque(T("(%s %s %s)" % (f, tm.s, c.s), "Key")))]


# --------------------------------------------------------------------------- re.match (truth value only)
def re_match(ip, st, pos, kws):
    """re.match(pattern, string) with a LITERAL pattern, as far as its TRUTH VALUE goes (a match object is truthy, None is
    not): a Bool -- the python `re` verdict for a literal string, the uninterpreted predicate re_match(pattern, string) for a
    symbolic one.  Anything else done with the result (.group ...) finds no such attribute on a Bool: out-of-subset."""
    from .smt import TRUE, FALSE
    from .sym import Bool
    if len(pos) != 2 or kws or not isinstance(pos[0], Str):
        raise U("re.match: only re.match(<literal pattern>, string) is modelled")
    s = pos[1]
    if isinstance(s, Str):
        import re
        return [(st, Bool(TRUE if re.match(pos[0].s, s.s) else FALSE))]
    if isinstance(s, Opaque) and s.sort == "Key":
        ip.assumptions.add("library contract (tier A): re.match(pattern, string) is a function of its arguments (only its "
                           "truth value is used)")
        f = ip.reg.ufun("re_match", ["Key", "Key"], "Bool")
        return [(st, Bool(T("(%s %s %s)" % (f, ip.reg.key(pos[0].s).s, s.t.s), "Bool")))]
    raise U("re.match on %r" % (s,))
