"""Engine additions made for contracts/P_sib.py (SplitIntoBins.compute, _MdSeqMap, MapBins.run): a python LIST OF GENERATOR
ITERATORS of symbolic length, as lena.math.md_map builds it from the cells of a histogram
(`[f(val) for val in cells]` with f = `lambda cell: cell.compute()`), and the cell-wise `[next(g) for g in generators]`.

IterLstCell(contents, cursors):  `contents` is a term of sort Lst_Lst_V -- contents[k] is everything iterator k delivers,
counted from its creation (generators of abstract elements are modelled functionally, like every IterCell: producing a
value has no other effect); `cursors` is a term of sort (Array Int Int) -- cursors[k] values have been taken from
iterator k so far.  The iterators are NEW objects owned by the list (they were created by the comprehension that built
the list, nothing else holds them), so the only way to advance one is through the list.

Everything here models the Python semantics exactly or raises Unsupported."""
import ast

from .smt import T, TRUE, FALSE, I, NOT, AND, OR, EQ, CMP, ADD, lit_int
from .sym import Num, Bool, Opaque, Ref, Fun, View, Cell, IterCell, LstCell


def U(msg):
    from .interp import Unsupported
    return Unsupported(msg)


class IterLstCell(Cell):
    """list of n new generator iterators (see the module docstring)"""

    def __init__(self, contents, cursors, makers=None):
        # makers (optional, term of sort Lst_Obj): makers[k] is the abstract element whose compute() / run() created iterator k
        self.contents, self.cursors, self.makers = contents, cursors, makers

    def __repr__(self):
        return "IterLstCell(%s, %s, %s)" % (self.contents, self.cursors, self.makers)


CONST0 = "((as const (Array Int Int)) 0)"


def sort_of(ip):
    return ip.reg.lst(ip.reg.lst("V"))


def make_iterlst(ip, args, name, st):
    """type IterLst[V]: some list of generator iterators (unknown contents, unknown positions)"""
    if [a.strip() for a in args] != ["V"]:
        raise U("type IterLst[%s]" % ",".join(args))
    reg = ip.reg
    contents = reg.new(name + "$all", sort_of(ip))
    ip.assume_wf(st, contents)
    cursors = reg.new(name + "$cur", "(Array Int Int)")
    k = "ik%d" % next(ip.bound)
    at = reg.l_get(contents, T(k, "Int"))
    cur = "(select %s %s)" % (cursors.s, k)
    # an iterator never is beyond the end of what it delivers
    st.assume(T("(forall ((%s Int)) (! (and (<= 0 %s) (<= %s %s)) :pattern (%s)))" % (
        k, cur, cur, reg.l_len(at).s, cur), "Bool"))
    makers = reg.new(name + "$makers", reg.lst("Obj"))
    st.assume(EQ(reg.l_len(makers), reg.l_len(contents)))
    return ip.new_cell(st, IterLstCell(contents, cursors, makers))


def cell_of(st, v):
    if isinstance(v, Ref) and not v.path and isinstance(st.heap.get(v.cid), IterLstCell):
        return st.heap[v.cid]
    return None


# --------------------------------------------------------------------------- creation: [f(val) for val in cells]
def content_term(ip, base, s2, r):
    """the Lst_V term of everything the NEW iterator r (created in the throw-away state s2, not in `base`) delivers"""
    cell = s2.heap.get(r.cid) if isinstance(r, Ref) and not r.path else None
    if not isinstance(cell, IterCell) or r.cid in base.heap:
        raise U("list of iterators: an item is not an iterator created by the comprehension itself")
    t = getattr(cell.src, "term", None) if cell.src is not None else None
    if t is None or lit_int(cell.cursor) != 0 or cell.limit is not None or cell.name is not None \
            or any(getattr(cell, a, None) is not None for a in ("kind", "live", "shared", "consumes")):
        raise U("list of iterators: an item is an iterator without a content term (or a partly consumed one)")
    if t.sort != ip.reg.lst("V"):
        raise U("list of iterators over " + t.sort)
    return t


def is_new_iterator(snap, s2, sample):
    return s2 is not None and isinstance(sample, Ref) and not sample.path and sample.cid not in snap.heap \
        and isinstance(s2.heap.get(sample.cid), IterCell)


def iterlst_from_comprehension(ip, st, snap, s2, v, q, n, sample, new_consts, n_pc):
    """called by histlib.symbolic_listcomp when the generic item of a list comprehension of symbolic length is a NEW
    iterator: the value of the comprehension is a list of such iterators, none of them advanced"""
    from .histlib import skolem_listcomp, _sv_text
    from .calls import materialise
    reg = ip.reg
    item = content_term(ip, snap, s2, sample)
    text = item.s + " " + " ".join(h.s for h in s2.pc[n_pc:])
    makers = None
    if new_consts and any(name in text for name, _ in new_consts):
        # the item expression introduced unknowns (a deep copy of the sequence per cell): unknowns PER ITEM
        ref = skolem_listcomp(ip, st, snap, s2, v, q, n, Opaque(item), new_consts, n_pc)
        contents = ip.deref(st, ref)
        # objects the generic item allocates (copy.deepcopy of an element) are allocated anew for EVERY item: the objects
        # of different items are different objects
        for cname in s2.notes.get("$new_objs", ()):
            if cname in snap.notes.get("$new_objs", ()) or not any(cname == nm for nm, _ in new_consts):
                continue
            fn = cname[:-1] + "$f|"
            a, b = "nx%d" % next(ip.bound), "ny%d" % next(ip.bound)
            st.assume(T("(forall ((%s Int) (%s Int)) (! (=> (and (<= 0 %s) (< %s %s) (<= 0 %s) (< %s %s) (not (= %s %s))) "
                        "(not (= (%s %s) (%s %s)))) :pattern ((%s %s) (%s %s))))" % (
                            a, b, a, a, n.s, b, b, n.s, a, b, fn, a, fn, b, fn, a, fn, b), "Bool"))
        mk = maker_of(item)
        if mk is not None:
            # the same substitution as skolem_listcomp: every unknown c of the generic item is the function c$f of the index
            x = "mk%d" % next(ip.bound)
            ms = mk.replace(q.s, x)
            for name, sort in new_consts:
                if name != q.s and not name.startswith("|dflt:"):
                    ms = ms.replace(name, "(%s %s)" % (name[:-1] + "$f|", x))
            makers = reg.new("makers", reg.lst("Obj"))
            st.assume(EQ(reg.l_len(makers), reg.l_len(contents)))
            at = reg.l_get(makers, T(x, "Int"))
            st.assume(T("(forall ((%s Int)) (! (=> (and (<= 0 %s) (< %s %s)) (= %s %s)) :pattern (%s)))" % (
                x, x, x, n.s, at.s, ms, at.s), "Bool"))
    else:
        for cid, cell in snap.heap.items():
            if s2.heap.get(cid) is not cell:
                raise U("item expression of a comprehension of symbolic length changes an existing object")
        for k in set(snap.env) | set(s2.env):
            if k.startswith("$") and s2.env.get(k) is not snap.env.get(k):
                raise U("item expression of a comprehension of symbolic length changes ghost state " + k)
        get2 = v.get2

        def get(i):
            ip.silent = getattr(ip, "silent", 0) + 1
            n_exc = len(ip._exc_out)
            try:
                r, s3 = get2(i)
                return ip.lst_view(content_term(ip, snap, s3, r))
            finally:
                ip.silent -= 1
                del ip._exc_out[n_exc:]
        cv = View(v.len, get)
        contents = materialise(ip, st, cv, sort_of(ip))
        ip.assume_wf(st, contents)
        ref = ip.new_cell(st, LstCell(contents))
        if maker_of(item) is not None:
            def get_maker(i):
                ip.silent = getattr(ip, "silent", 0) + 1
                n_exc = len(ip._exc_out)
                try:
                    r, s3 = get2(i)
                    m = maker_of(content_term(ip, snap, s3, r))
                    if m is None:
                        raise U("list of iterators: the items are not all made by compute() / run() of an element")
                    return Opaque(T(m, "Obj"))
                finally:
                    ip.silent -= 1
                    del ip._exc_out[n_exc:]
            makers = materialise(ip, st, View(v.len, get_maker), reg.lst("Obj"))
    st.heap[ref.cid] = IterLstCell(contents, T(CONST0, "(Array Int Int)"), makers)
    return ref


def maker_of(item):
    """the element term X when the content term of an iterator is (el_compute X state) / (el_run X input), else None"""
    for fn in ("(el_compute ", "(el_run "):
        if item.s.startswith(fn):
            rest = item.s[len(fn):]
            if rest.startswith("("):
                depth = 0
                for k, ch in enumerate(rest):
                    depth += ch == "("
                    depth -= ch == ")"
                    if depth == 0:
                        return rest[:k + 1]
                return None
            if rest.startswith("|"):
                return rest[:rest.index("|", 1) + 1]
            return rest.split(" ", 1)[0]
    return None


# --------------------------------------------------------------------------- [next(g) for g in generators]
def iterlst_comprehension(ip, e, st):
    """`[f(g) for g in gens]` where gens is a list of generator iterators (IterLstCell) and f is the builtin next: python
    takes one value from every iterator in order; the first exhausted one raises StopIteration (the earlier ones have been
    advanced, the later ones not).  Returns a list of (state, new list) or None when the comprehension is not over such a
    list."""
    if len(e.generators) != 1:
        return None
    g = e.generators[0]
    ip.spec_mode += 1
    try:
        try:
            itv = ip.ev1(g.iter, st)
        except Exception:
            return None
    finally:
        ip.spec_mode -= 1
    cell = cell_of(st, itv)
    if cell is None:
        return None
    call = e.elt
    if g.ifs or g.is_async or not isinstance(g.target, ast.Name) or not isinstance(call, ast.Call) or call.keywords \
            or len(call.args) != 1 or not isinstance(call.args[0], ast.Name) or call.args[0].id != g.target.id:
        raise U("comprehension over a list of generators: only [next(g) for g in gens] is modelled")
    ip.spec_mode += 1
    try:
        f = ip.ev1(call.func, st)
    finally:
        ip.spec_mode -= 1
    if not (isinstance(f, Fun) and f.kind == "builtin" and f.name == "next"):
        raise U("comprehension over a list of generators: only [next(g) for g in gens] is modelled")
    return next_all(ip, st, itv)


def next_all(ip, st, ref):
    reg = ip.reg
    cell = st.heap[ref.cid]
    contents, cur = cell.contents, cell.cursors
    n = reg.l_len(contents)
    k = "nk%d" % next(ip.bound)
    kt = T(k, "Int")
    rng = "(and (<= 0 %s) (< %s %s))" % (k, k, n.s)

    def has(i):
        return "(< (select %s %s) %s)" % (cur.s, i, reg.l_len(reg.l_get(contents, T(i, "Int"))).s)
    has_k = has(k)
    has_all = T("(forall ((%s Int)) (=> %s %s))" % (k, rng, has_k), "Bool")
    outs = []
    # ---- some iterator is exhausted: StopIteration from the FIRST such one
    ex = st.fork(NOT(has_all), "E.")
    k0 = reg.new("first_exhausted", "Int")
    c2 = reg.new("cursors", "(Array Int Int)")
    ex.assume(T("(and (<= 0 %s) (< %s %s))" % (k0.s, k0.s, n.s), "Bool"))
    ex.assume(T("(not %s)" % has(k0.s), "Bool"))
    ex.assume(T("(forall ((%s Int)) (=> (and (<= 0 %s) (< %s %s)) %s))" % (k, k, k, k0.s, has_k), "Bool"))
    ex.assume(T("(forall ((%s Int)) (! (= (select %s %s) (ite (and (<= 0 %s) (< %s %s)) (+ (select %s %s) 1) (select %s %s))) "
                ":pattern ((select %s %s))))" % (k, c2.s, k, k, k, k0.s, cur.s, k, cur.s, k, c2.s, k), "Bool"))
    ex.heap[ref.cid] = IterLstCell(contents, c2, cell.makers)
    if ip.may_catch(ex, "StopIteration"):
        ip.raise_(ex, "StopIteration")
    else:
        ip.emit("safety", "next-on-nonempty", ex, FALSE)
    # ---- every iterator has a value: the list of these values; every iterator advanced by one
    ok = st.fork(has_all, "V.")
    lv = reg.lst("V")
    r = reg.new("row", lv)
    ok.assume(EQ(reg.l_len(r), n))
    item = reg.l_get(reg.l_get(contents, kt), T("(select %s %s)" % (cur.s, k), "Int"))
    ok.assume(T("(forall ((%s Int)) (! (=> %s (= %s %s)) :pattern (%s)))" % (
        k, rng, reg.l_get(r, kt).s, item.s, reg.l_get(r, kt).s), "Bool"))
    c3 = reg.new("cursors", "(Array Int Int)")
    ok.assume(T("(forall ((%s Int)) (! (= (select %s %s) (ite %s (+ (select %s %s) 1) (select %s %s))) "
                ":pattern ((select %s %s))))" % (k, c3.s, k, rng, cur.s, k, cur.s, k, c3.s, k), "Bool"))
    ok.heap[ref.cid] = IterLstCell(contents, c3, cell.makers)
    outs.append((ok, ip.new_cell(ok, LstCell(r))))
    return outs


# --------------------------------------------------------------------------- contract language
def _cell(ip, st, v, what):
    c = cell_of(st, v)
    if c is None:
        raise U("%s of %r (not a list of generators)" % (what, v))
    return c


def sp_gen_len(ip, st, pos, kws):
    """gen_len(gens): number of iterators in the list"""
    return Num(ip.reg.l_len(_cell(ip, st, pos[0], "gen_len").contents))


def sp_gen_content(ip, st, pos, kws):
    """gen_content(gens, k): everything iterator k delivers, counted from its creation"""
    return ip.lst_view(ip.reg.l_get(_cell(ip, st, pos[0], "gen_content").contents, ip.num(pos[1])))


def sp_gen_pulled(ip, st, pos, kws):
    """gen_pulled(gens, k): how many values have been taken from iterator k"""
    return Num(T("(select %s %s)" % (_cell(ip, st, pos[0], "gen_pulled").cursors.s, ip.num(pos[1]).s), "Int"))


def sp_gen_maker(ip, st, pos, kws):
    """gen_maker(gens, k): the abstract element whose compute() / run() created iterator k"""
    c = _cell(ip, st, pos[0], "gen_maker")
    if c.makers is None:
        raise U("gen_maker: the iterators of this list were not made by compute() / run() of abstract elements")
    return Opaque(ip.reg.l_get(c.makers, ip.num(pos[1])))


def register(ix):
    for name, fn in [("gen_len", sp_gen_len), ("gen_content", sp_gen_content), ("gen_pulled", sp_gen_pulled),
                     ("gen_maker", sp_gen_maker)]:
        ix.spec_names[name] = fn


# --------------------------------------------------------------------------- len / indexing / isinstance
def iterlst_is_list(cell, ref):
    return not ref.path


def iterlst_len(ip, st, cell, ref):
    if ref.path:
        raise U("len() of a generator")
    return Num(ip.reg.l_len(cell.contents))


def iterlst_index(ip, s, cell, ref, i):
    """gens[i]: a handle on the i-th generator (IndexError out of range).  Nothing but isinstance() is defined on the handle
    (every other use reads the heap cell through the path and is refused)"""
    if ref.path:
        raise U("indexing a generator")
    n = ip.reg.l_len(cell.contents)
    idx = ip.norm_index(ip.num(i), n)
    s2 = ip.check_index(s, idx, n)
    if s2 is None:
        return []
    return [(s2, Ref(ref.cid, (idx,)))]


# --------------------------------------------------------------------------- for x in <instance with __iter__ / __next__>
def for_object(ip, s, st, itv, k, spec):
    """`for target in obj` where obj is an instance of a repository class: python calls iter(obj) once and next() on the
    result before every iteration; StopIteration from next() ends the loop.  Both methods go through their contracts:
    __iter__ must return the object itself (Contract(result_alias="self")), __next__ must be one plain contract whose
    `modifies` frame lists fields of the object (they are unknown at the loop head).  The loop is cut at its invariant
    (ghost `_i` = number of completed iterations)."""
    from .stmts import (set_loop_ghost, ghost_init, check_invariants, havoc_loop, assume_invariants, measure, ghost_body,
                        end_of_body, assign_to, exec_block)
    from .calls import apply_contract
    from .sym import ObjCell
    cls = st.heap[itv.cid].cls
    k_iter = ip.contracts.find_method(cls, "__iter__")
    k_next = ip.contracts.find_method(cls, "__next__")
    if k_iter is None or k_next is None:
        raise U("for over an instance of %s: no contracts for __iter__ / __next__" % cls)
    if k_iter.inline or k_iter.cases or k_iter.result_alias != list(k_iter.params.keys())[0] or k_iter.modifies or k_iter.raises:
        raise U("for over an instance of %s: __iter__ must be a plain contract that returns the object itself" % cls)
    if k_next.inline:
        raise U("for over an instance of %s: __next__ needs a contract (not an inlined helper)" % cls)
    if spec is None:
        raise U("loop #%s (for over an instance of %s) needs an invariant" % (k, cls))
    outs0 = apply_contract(ip, st, k_iter, [itv], {})
    if len(outs0) != 1 or not (isinstance(outs0[0][1], Ref) and outs0[0][1].cid == itv.cid):
        raise U("for over an instance of %s: __iter__ does not return the object" % cls)
    st = outs0[0][0]
    set_loop_ghost(ip, st, k, I(0))
    ghost_init(ip, spec, st)
    check_invariants(ip, k, spec, st, "init")
    h = st.fork(None, "L%s:" % k)
    i_t = ip.reg.new("_i%s" % k, "Int")
    # what the body changes, plus the frame of the next() call made before every iteration (stmts.call_frame)
    step = ast.Expr(value=ast.Call(func=ast.Name(id="next", ctx=ast.Load()), args=[s.iter], keywords=[]))
    ast.fix_missing_locations(ast.copy_location(step, s))
    for n in ast.walk(step):
        if not hasattr(n, "lineno"):
            ast.copy_location(n, s)
    ip.spec_mode += 1
    try:
        f = ip.ev1(step.value.func, h)
    finally:
        ip.spec_mode -= 1
    if not (isinstance(f, Fun) and f.kind == "builtin" and f.name == "next"):
        raise U("for over an instance of %s: the name `next` is re-bound in this function" % cls)
    havoc_loop(ip, s, h, spec, s.body + [step])
    h.assume(CMP(">=", i_t, I(0)))
    set_loop_ghost(ip, h, k, i_t)
    assume_invariants(ip, spec, h)
    h.notes["epoch_%s" % k] = getattr(ip, "n_cells", 0)
    m0 = measure(ip, spec, h)
    if m0 is None and not ip.c.trusted:
        ip.assumptions.add("termination of loop #%s of %s not proved (no decreases clause)" % (k, ip.c.name))
    outs = []
    n_exc = len(ip._exc_out)
    saved_catch = h.catching
    h.catching = saved_catch + ("StopIteration",)
    results = apply_contract(ip, h, k_next, [itv], {})
    new_exc = ip._exc_out[n_exc:]
    ip._exc_out = ip._exc_out[:n_exc]
    for sx, exc in new_exc:
        sx.catching = saved_catch
        if exc.cls == "StopIteration":
            sx.trace += "X."
            sx.notes["inloop_%s" % k] = False
            outs.append(("next", sx, None))
        else:
            ip._exc_out.append((sx, exc))
    for s2, val in results:
        s2.catching = saved_catch
        s2.notes["epoch_%s" % k] = getattr(ip, "n_cells", 0)
        s2.notes["inloop_%s" % k] = True
        for s3 in assign_to(ip, s.target, val, s2):
            ghost_body(ip, spec, s3)
            for kind, s4, payload in exec_block(ip, s.body, s3):
                if kind in ("next", "continue"):
                    set_loop_ghost(ip, s4, k, ADD(i_t, I(1)))
                    end_of_body(ip, k, spec, s4, m0)
                elif kind == "break":
                    s4.trace += "B."
                    s4.notes["inloop_%s" % k] = False
                    outs.append(("next", s4, None))
                else:
                    outs.append((kind, s4, payload))
    return outs


# --------------------------------------------------------------------------- forking item expressions of a comprehension
def merge_scalar_outcomes(ip, st, outs):
    """the alternatives of the item expression of a comprehension of symbolic length (no forking possible there), e.g.
    lena.flow.get_data of an abstract flow value (a (data, context) pair or bare data): when every alternative leaves
    everything that existed untouched (heap cells, bindings, ghost notes other than the cache of value-context cells) and
    its value is a plain term (a number, a flow value, ... -- nothing that could refer to an object the alternative
    created), the alternatives differ only in path condition and value: ONE outcome in the caller's state, the value an
    if-then-else.  Facts the alternatives established are dropped (sound: less is known).  None when not of this form."""
    from .interp import Unsupported
    n0 = len(st.pc)
    alts = []
    for s3, v in outs:
        if not (isinstance(v, (Num, Bool)) or (isinstance(v, Opaque) and v.sort in ("V", "Key", "Val"))):
            return None
        if any(s3.heap.get(k) is not c for k, c in st.heap.items()):
            return None
        if set(s3.env) != set(st.env) or any(s3.env[k] is not st.env[k] for k in st.env):
            return None
        keys = (set(s3.notes) | set(st.notes)) - {"vctx"}
        if any(k not in s3.notes or k not in st.notes or s3.notes[k] is not st.notes[k] and s3.notes[k] != st.notes[k] for k in keys):
            return None
        if len(s3.pc) < n0 or any(a is not b for a, b in zip(s3.pc[:n0], st.pc)):
            return None
        alts.append((AND(*s3.pc[n0:]), v))
    res = alts[-1][1]
    try:
        for c, v in reversed(alts[:-1]):
            res = ip.ite_sv(c, v, res)
    except Unsupported:
        return None
    return [(st, res)]


def havoc_iterlst(ip, st, ref, name):
    """the list object gets unknown content (calls.havoc_value): some list of generators at some positions"""
    fresh = make_iterlst(ip, ["V"], name, st)
    st.heap[ref.cid] = st.heap.pop(fresh.cid)
    return ref
