"""Engine additions made for contracts/P_hist2.py (graphs, histogram -> CSV): functools.partial, map() of a pure numeric
function over a list of symbolic length, str.format of a literal template with symbolic arguments.

Everything here either models the Python semantics exactly or raises Unsupported."""
import ast

from .smt import (T, TRUE, FALSE, I, NOT, AND, OR, IMP, ITE, EQ, ADD, SUB, MUL, CMP, lit_int)
from .sym import (Num, Bool, NoneV, NONE, Str, Opaque, Tup, Ref, View, Fun, LstCell, PyListCell)


def U(msg):
    from .interp import Unsupported
    return Unsupported(msg)


# --------------------------------------------------------------------------- functools.partial
def lib_partial(ip, st, pos, kws):
    """functools.partial(f, *args): a callable g with g(*more) == f(*args, *more) (keyword arguments: not modelled)"""
    if kws or not pos:
        raise U("functools.partial call form")
    f, head = pos[0], list(pos[1:])
    if not isinstance(f, Fun):
        raise U("functools.partial of %r" % (f,))

    def impl(ip2, st2, pos2, kws2):
        from .calls import call_value
        return call_value(ip2, st2, f, head + list(pos2), kws2)
    g = Fun("lib", name="partial", mod="functools", impl=impl)
    g.partial_of, g.partial_args = f, head
    return [(st, g)]


def map_symbolic(ip, st, f, view):
    """map(f, xs) over a sequence xs of NUMBERS of symbolic length, f = functools.partial(operator.<op>, <number>): the
    lazy sequence of f(xs[i]).  f is applied to numbers only, which has no effect, cannot fork and cannot raise (the
    arithmetic operators over the mathematical numbers; a division is refused here); so evaluating an item whenever it is
    looked at gives what the lazy map object delivers.  Anything else: out-of-subset."""
    from .histlib import LIB
    inner = getattr(f, "partial_of", None)
    ok_ops = [LIB[("operator", n)] for n in ("mul", "add", "sub")]
    if not (isinstance(f, Fun) and f.kind == "lib" and isinstance(inner, Fun) and inner.kind == "lib"
            and any(inner.impl is o for o in ok_ops) and len(f.partial_args) == 1 and isinstance(f.partial_args[0], Num)):
        raise U("map over a sequence of symbolic length with a function that is not partial(operator.mul/add/sub, number)")
    q = T("mp%d" % next(ip.bound), "Int")
    if not isinstance(view.get(q), Num):
        raise U("map(partial(operator.op, c), xs) over a symbolic sequence of non-numbers")
    c = f.partial_args[0]
    snap = st.copy()

    def get(i):
        x = view.get(i)
        outs = inner.impl(ip, snap.copy(), [c, x], {})
        if len(outs) != 1 or not isinstance(outs[0][1], Num):
            raise U("map: operator function over numbers forked")
        return outs[0][1]
    r = View(view.len, get)
    r.lazy = True
    r.ephemeral = True          # reads xs as it is NOW: storing the map object for later is refused (stmts.assign_to)
    # the sequence as a list TERM (array given by a lambda over the index): `list(map(...))` is then this term itself and
    # not an unknown list constrained by a quantified hypothesis (which would keep the solvers from confirming a
    # counter-model of a failing clause)
    try:
        from .builtins_ import sv_lst_sort
        b = T("mi%d" % next(ip.bound), "Int")
        item = get(b)
        sort = sv_lst_sort(ip, item)
        if item.t.sort == ip.reg.lst_elem[sort]:
            r.term = ip.reg.l_mk(sort, "(lambda ((%s Int)) %s)" % (b.s, item.t.s), view.len)
    except Exception:
        pass
    if getattr(view, "guard_len", None) is not None:
        r.guard_len = view.guard_len
    return [(st, r)]


def slice_assign(ip, target, v, st):
    """`xs[:] = iterable` for a list xs of numbers (a list cell of symbolic length): python first makes a list of the
    iterable (while xs still has its old content), then replaces the whole content of the OBJECT xs by it; every name /
    container that refers to that object sees the new content."""
    from .builtins_ import consume_view, sv_lst_sort
    from .calls import materialise
    sl = target.slice
    if sl.lower is not None or sl.upper is not None or sl.step is not None:
        raise U("slice assignment other than xs[:] = ...")
    res = []
    for s2, base in ip.ev(target.value, st):
        if not (isinstance(base, Ref) and isinstance(s2.heap.get(base.cid), LstCell)):
            raise U("slice assignment to %r" % (base,))
        cur = ip.deref(s2, base)
        el = ip.reg.lst_elem[cur.sort]
        if el not in ("Int", "Real"):
            raise U("slice assignment to a list of " + el)
        view = consume_view(ip, s2, v)
        if view.items is None and not isinstance(view.get(T("sa%d" % next(ip.bound), "Int")), (Num, Bool)):
            raise U("slice assignment of non-numbers")
        t = getattr(view, "term", None)
        if t is None or t.sort != cur.sort:
            if view.items is None and sv_lst_sort(ip, view.get(T("sa%d" % next(ip.bound), "Int"))) != cur.sort and el != "Real":
                raise U("slice assignment changes the element type of the list")
            t = materialise(ip, s2, view, cur.sort)
        ip.store(s2, base, t)
        res.append(s2)
    return res


# --------------------------------------------------------------------------- str.format (Contract.ghost["str_format"])
def format_field(ip, st, v, spec):
    """format(v, spec) as a string term.  A string with the empty spec is itself; a number is `num_format(spec, v)`: an
    uninterpreted function of the spec and of the NUMBER (integers and floats denoting the same number are formatted
    alike only for the float presentation types e/f/g/%, so the function is taken per kind of number otherwise).
    Nothing is assumed about the text produced (not even injectivity)."""
    reg = ip.reg
    reg.need_val()
    if isinstance(v, Str) or (isinstance(v, Opaque) and v.sort == "Key"):
        if spec != "":
            raise U("str.format of a string with a format spec")
        return v
    if isinstance(v, Bool):
        raise U("str.format of a bool")
    if isinstance(v, Num) and not getattr(v, "decimal", False):
        from .smt import to_real
        floaty = spec[-1:] in ("e", "E", "f", "F", "g", "G", "%") and spec[-1:] != ""
        if floaty or v.sort == "Real":
            f = reg.ufun("num_format_Real", ["Key", "Real"], "Key")
            return Opaque(T("(%s %s %s)" % (f, reg.key(spec).s, to_real(v.t).s), "Key"))
        if spec[-1:] in ("", "d", "n"):
            f = reg.ufun("num_format_Int", ["Key", "Int"], "Key")
            return Opaque(T("(%s %s %s)" % (f, reg.key(spec).s, v.t.s), "Key"))
        raise U("str.format of an integer with spec %r" % spec)
    raise U("str.format of %r" % (v,))


def str_format(ip, st, template, pos, kws):
    """"...{}...{:spec}...".format(*pos): the literal pieces and the formatted fields concatenated in order (the same `+`
    as in the program text, so that a clause may state a line either way).  Only automatically / explicitly numbered
    positional fields without conversion (`!r`) and without nested fields; a number formatted with a float presentation
    type cannot fail, anything else that could raise is out-of-subset."""
    import string
    if kws:
        raise U("str.format with keyword arguments")
    try:
        parts = list(string.Formatter().parse(template))
    except ValueError:
        raise U("str.format: malformed template")
    pieces, auto = [], 0
    for lit, field, spec, conv in parts:
        if lit:
            pieces.append(Str(lit))
        if field is None:
            continue
        if conv is not None or (spec and ("{" in spec or "}" in spec)):
            raise U("str.format with a conversion or a nested field")
        if field == "" and auto is not None and auto >= 0:
            k, auto = auto, auto + 1
        elif field.isdigit() and auto in (0, None):
            k, auto = int(field), None          # (mixing both numberings is a ValueError in python)
        else:
            raise U("str.format with a named / attribute field")
        if k >= len(pos):
            raise U("str.format: fewer arguments than fields (IndexError)")
        pieces.append(format_field(ip, st, pos[k], spec or ""))
    if not pieces:
        return [(st, Str(""))]
    outs = [(st, pieces[0])]
    for p in pieces[1:]:
        outs = [(s3, r) for s2, acc in outs for s3, r in ip.binop(ast.Add(), acc, p, s2)]
    return outs


def register(ix):
    ix.lib[("functools", "partial")] = lib_partial
