"""Engine additions made for contracts/P_hist2.py (graphs, histogram -> CSV): functools.partial, map() of a pure numeric
function over a list of symbolic length, str.format of a literal template with symbolic arguments.

Everything here either models the Python semantics exactly or raises Unsupported."""
import ast

from .smt import (T, TRUE, FALSE, I, NOT, AND, OR, IMP, ITE, EQ, ADD, SUB, MUL, CMP, lit_int)
from .sym import (Num, Bool, NoneV, NONE, Str, Opaque, Tup, Ref, View, Fun, LstCell, PyListCell)


def U(msg):
    from .interp import Unsupported
    return Unsupported(msg)


# --------------------------------------------------------------------------- functools.partial
def lib_partial(ip, st, pos, kws):
    """functools.partial(f, *args): a callable g with g(*more) == f(*args, *more) (keyword arguments: not modelled)"""
    if kws or not pos:
        raise U("functools.partial call form")
    f, head = pos[0], list(pos[1:])
    if not isinstance(f, Fun):
        raise U("functools.partial of %r" % (f,))

    def impl(ip2, st2, pos2, kws2):
        from .calls import call_value
        return call_value(ip2, st2, f, head + list(pos2), kws2)
    g = Fun("lib", name="partial", mod="functools", impl=impl)
    g.partial_of, g.partial_args = f, head
    return [(st, g)]


def map_lambda(ip, st, f, view):
    """map(lambda x: <expression>, xs) over a sequence of symbolic length (contracts/P_acc2.py: seq_map): the lazy sequence of
    the expression at xs[i] -- only when evaluating it for an item has no effect, does not fork and raises nothing (checked
    at every look at an item; otherwise out-of-subset)"""
    from .calls import inline_lambda
    snap = st.copy()

    def get(i):
        s2 = snap.copy()
        n_exc = len(ip._exc_out)
        outs = inline_lambda(ip, s2, f, [view.get(i)], {})
        if len(outs) != 1 or len(ip._exc_out) != n_exc:
            del ip._exc_out[n_exc:]
            raise U("map(lambda, xs) over a symbolic sequence: the lambda forks or raises")
        s3, v = outs[0]
        if set(s3.heap) != set(snap.heap) or any(s3.heap[k] is not snap.heap[k] for k in snap.heap):
            raise U("map(lambda, xs) over a symbolic sequence: the lambda has an effect")
        return v
    r = View(view.len, get)
    r.lazy = True
    r.ephemeral = True
    if getattr(view, "guard_len", None) is not None:
        r.guard_len = view.guard_len
    return [(st, r)]


def map_symbolic(ip, st, f, view):
    """map(f, xs) over a sequence xs of NUMBERS of symbolic length, f = functools.partial(operator.<op>, <number>): the
    lazy sequence of f(xs[i]).  f is applied to numbers only, which has no effect, cannot fork and cannot raise (the
    arithmetic operators over the mathematical numbers; a division is refused here); so evaluating an item whenever it is
    looked at gives what the lazy map object delivers.  Anything else: out-of-subset."""
    if isinstance(f, Fun) and f.kind == "lambda":
        return map_lambda(ip, st, f, view)
    from .histlib import LIB
    inner = getattr(f, "partial_of", None)
    ok_ops = [LIB[("operator", n)] for n in ("mul", "add", "sub")]
    if not (isinstance(f, Fun) and f.kind == "lib" and isinstance(inner, Fun) and inner.kind == "lib"
            and any(inner.impl is o for o in ok_ops) and len(f.partial_args) == 1 and isinstance(f.partial_args[0], Num)):
        raise U("map over a sequence of symbolic length with a function that is not partial(operator.mul/add/sub, number)")
    q = T("mp%d" % next(ip.bound), "Int")
    if not isinstance(view.get(q), Num):
        raise U("map(partial(operator.op, c), xs) over a symbolic sequence of non-numbers")
    c = f.partial_args[0]
    snap = st.copy()

    def get(i):
        x = view.get(i)
        outs = inner.impl(ip, snap.copy(), [c, x], {})
        if len(outs) != 1 or not isinstance(outs[0][1], Num):
            raise U("map: operator function over numbers forked")
        return outs[0][1]
    r = View(view.len, get)
    r.lazy = True
    r.ephemeral = True          # reads xs as it is NOW: storing the map object for later is refused (stmts.assign_to)
    # the sequence as a list TERM (array given by a lambda over the index): `list(map(...))` is then this term itself and
    # not an unknown list constrained by a quantified hypothesis (which would keep the solvers from confirming a
    # counter-model of a failing clause)
    try:
        from .builtins_ import sv_lst_sort
        b = T("mi%d" % next(ip.bound), "Int")
        item = get(b)
        sort = sv_lst_sort(ip, item)
        if item.t.sort == ip.reg.lst_elem[sort]:
            r.term = ip.reg.l_mk(sort, "(lambda ((%s Int)) %s)" % (b.s, item.t.s), view.len)
    except Exception:
        pass
    if getattr(view, "guard_len", None) is not None:
        r.guard_len = view.guard_len
    return [(st, r)]


def slice_assign(ip, target, v, st):
    """`xs[:] = iterable` for a list xs of numbers (a list cell of symbolic length): python first makes a list of the
    iterable (while xs still has its old content), then replaces the whole content of the OBJECT xs by it; every name /
    container that refers to that object sees the new content."""
    from .builtins_ import consume_view, sv_lst_sort
    from .calls import materialise
    sl = target.slice
    if sl.lower is not None or sl.upper is not None or sl.step is not None:
        raise U("slice assignment other than xs[:] = ...")
    res = []
    for s2, base in ip.ev(target.value, st):
        if not (isinstance(base, Ref) and isinstance(s2.heap.get(base.cid), LstCell)):
            raise U("slice assignment to %r" % (base,))
        cur = ip.deref(s2, base)
        el = ip.reg.lst_elem[cur.sort]
        if el not in ("Int", "Real"):
            raise U("slice assignment to a list of " + el)
        view = consume_view(ip, s2, v)
        if view.items is None and not isinstance(view.get(T("sa%d" % next(ip.bound), "Int")), (Num, Bool)):
            raise U("slice assignment of non-numbers")
        t = getattr(view, "term", None)
        if t is None or t.sort != cur.sort:
            if view.items is None and sv_lst_sort(ip, view.get(T("sa%d" % next(ip.bound), "Int"))) != cur.sort and el != "Real":
                raise U("slice assignment changes the element type of the list")
            t = materialise(ip, s2, view, cur.sort)
        ip.store(s2, base, t)
        res.append(s2)
    return res


# --------------------------------------------------------------------------- str.format (Contract.ghost["str_format"])
def format_field(ip, st, v, spec):
    """format(v, spec) as a string term.  A string with the empty spec is itself; a number is `num_format(spec, v)`: an
    uninterpreted function of the spec and of the NUMBER (integers and floats denoting the same number are formatted
    alike only for the float presentation types e/f/g/%, so the function is taken per kind of number otherwise).
    Nothing is assumed about the text produced (not even injectivity)."""
    reg = ip.reg
    reg.need_val()
    if isinstance(v, Str) or (isinstance(v, Opaque) and v.sort == "Key"):
        if spec != "":
            raise U("str.format of a string with a format spec")
        return v
    if isinstance(v, Bool):
        raise U("str.format of a bool")
    if isinstance(v, Num) and not getattr(v, "decimal", False):
        from .smt import to_real
        floaty = spec[-1:] in ("e", "E", "f", "F", "g", "G", "%") and spec[-1:] != ""
        if floaty or v.sort == "Real":
            f = reg.ufun("num_format_Real", ["Key", "Real"], "Key")
            return Opaque(T("(%s %s %s)" % (f, reg.key(spec).s, to_real(v.t).s), "Key"))
        if spec[-1:] in ("", "d", "n"):
            f = reg.ufun("num_format_Int", ["Key", "Int"], "Key")
            return Opaque(T("(%s %s %s)" % (f, reg.key(spec).s, v.t.s), "Key"))
        raise U("str.format of an integer with spec %r" % spec)
    if spec == "" and ((isinstance(v, Opaque) and v.sort == "Val") or
                       (isinstance(v, Ref) and type(st.heap.get(v.cid)).__name__ == "ValCell")):
        # a context value that is a string (obligation: modelling restriction) formats to itself
        from .dictobj import item_key
        return Opaque(item_key(ip, st, v, "str.format field"))
    raise U("str.format of %r" % (v,))


def str_format(ip, st, template, pos, kws):
    """"...{}...{:spec}...".format(*pos): the literal pieces and the formatted fields concatenated in order (the same `+`
    as in the program text, so that a clause may state a line either way).  Only automatically / explicitly numbered
    positional fields without conversion (`!r`) and without nested fields; a number formatted with a float presentation
    type cannot fail, anything else that could raise is out-of-subset."""
    import string
    if kws:
        raise U("str.format with keyword arguments")
    try:
        parts = list(string.Formatter().parse(template))
    except ValueError:
        raise U("str.format: malformed template")
    pieces, auto = [], 0
    for lit, field, spec, conv in parts:
        if lit:
            pieces.append(Str(lit))
        if field is None:
            continue
        if conv is not None or (spec and ("{" in spec or "}" in spec)):
            raise U("str.format with a conversion or a nested field")
        if field == "" and auto is not None and auto >= 0:
            k, auto = auto, auto + 1
        elif field.isdigit() and auto in (0, None):
            k, auto = int(field), None          # (mixing both numberings is a ValueError in python)
        else:
            raise U("str.format with a named / attribute field")
        if k >= len(pos):
            raise U("str.format: fewer arguments than fields (IndexError)")
        pieces.append(format_field(ip, st, pos[k], spec or ""))
    if not pieces:
        return [(st, Str(""))]
    outs = [(st, pieces[0])]
    for p in pieces[1:]:
        outs = [(s3, r) for s2, acc in outs for s3, r in ip.binop(ast.Add(), acc, p, s2)]
    return outs


def register(ix):
    ix.lib[("functools", "partial")] = lib_partial


# --------------------------------------------------------------------------- sets of (symbolic) strings
class SymSetCell(object):
    """set(<sequence of concrete length of strings, some of them symbolic>): the members are the DISTINCT values among
    `items`.  Defined: len() (number of distinct values) and iteration (only where the items are provably pairwise
    distinct: an obligation at the loop)."""

    def __init__(self, items):
        self.items = list(items)
        self.order = None

    def __repr__(self):
        return "SymSetCell(%r)" % (self.items,)


def symset_len(ip, st, cell):
    terms = [ip.key_term(x) for x in cell.items]
    total = I(0)
    for i, t in enumerate(terms):
        first = AND(*[NOT(EQ(terms[j], t)) for j in range(i)]) if i else TRUE
        total = ADD(total, ITE(first, I(1), I(0))) if first.s != "true" else ADD(total, I(1))
    return Num(total)


def set_iteration_items(ip, st, ref):
    """the items a `for` over a set of n strings delivers: its members in an order python does not specify -- an unknown
    permutation p of 0..n-1 (the same every time this unmodified set object is iterated), the k-th item being
    member p(k).  For a set built from possibly equal symbolic strings the members must be pairwise distinct (obligation:
    provable from the path condition, e.g. after a duplicates check), otherwise the number of iterations is not n."""
    cell = st.heap[ref.cid]
    if cell.items == "unknown":
        raise U("iteration over a set whose members are not known any more")
    items = list(cell.items)
    n = len(items)
    if n <= 1:
        return items
    terms = [ip.key_term(x) for x in items]
    if type(cell).__name__ == "SymSetCell":
        distinct = AND(*[NOT(EQ(terms[i], terms[j])) for i in range(n) for j in range(i + 1, n)])
        if not ip.known(st, distinct):
            ip.emit("safety", "modelling: the members of the iterated set of strings are pairwise distinct", st, distinct)
            st.assume(distinct)
    order = st.notes.get("setorder_%s" % ref.cid)          # (kept per path: the facts about it live in the path condition)
    if order is None:
        order = [ip.reg.new("setorder%d" % k, "Int") for k in range(n)]
        st.notes["setorder_%s" % ref.cid] = order
        for p in order:
            st.assume(AND(CMP("<=", I(0), p), CMP("<", p, I(n))))
        for i in range(n):
            for j in range(i + 1, n):
                st.assume(NOT(EQ(order[i], order[j])))
    out = []
    for k in range(n):
        t = terms[n - 1]
        for m in range(n - 2, -1, -1):
            t = ITE(EQ(order[k], I(m)), terms[m], t)
        out.append(Opaque(t))
    return out


# --------------------------------------------------------------------------- local_types = {"name": "PyList[n,Lst[T]]"}
def retype_new_lists(ip, st, before, v, ty):
    """`name = [[] for _ in <n items>]` with Contract.local_types[name] == "PyList[n,Lst[T]]": the n NEW EMPTY lists the
    right-hand side created get the symbolic-length representation (so that a cut loop can append to them).  Exactly
    the value python creates, only its representation differs; anything else than n new empty lists is out-of-subset."""
    from .interp import parse_type
    head, args = parse_type(ty)
    n = int(args[0])
    cell = st.heap.get(v.cid) if isinstance(v, Ref) else None
    if not isinstance(cell, PyListCell) or len(cell.items) != n or v.cid in getattr(ip.entry, "heap", {}):
        raise U("local_types %s: the value is not a new list of %d items" % (ty, n))
    seen = set()
    for k, x in enumerate(cell.items):
        h2, a2 = parse_type(args[k + 1] if len(args) == n + 1 and n > 1 else args[1])
        inner = st.heap.get(x.cid) if isinstance(x, Ref) and not x.path else None
        if h2 != "Lst" or not isinstance(inner, PyListCell) or inner.items or x.cid in seen \
                or x.cid in getattr(ip.entry, "heap", {}):
            raise U("local_types %s: item %d is not a new empty list of its own" % (ty, k))
        seen.add(x.cid)
        st.heap[x.cid] = LstCell(ip.reg.l_empty_canonical(ip.lst_sort(a2[0])))


# --------------------------------------------------------------------------- zip(seq, <iterator over a known number of items>)
def zip_concrete(ip, st, pos):
    """zip(...) where every argument is a sequence of concrete length or a plain iterator over a concrete number of
    remaining items (e.g. itertools.chain(a_tuple, another)): the list of tuples python's zip delivers, consumed here at
    once (the result is only modelled as the iterable of a `for` / argument of list(): a View); the iterators are
    advanced by exactly what zip pulls from them (round m, the first incomplete one, still pulls from the arguments
    before the first exhausted one).  Returns None when the arguments are not of this form."""
    from .sym import IterCell
    rows = []
    for p in pos:
        if isinstance(p, Ref) and isinstance(st.heap.get(p.cid), IterCell):
            c = st.heap[p.cid]
            if getattr(c, "kind", None) is not None or getattr(c, "live", None) is not None or c.name is not None \
                    or c.limit is not None or getattr(c, "shared", None) is not None or getattr(c, "upstream", None) is not None \
                    or c.src is None:
                return None
            parts = getattr(c.src, "chain_parts", None)
            if c.src.items is not None:
                allitems = list(c.src.items)
            elif parts is not None and all(v.items is not None for v in parts):
                allitems = [x for v in parts for x in v.items]
            else:
                return None
            k0 = lit_int(c.cursor)
            if k0 is None:
                return None
            rows.append(("it", p, k0, allitems[k0:]))
        else:
            try:
                v = ip.as_view(st, p)
            except Exception:
                return None
            if v.items is None:
                return None
            rows.append(("seq", p, 0, list(v.items)))
    m = min(len(r[3]) for r in rows)
    first_short = min(j for j, r in enumerate(rows) if len(r[3]) == m)
    for j, (kind, p, k0, items) in enumerate(rows):
        if kind == "it":
            c = st.heap[p.cid]
            st.heap[p.cid] = IterCell(c.src, I(k0 + m + (1 if j < first_short else 0)), c.name, c.limit)
    out = ip.items_view([Tup([r[3][k] for r in rows]) for k in range(m)])
    out.lazy = True
    return [(st, out)]


# --------------------------------------------------------------------------- str(x) / repr(x), sep.join(...)  (opt-in str_format)
def num_text(ip, v, which):
    """str(x) / repr(x) of a number: an uninterpreted function of the number, per kind of number (repr(1) != repr(1.0))"""
    reg = ip.reg
    reg.need_val()
    if getattr(v, "decimal", False):
        raise U("str() of a Decimal")
    f = reg.ufun("num_format_%s" % v.sort, ["Key", v.sort], "Key")
    return Opaque(T("(%s %s %s)" % (f, reg.key("<%s>" % which).s, v.t.s), "Key"))


def concrete_iter_items(ip, st, ref):
    """the remaining items of a plain iterator over a known number of items (and the iterator exhausted), else None"""
    from .sym import IterCell
    c = st.heap[ref.cid]
    if getattr(c, "kind", None) is not None or getattr(c, "live", None) is not None or c.name is not None \
            or c.limit is not None or getattr(c, "shared", None) is not None or getattr(c, "upstream", None) is not None \
            or c.src is None or c.src.items is None or lit_int(c.cursor) is None:
        return None
    items = list(c.src.items)[lit_int(c.cursor):]
    st.heap[ref.cid] = IterCell(c.src, I(len(c.src.items)), c.name, c.limit)
    return items


def str_join(ip, st, sep, pos, kws):
    """sep.join(xs) for a known number of strings: x0 + sep + x1 + ... (the same `+` as in the program text)"""
    from .builtins_ import consume_view
    if kws or len(pos) != 1:
        raise U("str.join call form")
    view = consume_view(ip, st, pos[0])
    if view.items is None:
        raise U("str.join over a sequence of symbolic length")
    items = list(view.items)
    for i, x in enumerate(items):
        if (isinstance(x, Opaque) and x.sort == "Val") or (isinstance(x, Ref) and type(st.heap.get(x.cid)).__name__ == "ValCell"):
            # a context value that is a string (obligation: modelling restriction; a non-string is a TypeError in python)
            from .dictobj import item_key
            items[i] = Opaque(item_key(ip, st, x, "str.join item"))
    if any(not (isinstance(x, Str) or (isinstance(x, Opaque) and x.sort == "Key")) for x in items):
        raise U("str.join of values that are not strings (TypeError)")
    if not items:
        return [(st, Str(""))]
    outs = [(st, items[0])]
    for x in items[1:]:
        nxt = []
        for s2, acc in outs:
            for s3, a2 in ip.binop(ast.Add(), acc, sep, s2):
                nxt += ip.binop(ast.Add(), a2, x, s3)
        outs = nxt
    return outs
