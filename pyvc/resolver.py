"""C20: static name-resolution obligations over all of lena/ (symtable + ast), discharged by a scope resolver.

Obligations (finite, enumerated completely on every run):
  all      : every string in a subpackage's __all__ is bound at the subpackage's module scope
  global   : every global name loaded by a function / method / class body / module body is bound at module scope
             (assignment, def, class, import, for/with/except target) or is a builtin
  modattr  : every attribute chain rooted at `lena.<...>` used in module M resolves: each package prefix is in the
             static import closure of "import <M's own subpackage>" (plus imports executed earlier in the same
             function) and the final name is bound in that module
Python-2 compatibility branches (`sys.version_info.major == 2`, try: unicode ...) are folded as on python 3.
"""
import ast
import builtins
import os
import symtable
import sys

BUILTINS = set(dir(builtins)) | {"__file__", "__name__", "__doc__", "__package__", "__path__", "__spec__", "__builtins__"}


class Mod(object):
    def __init__(self, name, path, is_pkg):
        self.name, self.path, self.is_pkg = name, path, is_pkg
        self.src = open(path).read()
        self.tree = ast.parse(self.src)
        self.bound = set()          # names bound at module scope
        self.star_from = []         # modules star-imported
        self.imports = []           # (module imported at module level)
        self.from_imports = []      # (module, name) pairs: name may be a submodule
        self.all = None
        self.pkg = name if is_pkg else name.rsplit(".", 1)[0]


def is_py2_test(test):
    """sys.version_info.major == 2 / sys.version[0] == 2 ..."""
    s = ast.dump(test)
    return "version_info" in s and ("value=2" in s)


def is_py3_test(test):
    s = ast.dump(test)
    return "version_info" in s and ("value=3" in s)


class World(object):
    def __init__(self, repo):
        self.repo = repo
        self.mods = {}
        for dp, dn, fn in os.walk(os.path.join(repo, "lena")):
            dn[:] = [d for d in dn if d != "__pycache__"]
            for f in fn:
                if not f.endswith(".py"):
                    continue
                path = os.path.join(dp, f)
                rel = os.path.relpath(path, repo)[:-3].replace(os.sep, ".")
                is_pkg = rel.endswith(".__init__")
                if is_pkg:
                    rel = rel[:-9]
                self.mods[rel] = Mod(rel, path, is_pkg)
        for m in self.mods.values():
            self.scan(m)
        # star imports need the other modules' bindings: iterate to a fixpoint
        changed = True
        while changed:
            changed = False
            for m in self.mods.values():
                for src in m.star_from:
                    o = self.mods.get(src)
                    if o is None:
                        continue
                    names = o.all if o.all is not None else {n for n in o.bound if not n.startswith("_")}
                    new = set(names) - m.bound
                    if new:
                        m.bound |= new
                        changed = True

    def absolute(self, m, node):
        base = node.module or ""
        if node.level:
            parts = m.pkg.split(".")
            if node.level > 1:
                parts = parts[:-(node.level - 1)]
            base = ".".join(parts + ([node.module] if node.module else []))
        return base

    def scan(self, m):
        def bind_target(t):
            for n in ast.walk(t):
                if isinstance(n, ast.Name):
                    m.bound.add(n.id)

        def visit(stmts, module_level=True):
            for s in stmts:
                if isinstance(s, ast.Import):
                    for a in s.names:
                        m.bound.add(a.asname or a.name.split(".")[0])
                        m.imports.append(a.name)
                elif isinstance(s, ast.ImportFrom):
                    base = self.absolute(m, s)
                    for a in s.names:
                        if a.name == "*":
                            m.star_from.append(base)
                            m.imports.append(base)
                        else:
                            m.bound.add(a.asname or a.name)
                            m.from_imports.append((base, a.name))
                elif isinstance(s, (ast.FunctionDef, ast.ClassDef, ast.AsyncFunctionDef)):
                    m.bound.add(s.name)
                elif isinstance(s, ast.Assign):
                    for t in s.targets:
                        bind_target(t)
                    if any(isinstance(t, ast.Name) and t.id == "__all__" for t in s.targets):
                        try:
                            m.all = list(ast.literal_eval(s.value))
                        except Exception:
                            m.all = None
                elif isinstance(s, (ast.AugAssign, ast.AnnAssign)):
                    bind_target(s.target)
                    if isinstance(s, ast.AugAssign) and isinstance(s.target, ast.Name) and s.target.id == "__all__" and m.all is not None:
                        try:
                            m.all = m.all + list(ast.literal_eval(s.value))
                        except Exception:
                            pass
                elif isinstance(s, ast.If):
                    if is_py2_test(s.test):
                        visit(s.orelse)
                    elif is_py3_test(s.test):
                        visit(s.body)
                    else:
                        visit(s.body)
                        visit(s.orelse)
                elif isinstance(s, ast.Try):
                    # a name counts as bound if the try body or a handler binds it (import fallbacks)
                    visit(s.body)
                    for h in s.handlers:
                        visit(h.body)
                    visit(s.orelse)
                    visit(s.finalbody)
                elif isinstance(s, (ast.For, ast.While)):
                    if isinstance(s, ast.For):
                        bind_target(s.target)
                    visit(s.body)
                    visit(s.orelse)
                elif isinstance(s, ast.With):
                    for it in s.items:
                        if it.optional_vars is not None:
                            bind_target(it.optional_vars)
                    visit(s.body)
        visit(m.tree.body)
        # globals()[name] = ... (flow/zip.py): names injected dynamically are excluded and listed
        m.dynamic = any(isinstance(n, ast.Call) and isinstance(n.func, ast.Name) and n.func.id == "globals" for n in ast.walk(m.tree))
        # `global X` assignments inside functions also bind at module scope
        for n in ast.walk(m.tree):
            if isinstance(n, ast.Global):
                for name in n.names:
                    m.bound.add(name)

    # ---- import closure
    def closure(self, modname, extra=()):
        seen = set()
        todo = [modname] + list(extra)
        while todo:
            x = todo.pop()
            parts = x.split(".")
            for k in range(1, len(parts) + 1):
                p = ".".join(parts[:k])
                if p in seen or p not in self.mods:
                    continue
                seen.add(p)
                mm = self.mods[p]
                for i in mm.imports:
                    todo.append(i)
                for base, name in mm.from_imports:
                    todo.append(base)
                    if base + "." + name in self.mods:
                        todo.append(base + "." + name)
        return seen

    def attr_bound(self, modname, attr, loaded):
        """is `<modname>.<attr>` defined once the modules in `loaded` have been imported"""
        m = self.mods.get(modname)
        if m is None:
            return None
        if attr in m.bound:
            return True
        sub = modname + "." + attr
        if sub in self.mods:
            return sub in loaded        # a submodule becomes an attribute when it has been imported
        return False


def function_scopes(mod):
    """yield (qualname, ast node, symtable) for the module body and every function / class body"""
    top = symtable.symtable(mod.src, mod.path, "exec")

    def walk(tab, prefix):
        yield prefix, tab
        for ch in tab.get_children():
            for x in walk(ch, (prefix + "." if prefix else "") + ch.get_name()):
                yield x
    return walk(top, "")


def py3_truth(test):
    """truth value of a test under python 3 where it is decidable from sys.version_info alone, else None"""
    if isinstance(test, ast.Compare) and len(test.ops) == 1 and "version_info" in ast.dump(test.left) \
            and isinstance(test.comparators[0], ast.Constant) and isinstance(test.comparators[0].value, int):
        k = test.comparators[0].value
        op = type(test.ops[0])
        major = 3
        return {ast.Eq: major == k, ast.NotEq: major != k, ast.Gt: major > k, ast.GtE: major >= k,
                ast.Lt: major < k, ast.LtE: major <= k}.get(op)
    if isinstance(test, ast.BoolOp):
        vals = [py3_truth(v) for v in test.values]
        if isinstance(test.op, ast.Or):
            if any(v is True for v in vals):
                return True
            if all(v is False for v in vals):
                return False
        else:
            if any(v is False for v in vals):
                return False
            if all(v is True for v in vals):
                return True
    if isinstance(test, ast.UnaryOp) and isinstance(test.op, ast.Not):
        v = py3_truth(test.operand)
        return None if v is None else (not v)
    return None


def dead_nodes(mod):
    """ids of AST nodes that python 3 never evaluates (python-2 compatibility code, folded as DESIGN 2.4 item 8)"""
    dead = set()

    def kill(nodes):
        for x in nodes:
            for n in ast.walk(x):
                dead.add(id(n))
    for n in ast.walk(mod.tree):
        if isinstance(n, (ast.If, ast.IfExp)):
            v = py3_truth(n.test)
            if v is True:
                kill(n.orelse if isinstance(n, ast.If) else [n.orelse])
            elif v is False:
                kill(n.body if isinstance(n, ast.If) else [n.body])
        if isinstance(n, ast.BoolOp):
            for k, v in enumerate(n.values):
                t = py3_truth(v)
                if (isinstance(n.op, ast.And) and t is False) or (isinstance(n.op, ast.Or) and t is True):
                    kill(n.values[k + 1:])
                    break
        if isinstance(n, ast.Try):
            # try: <probe of a python-2 name> except NameError/ImportError: fallback -- the probe may fail by design
            for h in n.handlers:
                names = [x.id for x in ast.walk(h.type) if isinstance(x, ast.Name)] if h.type is not None else []
                if "NameError" in names or "ImportError" in names:
                    kill(n.body)
    return dead


def scope_nodes(mod):
    """(kind-ish name, lineno) -> ast node, for matching symtable tables"""
    out = {}
    for n in ast.walk(mod.tree):
        if isinstance(n, (ast.FunctionDef, ast.ClassDef, ast.AsyncFunctionDef)):
            out.setdefault((n.name, n.lineno), n)
        elif isinstance(n, ast.Lambda):
            out.setdefault(("lambda", n.lineno), n)
        elif isinstance(n, ast.ListComp):
            out.setdefault(("listcomp", n.lineno), n)
        elif isinstance(n, ast.GeneratorExp):
            out.setdefault(("genexpr", n.lineno), n)
        elif isinstance(n, ast.SetComp):
            out.setdefault(("setcomp", n.lineno), n)
        elif isinstance(n, ast.DictComp):
            out.setdefault(("dictcomp", n.lineno), n)
    return out


def live_loads(node, name, dead):
    return [n.lineno for n in ast.walk(node)
            if isinstance(n, ast.Name) and n.id == name and isinstance(n.ctx, ast.Load) and id(n) not in dead]


def walk_no_defs(node):
    """ast.walk that does not descend into nested function definitions (their bodies run later, not here)"""
    todo = [node]
    while todo:
        n = todo.pop()
        yield n
        for ch in ast.iter_child_nodes(n):
            if isinstance(ch, (ast.FunctionDef, ast.AsyncFunctionDef, ast.Lambda)):
                continue
            todo.append(ch)


def _stmt_binds(s):
    """names a simple statement binds at module level"""
    out = set()
    if isinstance(s, ast.Import):
        out |= {(a.asname or a.name.split(".")[0]) for a in s.names}
    elif isinstance(s, ast.ImportFrom):
        out |= {(a.asname or a.name) for a in s.names if a.name != "*"}
    elif isinstance(s, (ast.FunctionDef, ast.ClassDef, ast.AsyncFunctionDef)):
        out.add(s.name)
    elif isinstance(s, ast.Assign):
        for t in s.targets:
            out |= {n.id for n in ast.walk(t) if isinstance(n, ast.Name)}
    elif isinstance(s, (ast.AugAssign, ast.AnnAssign)):
        out |= {n.id for n in ast.walk(s.target) if isinstance(n, ast.Name)}
    elif isinstance(s, ast.With):
        for it in s.items:
            if it.optional_vars is not None:
                out |= {n.id for n in ast.walk(it.optional_vars) if isinstance(n, ast.Name)}
    return out


def _ends_in_raise(stmts):
    return bool(stmts) and isinstance(stmts[-1], ast.Raise)


def definitely_bound(stmts):
    """names bound on every path that runs the statement list to its end (module level)"""
    out = set()
    for s in stmts:
        if isinstance(s, ast.If):
            if is_py2_test(s.test):
                out |= definitely_bound(s.orelse)
            elif is_py3_test(s.test):
                out |= definitely_bound(s.body)
            else:
                out |= definitely_bound(s.body) & definitely_bound(s.orelse)
        elif isinstance(s, ast.Try):
            paths = [definitely_bound(s.body) | definitely_bound(s.orelse)]
            for h in s.handlers:
                if not _ends_in_raise(h.body):
                    paths.append(definitely_bound(h.body))       # (what the body bound before it raised is not known)
            common = set(paths[0])
            for p_ in paths[1:]:
                common &= p_
            out |= common | definitely_bound(s.finalbody)
        elif isinstance(s, ast.With):
            out |= _stmt_binds(s) | definitely_bound(s.body)
        elif isinstance(s, (ast.For, ast.While)):
            out |= definitely_bound(s.orelse) if False else set()
        else:
            out |= _stmt_binds(s)
    return out


def possibly_bound_names(stmts):
    """names bound by some statement of the module body that the path analysis above looks at (others - star imports,
    `global` declarations in functions - are left to the path-insensitive set)"""
    out = set()
    for s in stmts:
        out |= _stmt_binds(s)
        for f in ("body", "orelse", "finalbody"):
            sub = getattr(s, f, None)
            if isinstance(sub, list) and not isinstance(s, (ast.FunctionDef, ast.ClassDef, ast.AsyncFunctionDef)):
                out |= possibly_bound_names(sub)
        for h in getattr(s, "handlers", []) or []:
            out |= possibly_bound_names(h.body)
    return out


def check(repo):
    """returns (obligations, failures): lists of dicts"""
    w = World(repo)
    obligations, failures = [], []

    def ob(kind, where, what, ok, detail=""):
        d = {"kind": kind, "where": where, "what": what}
        obligations.append(d)
        if not ok:
            f = dict(d)
            f["detail"] = detail
            failures.append(f)

    # 1. __all__: bound on EVERY path through the module body (a name bound only in a `try:` whose ImportError handler does
    #    not bind it is missing exactly in the configuration the fallback exists for)
    for name, m in sorted(w.mods.items()):
        if m.all is not None:
            always = definitely_bound(m.tree.body) | {n for n in m.bound if n not in possibly_bound_names(m.tree.body)}
            for a in m.all:
                ob("all", name, a, a in m.bound and a in always,
                   "%s.__all__ advertises %r which is not bound in the module%s"
                   % (name, a, "" if a not in m.bound else " on every path (e.g. only in a try body whose handler does not bind it)"))
    # 2. global name loads
    for name, m in sorted(w.mods.items()):
        dead = dead_nodes(m)
        nodes = scope_nodes(m)
        for qual, tab in function_scopes(m):
            if tab.get_type() == "module":
                node = m.tree
            else:
                node = nodes.get((tab.get_name(), tab.get_lineno()))
                if node is None:
                    continue
            for sym in tab.get_symbols():
                n = sym.get_name()
                if not sym.is_referenced():
                    continue
                if tab.get_type() == "module":
                    if n in m.bound or n in BUILTINS:
                        continue                   # module-scope ordering is not analysed (imports come first)
                elif not sym.is_global():
                    continue
                if n in m.bound or n in BUILTINS:
                    ok, live = True, []
                else:
                    live = live_loads(node, n, dead)
                    ok = not live
                    if m.dynamic and not ok:
                        continue                   # names injected via globals()[...]: excluded and listed
                ob("global", "%s:%s" % (name, qual or "<module>"), n, ok,
                   "global name %r is not bound in module %s (NameError when %s executes line %s)"
                   % (n, name, qual or "the module", live[:5]))
    # 3. lena.<pkg>... attribute chains
    for name, m in sorted(w.mods.items()):
        sub = ".".join(name.split(".")[:2]) if name.count(".") >= 1 else name      # own subpackage, e.g. lena.context
        base_closure = w.closure(sub) | w.closure(name)
        dead = dead_nodes(m)
        fns = [n for n in ast.walk(m.tree) if isinstance(n, (ast.FunctionDef, ast.AsyncFunctionDef))]
        for fn in [m.tree] + fns:
            local_imports = []
            if fn is not m.tree:
                for n in walk_no_defs(fn):
                    if isinstance(n, ast.Import):
                        local_imports += [a.name for a in n.names]
                    elif isinstance(n, ast.ImportFrom):
                        local_imports.append(w.absolute(m, n))
            loaded = base_closure | (w.closure(name, local_imports) if local_imports else set())
            inner = set()
            attrs = []
            for n in walk_no_defs(fn):
                if isinstance(n, ast.Attribute) and id(n) not in dead:
                    attrs.append(n)
                    if isinstance(n.value, ast.Attribute):
                        inner.add(id(n.value))
            for n in attrs:
                if id(n) in inner:
                    continue                       # only maximal chains
                chain = []
                x = n
                while isinstance(x, ast.Attribute):
                    chain.append(x.attr)
                    x = x.value
                if not (isinstance(x, ast.Name) and x.id == "lena"):
                    continue
                chain = ["lena"] + chain[::-1]
                if "lena" not in m.bound and not any(i.split(".")[0] == "lena" for i in local_imports):
                    continue                       # `lena` itself unbound: reported by the global-name obligation
                cur = "lena"
                ok, detail = True, ""
                for part in chain[1:]:
                    r = w.attr_bound(cur, part, loaded)
                    if r is None:
                        break
                    if not r:
                        ok = False
                        if (cur + "." + part) in w.mods:
                            detail = ("%s.%s is a submodule that is not imported when only %s (and what it imports) "
                                      "has been imported: AttributeError on module %s" % (cur, part, sub, cur))
                        else:
                            detail = "module %s has no attribute %r" % (cur, part)
                        break
                    if (cur + "." + part) in w.mods:
                        cur = cur + "." + part
                    else:
                        break
                qual = fn.name if fn is not m.tree else "<module>"
                ob("modattr", "%s:%s:%d" % (name, qual, n.lineno), ".".join(chain), ok, detail)
    # dedupe obligations (nested attribute nodes generate prefixes of the same chain at the same line)
    seen, obs2 = set(), []
    for o in obligations:
        k = (o["kind"], o["where"], o["what"])
        if k not in seen:
            seen.add(k)
            obs2.append(o)
    seenf, f2 = set(), []
    for f in failures:
        k = (f["kind"], f["where"].rsplit(":", 1)[0] if f["kind"] == "modattr" else f["where"], f["what"])
        if k not in seenf:
            seenf.add(k)
            f2.append(f)
    return obs2, f2, w


if __name__ == "__main__":
    obs, fails, w = check(sys.argv[1] if len(sys.argv) > 1 else "/repo")
    print(len(obs), "obligations;", len(fails), "failures")
    for f in fails:
        print(f["kind"], f["where"], f["what"], "--", f["detail"])
