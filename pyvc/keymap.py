"""Dictionaries from strings to lists (`KeyMap[T]`, e.g. GroupBy.groups: key -> list of the values of that group).

Cell: KeyMapCell(has : (Array Key Bool), val : (Array Key Lst_T)).  Supported: `k in m`, `m[k]` (a reference INTO the map:
`m[k].append(x)` changes the stored list), `m[k] = [..]` for a key that is absent, `m.clear()`, iteration over
`m.values() / m.keys() / m.items()` (an arbitrary not yet visited key per step, ghost `$seen`, `_key` names the key of the
current step in clauses).  Anything else is refused (Unsupported).
Specification forms: has_group(m, k), group(m, k) (the list stored at k), ident(obj) (an abstract name of a heap object)."""
import ast

from .smt import T, TRUE, FALSE, I, NOT, AND, OR, EQ, CMP
from .sym import (Num, Bool, NONE, Str, Opaque, Tup, Ref, View, Fun, Cell, LstCell, PyListCell, State)

HAS = "(Array Key Bool)"


def U(msg):
    from .interp import Unsupported
    return Unsupported(msg)


class KeyMapCell(Cell):
    def __init__(self, has, val, lsort):
        self.has, self.val, self.lsort = has, val, lsort

    def __repr__(self):
        return "KeyMapCell(%s, %s)" % (self.has, self.val)


def vsort(lsort):
    return "(Array Key %s)" % lsort


def fresh(ip, st, name, lsort):
    reg = ip.reg
    reg.need_val()
    has = reg.new(name + "$has", HAS)
    val = reg.new(name + "$val", vsort(lsort))
    q = "km%d" % next(ip.bound)
    sel = "(select %s %s)" % (val.s, q)
    st.assume(T("(forall ((%s Key)) (! (>= (len_%s %s) 0) :pattern (%s)))" % (q, lsort, sel, sel), "Bool"))
    return KeyMapCell(has, val, lsort)


def km_make(ip, st, name, elemty):
    return ip.new_cell(st, fresh(ip, st, name, ip.lst_sort(elemty)))


def cell_of(st, v):
    if isinstance(v, Ref) and isinstance(st.heap.get(v.cid), KeyMapCell):
        return st.heap[v.cid]
    return None


def km_has(ip, st, ref, k):
    c = st.heap[ref.cid]
    return T("(select %s %s)" % (c.has.s, ip.key_term(k).s), "Bool")


def km_deref(ip, st, ref):
    c = st.heap[ref.cid]
    if len(ref.path) != 1:
        raise U("reference into a dict of lists with path %r" % (ref.path,))
    return T("(select %s %s)" % (c.val.s, ref.path[0].s), c.lsort)


def km_store(ip, st, ref, newterm):
    c = st.heap[ref.cid]
    if len(ref.path) != 1:
        raise U("store into a dict of lists with path %r" % (ref.path,))
    st.heap[ref.cid] = KeyMapCell(c.has, T("(store %s %s %s)" % (c.val.s, ref.path[0].s, newterm.s), vsort(c.lsort)), c.lsort)


def km_index(ip, st, ref, i):
    """m[k]: KeyError if absent; a reference to the stored list (aliases the map entry)"""
    if ref.path:
        raise U("subscript of a list inside a dict of lists through the map reference")
    k = ip.key_term(i)
    has = km_has(ip, st, ref, i)
    if not ip.spec_mode and not ip.known(st, has):
        if ip.may_catch(st, "KeyError"):
            bad = st.fork(NOT(has), "ke.")
            ip.raise_(bad, "KeyError")
        else:
            ip.emit("safety", "key-present", st, has)
        st.assume(has)
    return [(st, Ref(ref.cid, (k,)))]


def km_store_item(ip, st, ref, idx, v):
    """m[k] = <new list>: only for a key known to be absent (references to a replaced list are not tracked)"""
    from .calls import materialise
    c = st.heap[ref.cid]
    if ref.path:
        raise U("item store into a list inside a dict of lists")
    has = km_has(ip, st, ref, idx)
    if not ip.known(st, NOT(has)) and live_refs_into(st, ref.cid):
        # a reference to the list being replaced would silently follow the key to the new list
        raise U("m[k] = ... for a key that may be present while references into the dict of lists are alive")
    if not (isinstance(v, Ref) and isinstance(st.heap[v.cid], (PyListCell, LstCell))):
        raise U("dict of lists: stored value is not a list")
    if isinstance(st.heap[v.cid], LstCell):
        t = ip.deref(st, v)
        if t.sort != c.lsort:
            raise U("dict of lists: list of another element type")
    else:
        t = materialise(ip, st, ip.as_view(st, v), c.lsort)
    k = ip.key_term(idx)
    st.heap[ref.cid] = KeyMapCell(T("(store %s %s true)" % (c.has.s, k.s), HAS),
                                  T("(store %s %s %s)" % (c.val.s, k.s, t.s), vsort(c.lsort)), c.lsort)
    return [st]


def live_refs_into(st, cid):
    """is a reference to a list stored in the map held by a local variable, an object field or a python list?"""
    from .sym import ObjCell
    def hit(v, depth=0):
        if isinstance(v, Ref):
            return v.cid == cid and bool(v.path)
        if isinstance(v, Tup) and depth < 4:
            return any(hit(x, depth + 1) for x in v.items)
        return False
    if any(hit(v) for v in st.env.values()):
        return True
    for c in st.heap.values():
        if isinstance(c, ObjCell) and any(hit(v) for v in c.fields.values()):
            return True
        if isinstance(c, PyListCell) and any(hit(v) for v in c.items):
            return True
    return False


def km_method(ip, st, recv, name, pos, kws):
    c = st.heap[recv.cid]
    if recv.path:
        from .builtins_ import list_method
        return list_method(ip, st, recv, name, pos, kws)          # a method of the stored list (deref / store go through the map)
    if name == "clear" and not pos and not kws:
        st.heap[recv.cid] = KeyMapCell(T("((as const %s) false)" % HAS, HAS), c.val, c.lsort)
        return [(st, NONE)]
    if name in ("values", "keys", "items") and not pos and not kws:
        return [(st, Fun("mapview", recv=recv, name=name))]
    raise U("method %s of a dict of lists" % name)


def km_havoc(ip, st, ref, name):
    c = st.heap[ref.cid]
    st.heap[ref.cid] = fresh(ip, st, name, c.lsort)
    return ref


def for_keymap(ip, s, st, mv, k, spec):
    """for x in m.values() / keys() / items(): an arbitrary not yet visited key per iteration (ghost `$seen`); the body
    must not change the map"""
    from .stmts import check_invariants, assume_invariants, havoc_loop, exec_block, assign_to, ghost_init, ghost_body
    reg = ip.reg
    recv, mode = mv.recv, mv.name
    c0 = st.heap[recv.cid]
    st.env["$seen"] = Opaque(T("((as const %s) false)" % HAS, HAS))
    ghost_init(ip, spec, st)
    check_invariants(ip, k, spec, st, "init")
    h = st.fork(None, "L%s:" % k)
    havoc_loop(ip, s, h, spec, s.body)
    c = h.heap[recv.cid]
    if c.has.s != c0.has.s or c.val.s != c0.val.s:
        raise U("loop #%s may change the dict of lists it iterates" % k)
    seen = reg.new("seen", HAS)
    q = "sk%d" % next(ip.bound)
    h.assume(T("(forall ((%s Key)) (! (=> (select %s %s) (select %s %s)) :pattern ((select %s %s))))"
               % (q, seen.s, q, c.has.s, q, seen.s, q), "Bool"))
    h.env["$seen"] = Opaque(seen)
    assume_invariants(ip, spec, h)
    ip.assumptions.add("dict iteration: an arbitrary unvisited key per step, finitely many keys (termination of loops over "
                       "dictionaries is not an obligation)")
    outs = []
    b = h.fork(None, "V.")
    key = reg.new("key", "Key")
    b.assume(T("(select %s %s)" % (c.has.s, key.s), "Bool"))
    b.assume(NOT(T("(select %s %s)" % (seen.s, key.s), "Bool")))
    b.env["_key"] = Opaque(key)
    b.notes["epoch_%s" % k] = getattr(ip, "n_cells", 0)
    b.notes["inloop_%s" % k] = True
    lst = ip.lst_view(T("(select %s %s)" % (c.val.s, key.s), c.lsort))
    val = {"values": lst, "keys": Opaque(key), "items": Tup([Opaque(key), lst])}[mode]
    if mode != "keys":
        # the loop variable is the stored list itself; the body may read / yield it (a snapshot is exact as long as the
        # map is unchanged, which is checked above for the whole body)
        pass
    for s3 in assign_to(ip, s.target, val, b):
        ghost_body(ip, spec, s3)
        for kind, s4, payload in exec_block(ip, s.body, s3):
            c4 = s4.heap[recv.cid]
            if c4.has.s != c.has.s or c4.val.s != c.val.s:
                raise U("loop #%s changes the dict of lists it iterates" % k)
            if kind in ("next", "continue"):
                s4.env["$seen"] = Opaque(T("(store %s %s true)" % (seen.s, key.s), HAS))
                from .stmts import end_of_body          # the invariants, and LoopSpec.body_end (per-iteration postconditions)
                end_of_body(ip, k, spec, s4, None)
            elif kind == "break":
                s4.trace += "B."
                s4.notes["inloop_%s" % k] = False
                outs.append(("next", s4, None))
            else:
                outs.append((kind, s4, payload))
    x = h.fork(None, "X.")
    q2 = "sk%d" % next(ip.bound)
    x.assume(T("(forall ((%s Key)) (= (select %s %s) (select %s %s)))" % (q2, seen.s, q2, c.has.s, q2), "Bool"))
    x.env["$seen"] = Opaque(seen)
    x.notes["inloop_%s" % k] = False
    outs.append(("next", x, None))
    return outs


# --------------------------------------------------------------------------- special forms of the contract language
def _map(ip, e, st):
    v = ip.ev1(e.args[0], st)
    if cell_of(st, v) is None or v.path:
        raise U("dict of lists expected, got %r" % (v,))
    return v


def _sf_has_group(ip, e, st):
    """has_group(m, k): k is a key of the dict of lists m"""
    m = _map(ip, e, st)
    return Bool(km_has(ip, st, m, ip.ev1(e.args[1], st)))


def _sf_group(ip, e, st):
    """group(m, k): the list stored at key k (meaningful when has_group(m, k))"""
    m = _map(ip, e, st)
    c = st.heap[m.cid]
    return ip.lst_view(T("(select %s %s)" % (c.val.s, ip.key_term(ip.ev1(e.args[1], st)).s), c.lsort))


def _sf_ident(ip, e, st):
    """ident(obj): an abstract name (sort Obj) of a heap object, for uninterpreted functions of that object"""
    v = ip.ev1(e.args[0], st)
    if isinstance(v, Opaque) and v.sort == "Obj":
        return v
    if isinstance(v, Ref) and not v.path:
        ip.reg.need("Obj")
        name = "|obj:%s|" % v.cid
        if not any(n == name for n, _ in ip.reg.const_decls):
            ip.reg.const_decls.append((name, "Obj"))
        return Opaque(T(name, "Obj"))
    raise U("ident of %r" % (v,))


FORMS = {"has_group": _sf_has_group, "group": _sf_group, "ident": _sf_ident}
