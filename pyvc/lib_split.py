"""Engine additions made for the Split / Zip contracts (contracts/P_split.py): the builtins `map` and `set` in the forms
Split.__init__ / check_sequence_type use.  Everything here models the Python semantics exactly or raises Unsupported."""
from .smt import (T, TRUE, FALSE, I, NOT, AND, OR)
from .sym import (Num, Bool, NONE, Str, Opaque, Tup, Ref, View)


def U(msg):
    from .interp import Unsupported
    return Unsupported(msg)


class PySetCell(object):
    """a python set of concrete strings (distinct, no order): only len(), `in`, and pop() from a one-element set are defined"""

    def __init__(self, items):
        self.items = items if items == "unknown" else list(items)

    def __repr__(self):
        return "PySetCell(%r)" % (self.items,)


def builtin_set(ip, st, pos, kws):
    """set() / set(<sequence of concrete length holding concrete strings>)"""
    from .builtins_ import consume_view
    if kws or len(pos) > 1:
        raise U("set(...) call form")
    items = []
    if pos:
        view = consume_view(ip, st, pos[0])
        if view.items is None:
            from .lib_acc2 import set_of_values          # a set of context values (symbolic size): pyvc/lib_acc2.py
            r = set_of_values(ip, st, view)
            if r is not None:
                return r
            from .iet import set_of_keys          # a set of strings (symbolic size): pyvc/iet.py
            r = set_of_keys(ip, st, view)
            if r is not None:
                return r
            raise U("set() of a sequence of symbolic length")
        if any(not isinstance(x, Str) for x in view.items) and \
                all(isinstance(x, Str) or (isinstance(x, Opaque) and x.sort == "Key") for x in view.items):
            from .lib_graph import SymSetCell          # a set of (symbolic) strings: pyvc/lib_graph.py
            return [(st, ip.new_cell(st, SymSetCell(list(view.items))))]
        for x in view.items:
            if not isinstance(x, Str):
                raise U("set() of values that are not concrete strings")
            if x.s not in [y.s for y in items]:
                items.append(x)
    return [(st, ip.new_cell(st, PySetCell(items)))]


def set_method(ip, st, recv, name, pos, kws):
    cell = st.heap[recv.cid]
    if name == "pop" and not pos and not kws:
        if not cell.items:
            if ip.may_catch(st, "KeyError"):
                ip.raise_(st, "KeyError")
            else:
                ip.emit("safety", "pop-from-nonempty-set", st, FALSE)
            return []
        if cell.items == "unknown":
            raise U("set.pop() from a set whose members are not known any more")
        if len(cell.items) != 1:
            # which member is removed is not specified: an arbitrary one; what is left in the set is not tracked
            r = ip.reg.new("popped", "Key")
            st.assume(OR(*[T("(= %s %s)" % (r.s, ip.reg.key(x.s).s), "Bool") for x in cell.items]))
            st.heap[recv.cid] = PySetCell("unknown")
            return [(st, Opaque(r))]
        st.heap[recv.cid] = PySetCell([])
        return [(st, cell.items[0])]
    if name == "__len__" and not pos and cell.items != "unknown":
        return [(st, Num(I(len(cell.items))))]
    raise U("set method " + name)


def builtin_map(ip, st, pos, kws):
    """map(f, xs) consumed by all() / any() / list(): over a sequence of concrete length with a function that has no effect
    and does not fork (then applying it eagerly is what the lazy map object delivers); over an abstract object only when it
    is provably not iterable (TypeError, as python raises at the call of map)"""
    from .calls import call_value
    from .builtins_ import has_attr
    if kws or len(pos) != 2:
        raise U("map(...) call form")
    f, xs = pos
    if isinstance(xs, Ref) and type(st.heap[xs.cid]).__name__ == "IterCell":
        from .lib_graph import concrete_iter_items          # map(f, iter(<tuple>)): the remaining items, consumed
        items = concrete_iter_items(ip, st, xs)
        if items is None:
            raise U("map over an iterator whose items are not known")
        xs = Tup(items)
    if isinstance(xs, Opaque) and xs.sort == "Obj":
        iterable = OR(has_attr(ip, st, xs, "__iter__"), has_attr(ip, st, xs, "__getitem__"))
        if ip.spec_mode:
            raise U("map over an abstract object in a specification")
        ip.emit("safety", "map over an abstract object: it is not iterable (the iterable case is not modelled)", st, NOT(iterable))
        st.assume(NOT(iterable))
        if ip.may_catch(st, "TypeError"):
            ip.raise_(st, "TypeError")
        else:
            ip.emit("safety", "map-over-iterable", st, FALSE)
        return []
    if isinstance(xs, Ref) and type(st.heap[xs.cid]).__name__ == "LstCell":
        from .lib_graph import map_symbolic       # partial(operator.mul, c) over a list of numbers of symbolic length
        return map_symbolic(ip, st, f, ip.as_view(st, xs))
    if not (isinstance(xs, (Tup, View)) or (isinstance(xs, Ref) and type(st.heap[xs.cid]).__name__ in ("PyListCell",))):
        raise U("map over %r" % (xs,))
    view = ip.as_view(st, xs)
    if view.items is None:
        from .lib_graph import map_symbolic
        return map_symbolic(ip, st, f, view)
    items = []
    for x in view.items:
        heap0, env0, n_exc = dict(st.heap), dict(st.env), len(ip._exc_out)
        outs = call_value(ip, st, f, [x], {})
        if len(outs) != 1 or len(ip._exc_out) != n_exc:
            raise U("map with a function that forks or raises")
        st = outs[0][0]          # (a helper executed in place hands back a new state object)
        if any(st.heap.get(k) is not c for k, c in heap0.items()) or set(st.env) != set(env0) \
                or any(st.env[k] is not v for k, v in env0.items()):
            raise U("map with a function that has effects")
        items.append(outs[0][1])
    r = ip.items_view(items)
    r.lazy = True
    return [(st, r)]


def int_of_string(ip, st, v):
    """int(<string>): the integer a numeric string denotes; ValueError for any other string"""
    def fail(s):
        if ip.may_catch(s, "ValueError"):
            ip.raise_(s, "ValueError")
        else:
            ip.emit("safety", "int() of a string: the string is numeric (else ValueError)", s, FALSE)
    if isinstance(v, Str):
        try:
            k = int(v.s)
        except ValueError:
            fail(st)
            return []
        return [(st, Num(I(k)))]
    p = ip.reg.ufun("str_is_int", ["Key"], "Bool")
    f = ip.reg.ufun("str_to_int", ["Key"], "Int")
    ok = T("(%s %s)" % (p, v.t.s), "Bool")
    fail(st.fork(NOT(ok), "notnum."))
    good = st.fork(ok, "num.")
    return [(good, Num(T("(%s %s)" % (f, v.t.s), "Int")))]
