"""Engine additions made for the histogram contracts (contracts/P_hist.py): list repetition, allocation of abstract
objects by copy.deepcopy (ghost allocation clock), allocating list comprehensions, functools.reduce / operator.*.

Everything here either models the Python semantics exactly or raises Unsupported."""
import ast

from .smt import (T, TRUE, FALSE, I, R, NOT, AND, OR, IMP, ITE, EQ, ADD, SUB, MUL, NEG, CMP, to_real, lit_int)
from .sym import (SV, Num, Bool, NoneV, NONE, Str, Opaque, Tup, Ref, View, Fun, ExcV, Module, Sentinel,
                  LstCell, PyListCell, ValCell, PyDictCell, ObjCell, IterCell, State)


def U(msg):
    from .interp import Unsupported
    return Unsupported(msg)


# --------------------------------------------------------------------------- seq * n
def repeat_seq(ip, s, seq, n):
    """`seq * n` / `n * seq` for a list or tuple `seq` and an integer n: a NEW sequence holding the items of seq
    max(n, 0) times (the items themselves, not copies: `[x] * n` is n references to x)."""
    if isinstance(n, Bool):
        n = Num(ip.num(n))
    if not (isinstance(n, Num) and n.sort == "Int"):
        raise U("sequence repetition by a non-integer")
    view = ip.as_view(s, seq)
    is_tuple = ip.kind_of_seq(s, seq) == "tuple"
    k = lit_int(n.t)
    if view.items is not None and k is not None:
        items = list(view.items) * max(k, 0)
        return Tup(items) if is_tuple else ip.new_cell(s, PyListCell(items))
    if view.items is None or len(view.items) != 1:
        raise U("repetition of a sequence that is not a one-element display by a symbolic count")
    if is_tuple:
        raise U("tuple repetition by a symbolic count")
    x = view.items[0]
    if isinstance(x, Ref) or isinstance(x, (View, Tup)):
        # n references to one mutable object: the nested-list encoding (inner lists are values) cannot express that
        raise U("[mutable] * n: aliasing of the repeated object is not modelled")
    from .builtins_ import sv_lst_sort, elem_term
    sort = sv_lst_sort(ip, x)
    el = ip.reg.lst_elem[sort]
    t = ip.reg.new("rep", sort)
    length = ITE(CMP("<", n.t, I(0)), I(0), n.t)
    s.assume(EQ(ip.reg.l_len(t), length))
    q = T("q%d" % next(ip.bound), "Int")
    s.assume(T("(forall ((%s Int)) (! (=> (and (<= 0 %s) (< %s %s)) (= %s %s)) :pattern (%s)))" % (
        q.s, q.s, q.s, length.s, ip.reg.l_get(t, q).s, elem_term(ip, s, x, el).s, ip.reg.l_get(t, q).s), "Bool"))
    return ip.new_cell(s, LstCell(t))
