"""Engine additions made for the histogram contracts (contracts/P_hist.py): list repetition, allocation of abstract
objects by copy.deepcopy (ghost allocation clock), allocating list comprehensions, functools.reduce / operator.*.

Everything here either models the Python semantics exactly or raises Unsupported."""
import ast

from .smt import (T, TRUE, FALSE, I, R, NOT, AND, OR, IMP, ITE, EQ, ADD, SUB, MUL, NEG, CMP, to_real, lit_int)
from .sym import (SV, Num, Bool, NoneV, NONE, Str, Opaque, Tup, Ref, View, Fun, ExcV, Module, Sentinel,
                  LstCell, PyListCell, ValCell, PyDictCell, ObjCell, IterCell, State)


def U(msg):
    from .interp import Unsupported
    return Unsupported(msg)


# --------------------------------------------------------------------------- seq * n
def repeat_seq(ip, s, seq, n):
    """`seq * n` / `n * seq` for a list or tuple `seq` and an integer n: a NEW sequence holding the items of seq
    max(n, 0) times (the items themselves, not copies: `[x] * n` is n references to x)."""
    if isinstance(n, Bool):
        n = Num(ip.num(n))
    if not (isinstance(n, Num) and n.sort == "Int"):
        raise U("sequence repetition by a non-integer")
    view = ip.as_view(s, seq)
    is_tuple = ip.kind_of_seq(s, seq) == "tuple"
    k = lit_int(n.t)
    if view.items is not None and k is not None:
        items = list(view.items) * max(k, 0)
        return Tup(items) if is_tuple else ip.new_cell(s, PyListCell(items))
    if view.items is None or len(view.items) != 1:
        raise U("repetition of a sequence that is not a one-element display by a symbolic count")
    if is_tuple:
        raise U("tuple repetition by a symbolic count")
    x = view.items[0]
    if isinstance(x, Ref) or isinstance(x, (View, Tup)):
        # n references to one mutable object: the nested-list encoding (inner lists are values) cannot express that
        raise U("[mutable] * n: aliasing of the repeated object is not modelled")
    from .builtins_ import sv_lst_sort, elem_term
    sort = sv_lst_sort(ip, x)
    el = ip.reg.lst_elem[sort]
    t = ip.reg.new("rep", sort)
    length = ITE(CMP("<", n.t, I(0)), I(0), n.t)
    s.assume(EQ(ip.reg.l_len(t), length))
    q = T("q%d" % next(ip.bound), "Int")
    s.assume(T("(forall ((%s Int)) (! (=> (and (<= 0 %s) (< %s %s)) (= %s %s)) :pattern (%s)))" % (
        q.s, q.s, q.s, length.s, ip.reg.l_get(t, q).s, elem_term(ip, s, x, el).s, ip.reg.l_get(t, q).s), "Bool"))
    return ip.new_cell(s, LstCell(t))


# --------------------------------------------------------------------------- allocation of abstract objects
# copy.deepcopy(x) of an abstract element x (sort Obj) creates a NEW object.  Ghost allocation clock: every allocation
# takes the current clock value k as its stamp and advances the clock; the new object c is a fresh constant with
#   born(c) = k        : allocation stamp
#   is_dcopy(c)        : made by copy.deepcopy
#   dcopy_src(c) = x   : the object it was copied from
# Everything reachable from the parameters at function entry was allocated before the entry: born < clock0.  Hence a
# deep copy made during the call differs from every object that existed before and from every other copy (distinct
# stamps).  The copy's behaviour/state is not constrained here (nothing is assumed about it).
def alloc_decls(ip):
    reg = ip.reg
    reg.need("Obj")
    reg.ufun("born", ["Obj"], "Int")
    reg.ufun("is_dcopy", ["Obj"], "Bool")
    reg.ufun("dcopy_src", ["Obj"], "Obj")


def copy_facts(c, v, k):
    """c is the object made by copy.deepcopy(v) at clock value k"""
    return "(and (= (born %s) %s) (is_dcopy %s) (= (dcopy_src %s) %s))" % (c, k, c, c, v)


def clock0(ip):
    c = getattr(ip, "_clock0", None)
    if c is None:
        alloc_decls(ip)
        c = ip._clock0 = ip.reg.new("clock0", "Int")
    return c


def clock(ip, st):
    c0 = clock0(ip)
    return st.notes.get("$clock", c0)


def call_start_clock(ip, st):
    """clock value when the call the clause belongs to started: the pre-state of a two-state clause (function entry for
    the function under verification, the call site's pre-state for a callee's clause)"""
    o = ip.oldst
    return clock(ip, o) if o is not None else clock0(ip)


def born(ip, t):
    alloc_decls(ip)
    return T("(born %s)" % t.s, "Int")


def assume_existing(ip, st):
    """everything reachable from the parameters at entry was allocated before the entry (a true fact, added on demand)"""
    if st.notes.get("$alloc_init"):
        return
    st.notes["$alloc_init"] = True
    c0 = clock0(ip)
    entry = ip.entry
    if entry is None:
        return
    reg = ip.reg
    seen = set()
    todo = list(entry.env.values())
    while todo:
        v = todo.pop()
        if isinstance(v, Opaque) and v.sort == "Obj":
            st.assume(CMP("<", born(ip, v.t), c0))
        elif isinstance(v, Tup):
            todo += v.items
        elif isinstance(v, Fun) and getattr(v, "obj", None) is not None:
            todo.append(v.obj)
        elif isinstance(v, Ref) and v.cid not in seen:
            seen.add(v.cid)
            cell = entry.heap.get(v.cid)
            if isinstance(cell, ObjCell):
                todo += list(cell.fields.values())
            elif isinstance(cell, PyListCell):
                todo += cell.items
            elif isinstance(cell, LstCell):
                t, binders = cell.term, []
                while reg.is_lst(t.sort):
                    b = "al%d" % next(ip.bound)
                    binders.append(b)
                    t = reg.l_get(t, T(b, "Int"))
                if t.sort == "Obj" and binders:
                    st.assume(T("(forall (%s) (! (< %s %s) :pattern (%s)))" % (
                        " ".join("(%s Int)" % b for b in binders), born(ip, t).s, c0.s, t.s), "Bool"))


def alloc_copy(ip, st, v):
    """copy.deepcopy of one abstract object"""
    assume_existing(ip, st)
    k = clock(ip, st)
    st.notes["$clock"] = ADD(k, I(1))
    c = ip.reg.new("copy", "Obj")
    st.assume(T(copy_facts(c.s, v.t.s, k.s), "Bool"))
    return Opaque(c)


def call_advances_clock(ip, st):
    """a callee that may allocate (contract ghost={"alloc": True}): the clock after the call is some value >= before"""
    assume_existing(ip, st)
    k = clock(ip, st)
    nk = ip.reg.new("clock", "Int")
    st.assume(CMP(">=", nk, k))
    st.notes["$clock"] = nk


def _names_in(node):
    return {n.id for n in ast.walk(node) if isinstance(n, ast.Name)}


def alloc_comprehension(ip, e, st):
    """`[copy.deepcopy(x) for _ in <sequence of symbolic length>]` with x an abstract object: n NEW objects with
    consecutive stamps.  Returns the new list (a Ref) or None when the comprehension is not of this form."""
    if len(e.generators) != 1 or e.generators[0].ifs or not isinstance(e.elt, ast.Call):
        return None
    g = e.generators[0]
    call = e.elt
    if len(call.args) != 1 or call.keywords or isinstance(call.args[0], ast.Starred):
        return None
    try:
        ip.spec_mode += 1
        try:
            f = ip.ev1(call.func, st)
        finally:
            ip.spec_mode -= 1
    except Exception:
        return None
    from .lib import lib_deepcopy
    if not (isinstance(f, Fun) and f.kind == "lib" and f.impl is lib_deepcopy):
        return None
    bound = _names_in(g.target)
    if bound & _names_in(call.args[0]):
        return None
    src = ip.as_view(st, ip.ev1(g.iter, st))
    if src.items is not None:
        return None                     # concrete length: the generic path evaluates every item in the real state
    v = ip.ev1(call.args[0], st)
    if isinstance(v, (Num, Bool, NoneV, Str)):
        return None                     # immutable: deepcopy is the identity, the generic (pure) path is exact
    if not (isinstance(v, Opaque) and v.sort == "Obj"):
        raise U("copy.deepcopy of a mutable value inside a comprehension of symbolic length")
    assume_existing(ip, st)
    reg = ip.reg
    sort = reg.lst("Obj")
    n = src.len
    k0 = clock(ip, st)
    t = reg.new("copies", sort)
    st.assume(EQ(reg.l_len(t), n))
    q = T("q%d" % next(ip.bound), "Int")
    st.assume(T("(forall ((%s Int)) (! (=> (and (<= 0 %s) (< %s %s)) %s) :pattern (%s)))" % (
        q.s, q.s, q.s, n.s, copy_facts(reg.l_get(t, q).s, v.t.s, "(+ %s %s)" % (k0.s, q.s)), reg.l_get(t, q).s), "Bool"))
    st.notes["$clock"] = ADD(k0, n)
    ip.assumptions.add("library contract (tier A): copy.deepcopy of an element creates a new object (ghost allocation clock)")
    return ip.new_cell(st, LstCell(t))


# ---- contract language: born(x), clock(), copy_of(c, x), new_object(c)
def sp_born(ip, st, pos, kws):
    v = pos[0]
    if not (isinstance(v, Opaque) and v.sort == "Obj"):
        raise U("born() of %r" % (v,))
    assume_existing(ip, st)
    return Num(born(ip, v.t))


def sp_clock(ip, st, pos, kws):
    assume_existing(ip, st)
    return Num(clock(ip, st))


def sp_copy_of(ip, st, pos, kws):
    """copy_of(c, x): c was made by copy.deepcopy(x)"""
    c, x = pos
    if not (isinstance(c, Opaque) and c.sort == "Obj" and isinstance(x, Opaque) and x.sort == "Obj"):
        raise U("copy_of(%r, %r)" % (c, x))
    alloc_decls(ip)
    return Bool(AND(T("(is_dcopy %s)" % c.t.s, "Bool"), EQ(T("(dcopy_src %s)" % c.t.s, "Obj"), x.t)))


def sp_new_object(ip, st, pos, kws):
    """new_object(c): c was allocated during this call (so it is none of the objects that existed at entry)"""
    c = pos[0]
    if not (isinstance(c, Opaque) and c.sort == "Obj"):
        raise U("new_object(%r)" % (c,))
    assume_existing(ip, st)
    return Bool(CMP(">=", born(ip, c.t), call_start_clock(ip, st)))


def obj_is_deep_copy(ip, st, v):
    """is_deep_copy(x) for an abstract object: made by copy.deepcopy during this call"""
    assume_existing(ip, st)
    return AND(T("(is_dcopy %s)" % v.t.s, "Bool"), CMP(">=", born(ip, v.t), call_start_clock(ip, st)))


def register(ix):
    ix.lib.update(LIB)
    for name, fn in [("born", sp_born), ("clock", sp_clock), ("copy_of", sp_copy_of), ("new_object", sp_new_object),
                     ("lsum", sp_lsum)]:
        ix.spec_names[name] = fn


# --------------------------------------------------------------------------- generators that yield tuples
# yields="Tuple[Tuple[Int],Real]": the ghost list `out` of yielded values is kept as one list term per leaf of the tuple
# shape (all of the same length); out[k] is the tuple rebuilt from the k-th entries.
class StructLstCell(object):
    """list of tuples of a fixed shape: shape = ("tuple", [shapes]) | ("leaf", sort); comps = Lst terms of the leaves"""

    def __init__(self, shape, comps):
        self.shape, self.comps = shape, list(comps)


def is_struct_type(ty):
    return ty.strip().startswith("Tuple[")


def parse_shape(ip, ty):
    from .interp import parse_type
    head, args = parse_type(ty)
    if head == "Tuple":
        return ("tuple", [parse_shape(ip, a) for a in args])
    sort = ip.lst_sort(ty)           # registers Lst_<elem>; raises Unsupported for other types
    return ("leaf", ip.reg.lst_elem[sort])


def _leaves(shape):
    if shape[0] == "leaf":
        return [shape[1]]
    out = []
    for s in shape[1]:
        out += _leaves(s)
    return out


def struct_new(ip, st, ty, name, empty=False):
    shape = parse_shape(ip, ty)
    leaves = _leaves(shape)
    if not leaves:
        raise U("generator yields tuples without any component: " + ty)
    comps = []
    for k, el in enumerate(leaves):
        t = ip.reg.new("%s$%d" % (name, k), ip.reg.lst(el))
        ip.assume_wf(st, t)
        if empty:
            st.assume(EQ(ip.reg.l_len(t), I(0)))
        elif comps:
            st.assume(EQ(ip.reg.l_len(t), ip.reg.l_len(comps[0])))
        comps.append(t)
    return StructLstCell(shape, comps)


def struct_view(ip, cell):
    reg = ip.reg

    def build(shape, i, it):
        if shape[0] == "leaf":
            return ip.wrap(reg.l_get(next(it), i))
        return Tup([build(s, i, it) for s in shape[1]])
    return View(reg.l_len(cell.comps[0]), lambda i: build(cell.shape, i, iter(cell.comps)))


def struct_append(ip, st, cell, v):
    """the list extended by the tuple v (which must have the declared shape)"""
    from .builtins_ import elem_term
    reg = ip.reg
    terms = []

    def walk(shape, x):
        if shape[0] == "leaf":
            terms.append(elem_term(ip, st, x, shape[1]))
            return
        view = ip.as_view(st, x) if not isinstance(x, Tup) else None
        items = x.items if isinstance(x, Tup) else view.items
        if items is None or len(items) != len(shape[1]) or not (isinstance(x, Tup) or ip.kind_of_seq(st, x) == "tuple"):
            raise U("yielded value %r does not have the declared tuple shape" % (x,))
        for s, y in zip(shape[1], items):
            walk(s, y)
    walk(cell.shape, v)
    return StructLstCell(cell.shape, [reg.l_append(t, x) for t, x in zip(cell.comps, terms)])


def struct_havoc(ip, st, cell, name):
    """fresh content of the same shape (loop head)"""
    comps = []
    for k, t0 in enumerate(cell.comps):
        t = ip.reg.new("%s$%d" % (name, k), t0.sort)
        ip.assume_wf(st, t)
        if comps:
            st.assume(EQ(ip.reg.l_len(t), ip.reg.l_len(comps[0])))
        comps.append(t)
    return StructLstCell(cell.shape, comps)


# --------------------------------------------------------------------------- library functions (tier A)
def _binop_lib(opcls):
    def impl(ip, st, pos, kws):
        if len(pos) != 2 or kws:
            raise U("operator function with other than two positional arguments")
        return ip.binop(opcls(), pos[0], pos[1], st)
    return impl


def lib_reduce(ip, st, pos, kws):
    """functools.reduce(f, seq[, initial]) over a sequence of concrete length: the left fold"""
    from .builtins_ import consume_view
    from .calls import call_value
    if kws or len(pos) not in (2, 3):
        raise U("functools.reduce call form")
    f = pos[0]
    view = consume_view(ip, st, pos[1])
    if view.items is None:
        raise U("functools.reduce over a sequence of symbolic length")
    items = list(view.items)
    if len(pos) == 3:
        acc0 = pos[2]
    elif items:
        acc0, items = items[0], items[1:]
    else:
        if ip.may_catch(st, "TypeError"):
            ip.raise_(st, "TypeError")
        else:
            ip.emit("safety", "reduce-of-nonempty", st, FALSE)
        return []
    outs = [(st, acc0)]
    for x in items:
        nxt = []
        for s, acc in outs:
            nxt += call_value(ip, s, f, [acc, x], {})
        outs = nxt
    return outs


def lib_histcell(ip, st, pos, kws):
    """HistCell(edges, bin, index): a namedtuple -- modelled as the plain 3-tuple it is"""
    names = ["edges", "bin", "index"]
    vals = list(pos)
    for n in names[len(vals):]:
        if n not in kws:
            raise U("HistCell(): missing field " + n)
        vals.append(kws[n])
    if len(vals) != 3 or any(k not in names for k in kws):
        raise U("HistCell() call form")
    return [(st, Tup(vals))]


LIB = {("operator", "mul"): _binop_lib(ast.Mult), ("operator", "add"): _binop_lib(ast.Add),
       ("operator", "sub"): _binop_lib(ast.Sub), ("functools", "reduce"): lib_reduce, "HistCell": lib_histcell}


# --------------------------------------------------------------------------- items of a symbolic comprehension
def freeze_new(ip, base, s2, r):
    """an item of a comprehension of symbolic length was computed in the throw-away state s2 (a copy of `base`): a list
    it CREATED there (a cell that does not exist in `base`) is handed on as an immutable snapshot of its items.  Sound:
    a later store into it or an identity test on it is out-of-subset (Views support neither)."""
    if isinstance(r, Tup):
        return Tup([freeze_new(ip, base, s2, x) for x in r.items])
    if isinstance(r, Ref) and r.cid not in base.heap:
        cell = s2.heap.get(r.cid)
        if isinstance(cell, PyListCell) and not r.path:
            v = ip.items_view([freeze_new(ip, base, s2, x) for x in cell.items])
            v.pykind = "list"
            return v
        if isinstance(cell, LstCell):
            v = ip.lst_view(ip.deref(s2, r))
            v.pykind = "list"
            return v
        raise U("item of a comprehension of symbolic length creates a %s" % type(cell).__name__)
    return r


# --------------------------------------------------------------------------- generator contracts with a defined output
def defined_out_view(ip, st, case, env):
    """Contract(out_def=(len_expr, var, item_expr)): the values the generator delivers are GIVEN by the contract
    (len(out) == len_expr and out[k] == item_expr for every k -- the contract must state exactly these two clauses as
    ensures, which is what the generator is verified against).  At a call site the iterator's content is then this
    function of the arguments itself rather than an unknown list constrained by the clauses."""
    from .calls import spec_state
    len_expr, var, item_expr = case.out_def
    need = ["len(out) == %s" % len_expr, "all(out[%s] == %s for %s in range(len(out)))" % (var, item_expr, var)]
    have = [c.replace(" ", "") for c in case.ensures]
    for n in need:
        if n.replace(" ", "") not in have:
            raise U("out_def of %s is not backed by the ensures clause `%s`" % (case.name, n))
    ip.spec_mode += 1
    try:
        n = ip.num(ip.ev1(ip.contracts_parse(len_expr), spec_state(st, dict(env))))
    finally:
        ip.spec_mode -= 1
    snap = st.copy()
    node = ip.contracts_parse(item_expr)

    def get(i):
        e2 = dict(env)
        e2[var] = Num(i)
        ip.spec_mode += 1
        try:
            return ip.ev1(node, spec_state(snap, e2))
        finally:
            ip.spec_mode -= 1
    if lit_int(n) is not None:
        length = I(max(lit_int(n), 0))
    elif n.s.startswith("(len_Lst_"):
        length = n                        # the length of a list: non-negative (well-formedness of list terms)
    else:
        length = ITE(CMP("<", n, I(0)), I(0), n)
    v = View(length, get)
    v.guard_len = n
    return v


# --------------------------------------------------------------------------- sum(...) of a sequence of symbolic length
def declare_lsum(reg, sort):
    el = reg.lst_elem[sort]
    zero = "0.0" if el == "Real" else "0"
    name = "lsum_" + el
    reg.fun_decl(name, "(define-fun-rec %s ((xs %s) (n Int)) %s (ite (<= n 0) %s (+ (%s xs (- n 1)) (select (arr_%s xs) (- n 1)))))"
                 % (name, sort, el, zero, name, sort))
    return name


def whole_list_term(ip, view):
    """the list term X when the view is syntactically `X[0], X[1], ... X[len(X)-1]` (else None)"""
    import re
    q = T("wl%d" % next(ip.bound), "Int")
    try:
        x = view.get(q)
    except Exception:
        return None
    if not isinstance(x, Num):
        return None
    m = re.match(r"^\(select \(arr_(Lst_[A-Za-z0-9_]+) (.+)\) %s\)$" % re.escape(q.s), x.t.s)
    if not m or m.group(1) not in ip.reg.lst_elem or q.s in m.group(2):
        return None
    X = T(m.group(2), m.group(1))
    L = ip.reg.l_len(X)
    if view.len.s in (L.s, ITE(CMP("<", L, I(0)), I(0), L).s):
        return X
    return None


def sum_symbolic(ip, st, view, start):
    """builtin sum over a sequence of numbers of symbolic length: the left fold of + (over the mathematical numbers),
    start + lsum(xs, len(xs))"""
    from .calls import materialise
    from .builtins_ import sv_lst_sort
    X = whole_list_term(ip, view)
    if X is None:
        q = T("sm%d" % next(ip.bound), "Int")
        sample = view.get(q)
        if not isinstance(sample, Num):
            raise U("sum over a symbolic sequence of non-numbers")
        X = materialise(ip, st, view, sv_lst_sort(ip, sample))
    if ip.reg.lst_elem[X.sort] not in ("Int", "Real"):
        raise U("sum over a list of " + X.sort)
    f = declare_lsum(ip.reg, X.sort)
    total = T("(%s %s %s)" % (f, X.s, ip.reg.l_len(X).s), ip.reg.lst_elem[X.sort])
    return Num(ADD(start, total))


def sp_lsum(ip, st, pos, kws):
    """lsum(xs, n): xs[0] + ... + xs[n-1] (reference function: a recursive definition over the mathematical numbers)"""
    from .speclib import lst_term
    X = lst_term(ip, st, pos[0])
    f = declare_lsum(ip.reg, X.sort)
    return Num(T("(%s %s %s)" % (f, X.s, ip.num(pos[1]).s), ip.reg.lst_elem[X.sort]))
