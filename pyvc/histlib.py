"""Engine additions made for the histogram contracts (contracts/P_hist.py): list repetition, allocation of abstract
objects by copy.deepcopy (ghost allocation clock), allocating list comprehensions, functools.reduce / operator.*.

Everything here either models the Python semantics exactly or raises Unsupported."""
import ast

from .smt import (T, TRUE, FALSE, I, R, NOT, AND, OR, IMP, ITE, EQ, ADD, SUB, MUL, NEG, CMP, to_real, lit_int)
from .sym import (SV, Num, Bool, NoneV, NONE, Str, Opaque, Tup, Ref, View, Fun, ExcV, Module, Sentinel,
                  LstCell, PyListCell, ValCell, PyDictCell, ObjCell, IterCell, State)


def U(msg):
    from .interp import Unsupported
    return Unsupported(msg)


# --------------------------------------------------------------------------- seq * n
def repeat_seq(ip, s, seq, n):
    """`seq * n` / `n * seq` for a list or tuple `seq` and an integer n: a NEW sequence holding the items of seq
    max(n, 0) times (the items themselves, not copies: `[x] * n` is n references to x)."""
    if isinstance(n, Bool):
        n = Num(ip.num(n))
    if not (isinstance(n, Num) and n.sort == "Int"):
        raise U("sequence repetition by a non-integer")
    view = ip.as_view(s, seq)
    is_tuple = ip.kind_of_seq(s, seq) == "tuple"
    k = lit_int(n.t)
    if k is None:
        k = count_from_pc(ip, s, n.t)       # e.g. `hist.dim` with `hist.dim == 1` among the hypotheses
    if view.items is not None and k is not None:
        items = list(view.items) * max(k, 0)
        return Tup(items) if is_tuple else ip.new_cell(s, PyListCell(items))
    if view.items is None or len(view.items) != 1:
        raise U("repetition of a sequence that is not a one-element display by a symbolic count")
    if is_tuple:
        raise U("tuple repetition by a symbolic count")
    x = view.items[0]
    if isinstance(x, Ref) or isinstance(x, (View, Tup)):
        # n references to one mutable object: the nested-list encoding (inner lists are values) cannot express that
        raise U("[mutable] * n: aliasing of the repeated object is not modelled")
    from .builtins_ import sv_lst_sort, elem_term
    sort = sv_lst_sort(ip, x)
    el = ip.reg.lst_elem[sort]
    t = ip.reg.new("rep", sort)
    length = ITE(CMP("<", n.t, I(0)), I(0), n.t)
    s.assume(EQ(ip.reg.l_len(t), length))
    q = T("q%d" % next(ip.bound), "Int")
    s.assume(T("(forall ((%s Int)) (! (=> (and (<= 0 %s) (< %s %s)) (= %s %s)) :pattern (%s)))" % (
        q.s, q.s, q.s, length.s, ip.reg.l_get(t, q).s, elem_term(ip, s, x, el).s, ip.reg.l_get(t, q).s), "Bool"))
    return ip.new_cell(s, LstCell(t))


# --------------------------------------------------------------------------- allocation of abstract objects
# copy.deepcopy(x) of an abstract element x (sort Obj) creates a NEW object.  Ghost allocation clock: every allocation
# takes the current clock value k as its stamp and advances the clock; the new object c is a fresh constant with
#   born(c) = k        : allocation stamp
#   is_dcopy(c)        : made by copy.deepcopy
#   dcopy_src(c) = x   : the object it was copied from
# Everything reachable from the parameters at function entry was allocated before the entry: born < clock0.  Hence a
# deep copy made during the call differs from every object that existed before and from every other copy (distinct
# stamps).  The copy's behaviour/state is not constrained here (nothing is assumed about it).
def alloc_decls(ip):
    reg = ip.reg
    reg.need("Obj")
    reg.ufun("born", ["Obj"], "Int")
    reg.ufun("is_dcopy", ["Obj"], "Bool")
    reg.ufun("dcopy_src", ["Obj"], "Obj")


def copy_facts(c, v, k):
    """c is the object made by copy.deepcopy(v) at clock value k"""
    return "(and (= (born %s) %s) (is_dcopy %s) (= (dcopy_src %s) %s))" % (c, k, c, c, v)


def clock0(ip):
    c = getattr(ip, "_clock0", None)
    if c is None:
        alloc_decls(ip)
        c = ip._clock0 = ip.reg.new("clock0", "Int")
    return c


def clock(ip, st):
    c0 = clock0(ip)
    return st.notes.get("$clock", c0)


def call_start_clock(ip, st):
    """clock value when the call the clause belongs to started: the pre-state of a two-state clause (function entry for
    the function under verification, the call site's pre-state for a callee's clause)"""
    o = ip.oldst
    return clock(ip, o) if o is not None else clock0(ip)


def born(ip, t):
    alloc_decls(ip)
    return T("(born %s)" % t.s, "Int")


def assume_existing(ip, st):
    """everything reachable from the parameters at entry was allocated before the entry (a true fact, added on demand)"""
    if st.notes.get("$alloc_init"):
        return
    st.notes["$alloc_init"] = True
    c0 = clock0(ip)
    entry = ip.entry
    if entry is None:
        return
    reg = ip.reg
    seen = set()
    todo = list(entry.env.values())
    while todo:
        v = todo.pop()
        if isinstance(v, Opaque) and v.sort == "Obj":
            st.assume(CMP("<", born(ip, v.t), c0))
        elif isinstance(v, Tup):
            todo += v.items
        elif isinstance(v, Fun) and getattr(v, "obj", None) is not None:
            todo.append(v.obj)
        elif isinstance(v, Ref) and v.cid not in seen:
            seen.add(v.cid)
            cell = entry.heap.get(v.cid)
            if isinstance(cell, ObjCell):
                todo += list(cell.fields.values())
            elif isinstance(cell, PyListCell):
                todo += cell.items
            elif isinstance(cell, LstCell):
                t, binders = cell.term, []
                while reg.is_lst(t.sort):
                    b = "al%d" % next(ip.bound)
                    binders.append(b)
                    t = reg.l_get(t, T(b, "Int"))
                if t.sort == "Obj" and binders:
                    st.assume(T("(forall (%s) (! (< %s %s) :pattern (%s)))" % (
                        " ".join("(%s Int)" % b for b in binders), born(ip, t).s, c0.s, t.s), "Bool"))


def alloc_copy(ip, st, v):
    """copy.deepcopy of one abstract object"""
    assume_existing(ip, st)
    k = clock(ip, st)
    st.notes["$clock"] = ADD(k, I(1))
    c = ip.reg.new("copy", "Obj")
    st.assume(T(copy_facts(c.s, v.t.s, k.s), "Bool"))
    st.notes["$new_objs"] = tuple(st.notes.get("$new_objs", ())) + (c.s,)      # (constants that denote objects allocated here)
    return Opaque(c)


def call_advances_clock(ip, st):
    """a callee that may allocate (contract ghost={"alloc": True}): the clock after the call is some value >= before"""
    assume_existing(ip, st)
    k = clock(ip, st)
    nk = ip.reg.new("clock", "Int")
    st.assume(CMP(">=", nk, k))
    st.notes["$clock"] = nk


def _names_in(node):
    return {n.id for n in ast.walk(node) if isinstance(n, ast.Name)}


def alloc_comprehension(ip, e, st):
    """`[copy.deepcopy(x) for _ in <sequence of symbolic length>]` with x an abstract object: n NEW objects with
    consecutive stamps.  Returns the new list (a Ref) or None when the comprehension is not of this form."""
    if len(e.generators) != 1 or e.generators[0].ifs or not isinstance(e.elt, ast.Call):
        return None
    g = e.generators[0]
    call = e.elt
    if len(call.args) != 1 or call.keywords or isinstance(call.args[0], ast.Starred):
        return None
    try:
        ip.spec_mode += 1
        try:
            f = ip.ev1(call.func, st)
        finally:
            ip.spec_mode -= 1
    except Exception:
        return None
    from .lib import lib_deepcopy
    if not (isinstance(f, Fun) and f.kind == "lib" and f.impl is lib_deepcopy):
        return None
    bound = _names_in(g.target)
    if bound & _names_in(call.args[0]):
        return None
    src = ip.as_view(st, ip.ev1(g.iter, st))
    if src.items is not None:
        return None                     # concrete length: the generic path evaluates every item in the real state
    v = ip.ev1(call.args[0], st)
    if isinstance(v, (Num, Bool, NoneV, Str)):
        return None                     # immutable: deepcopy is the identity, the generic (pure) path is exact
    if not (isinstance(v, Opaque) and v.sort == "Obj"):
        raise U("copy.deepcopy of a mutable value inside a comprehension of symbolic length")
    assume_existing(ip, st)
    reg = ip.reg
    sort = reg.lst("Obj")
    n = src.len
    k0 = clock(ip, st)
    t = reg.new("copies", sort)
    st.assume(EQ(reg.l_len(t), n))
    q = T("q%d" % next(ip.bound), "Int")
    st.assume(T("(forall ((%s Int)) (! (=> (and (<= 0 %s) (< %s %s)) %s) :pattern (%s)))" % (
        q.s, q.s, q.s, n.s, copy_facts(reg.l_get(t, q).s, v.t.s, "(+ %s %s)" % (k0.s, q.s)), reg.l_get(t, q).s), "Bool"))
    st.notes["$clock"] = ADD(k0, n)
    ip.assumptions.add("library contract (tier A): copy.deepcopy of an element creates a new object (ghost allocation clock)")
    return ip.new_cell(st, LstCell(t))


# ---- contract language: born(x), clock(), copy_of(c, x), new_object(c)
def sp_born(ip, st, pos, kws):
    v = pos[0]
    if not (isinstance(v, Opaque) and v.sort == "Obj"):
        raise U("born() of %r" % (v,))
    assume_existing(ip, st)
    return Num(born(ip, v.t))


def sp_clock(ip, st, pos, kws):
    assume_existing(ip, st)
    return Num(clock(ip, st))


def sp_copy_of(ip, st, pos, kws):
    """copy_of(c, x): c was made by copy.deepcopy(x)"""
    c, x = pos
    if not (isinstance(c, Opaque) and c.sort == "Obj" and isinstance(x, Opaque) and x.sort == "Obj"):
        raise U("copy_of(%r, %r)" % (c, x))
    alloc_decls(ip)
    return Bool(AND(T("(is_dcopy %s)" % c.t.s, "Bool"), EQ(T("(dcopy_src %s)" % c.t.s, "Obj"), x.t)))


def sp_new_object(ip, st, pos, kws):
    """new_object(c): c was allocated during this call (so it is none of the objects that existed at entry)"""
    c = pos[0]
    if not (isinstance(c, Opaque) and c.sort == "Obj"):
        raise U("new_object(%r)" % (c,))
    assume_existing(ip, st)
    return Bool(CMP(">=", born(ip, c.t), call_start_clock(ip, st)))


def obj_is_deep_copy(ip, st, v):
    """is_deep_copy(x) for an abstract object: made by copy.deepcopy during this call"""
    assume_existing(ip, st)
    return AND(T("(is_dcopy %s)" % v.t.s, "Bool"), CMP(">=", born(ip, v.t), call_start_clock(ip, st)))


def register(ix):
    ix.lib.update(LIB)
    for name, fn in [("born", sp_born), ("clock", sp_clock), ("copy_of", sp_copy_of), ("new_object", sp_new_object),
                     ("lsum", sp_lsum)]:
        ix.spec_names[name] = fn


# --------------------------------------------------------------------------- generators that yield tuples
# yields="Tuple[Tuple[Int],Real]": the ghost list `out` of yielded values is kept as one list term per leaf of the tuple
# shape (all of the same length); out[k] is the tuple rebuilt from the k-th entries.
class StructLstCell(object):
    """list of tuples of a fixed shape: shape = ("tuple", [shapes]) | ("leaf", sort); comps = Lst terms of the leaves"""

    def __init__(self, shape, comps):
        self.shape, self.comps = shape, list(comps)


def is_struct_type(ty):
    return ty.strip().startswith("Tuple[")


def parse_shape(ip, ty):
    from .interp import parse_type
    head, args = parse_type(ty)
    if head == "Tuple":
        return ("tuple", [parse_shape(ip, a) for a in args])
    if head == "PyList":
        return ("list", [parse_shape(ip, args[1])] * int(args[0]))      # a list of concrete length
    sort = ip.lst_sort(ty)           # registers Lst_<elem>; raises Unsupported for other types
    return ("leaf", ip.reg.lst_elem[sort])


def _leaves(shape):
    if shape[0] == "leaf":
        return [shape[1]]
    out = []
    for s in shape[1]:
        out += _leaves(s)
    return out


def struct_new(ip, st, ty, name, empty=False):
    shape = parse_shape(ip, ty)
    leaves = _leaves(shape)
    if not leaves:
        raise U("generator yields tuples without any component: " + ty)
    comps = []
    for k, el in enumerate(leaves):
        t = ip.reg.new("%s$%d" % (name, k), ip.reg.lst(el))
        ip.assume_wf(st, t)
        if empty:
            st.assume(EQ(ip.reg.l_len(t), I(0)))
        elif comps:
            st.assume(EQ(ip.reg.l_len(t), ip.reg.l_len(comps[0])))
        comps.append(t)
    return StructLstCell(shape, comps)


def struct_view(ip, cell):
    reg = ip.reg

    def build(shape, i, it):
        if shape[0] == "leaf":
            return ip.wrap(reg.l_get(next(it), i))
        items = [build(s, i, it) for s in shape[1]]
        if shape[0] == "list":
            v = ip.items_view(items)          # immutable stand-in for the yielded list (same items, still a `list`)
            v.pykind = "list"
            return v
        return Tup(items)
    return View(reg.l_len(cell.comps[0]), lambda i: build(cell.shape, i, iter(cell.comps)))


def struct_append(ip, st, cell, v):
    """the list extended by the tuple v (which must have the declared shape)"""
    from .builtins_ import elem_term
    reg = ip.reg
    terms = []

    def walk(shape, x):
        if shape[0] == "leaf":
            terms.append(elem_term(ip, st, x, shape[1]))
            return
        view = ip.as_view(st, x) if not isinstance(x, Tup) else None
        items = x.items if isinstance(x, Tup) else view.items
        kind = "tuple" if isinstance(x, Tup) else ip.kind_of_seq(st, x)
        if items is None or len(items) != len(shape[1]) or kind != shape[0]:
            raise U("yielded value %r does not have the declared shape" % (x,))
        for s, y in zip(shape[1], items):
            walk(s, y)
    walk(cell.shape, v)
    return StructLstCell(cell.shape, [reg.l_append(t, x) for t, x in zip(cell.comps, terms)])


def struct_havoc(ip, st, cell, name):
    """fresh content of the same shape (loop head)"""
    comps = []
    for k, t0 in enumerate(cell.comps):
        t = ip.reg.new("%s$%d" % (name, k), t0.sort)
        ip.assume_wf(st, t)
        if comps:
            st.assume(EQ(ip.reg.l_len(t), ip.reg.l_len(comps[0])))
        comps.append(t)
    return StructLstCell(cell.shape, comps)


# --------------------------------------------------------------------------- library functions (tier A)
def _binop_lib(opcls):
    def impl(ip, st, pos, kws):
        if len(pos) != 2 or kws:
            # python raises TypeError (an obligation that only an infeasible path can discharge)
            if ip.may_catch(st, "TypeError"):
                ip.raise_(st, "TypeError")
                return []
            ip.emit("safety", "operator-function-takes-two-arguments", st, FALSE)
            st.assume(FALSE)            # (the path is dead once that obligation is discharged)
            sort = pos[0].sort if pos and isinstance(pos[0], Num) else "Int"
            return [(st, Num(ip.reg.new("dead", sort)))]
        return ip.binop(opcls(), pos[0], pos[1], st)
    return impl


def lib_reduce(ip, st, pos, kws):
    """functools.reduce(f, seq[, initial]) over a sequence of concrete length: the left fold"""
    from .builtins_ import consume_view
    from .calls import call_value
    if kws or len(pos) not in (2, 3):
        raise U("functools.reduce call form")
    f = pos[0]
    view = consume_view(ip, st, pos[1])
    if view.items is None:
        raise U("functools.reduce over a sequence of symbolic length")
    items = list(view.items)
    if len(pos) == 3:
        acc0 = pos[2]
    elif items:
        acc0, items = items[0], items[1:]
    else:
        if ip.may_catch(st, "TypeError"):
            ip.raise_(st, "TypeError")
        else:
            ip.emit("safety", "reduce-of-nonempty", st, FALSE)
        return []
    outs = [(st, acc0)]
    for x in items:
        nxt = []
        for s, acc in outs:
            nxt += call_value(ip, s, f, [acc, x], {})
        outs = nxt
    return outs


def lib_histcell(ip, st, pos, kws):
    """HistCell(edges, bin, index): a namedtuple -- modelled as the plain 3-tuple it is"""
    names = ["edges", "bin", "index"]
    vals = list(pos)
    for n in names[len(vals):]:
        if n not in kws:
            raise U("HistCell(): missing field " + n)
        vals.append(kws[n])
    if len(vals) != 3 or any(k not in names for k in kws):
        raise U("HistCell() call form")
    return [(st, Tup(vals))]


LIB = {("operator", "mul"): _binop_lib(ast.Mult), ("operator", "add"): _binop_lib(ast.Add),
       ("operator", "sub"): _binop_lib(ast.Sub), ("functools", "reduce"): lib_reduce, "HistCell": lib_histcell}


# --------------------------------------------------------------------------- items of a symbolic comprehension
def freeze_new(ip, base, s2, r):
    """an item of a comprehension of symbolic length was computed in the throw-away state s2 (a copy of `base`): a list
    it CREATED there (a cell that does not exist in `base`) is handed on as an immutable snapshot of its items.  Sound:
    a later store into it or an identity test on it is out-of-subset (Views support neither)."""
    if isinstance(r, Tup):
        return Tup([freeze_new(ip, base, s2, x) for x in r.items])
    if isinstance(r, Ref) and r.cid not in base.heap:
        cell = s2.heap.get(r.cid)
        if isinstance(cell, PyListCell) and not r.path:
            v = ip.items_view([freeze_new(ip, base, s2, x) for x in cell.items])
            v.pykind = "list"
            return v
        if isinstance(cell, LstCell):
            v = ip.lst_view(ip.deref(s2, r))
            v.pykind = "list"
            return v
        raise U("item of a comprehension of symbolic length creates a %s" % type(cell).__name__)
    return r


# --------------------------------------------------------------------------- generator contracts with a defined output
def defined_out_view(ip, st, case, env):
    """Contract(out_def=(len_expr, var, item_expr)): the values the generator delivers are GIVEN by the contract
    (len(out) == len_expr and out[k] == item_expr for every k -- the contract must state exactly these two clauses as
    ensures, which is what the generator is verified against).  At a call site the iterator's content is then this
    function of the arguments itself rather than an unknown list constrained by the clauses."""
    from .calls import spec_state
    len_expr, var, item_expr = case.out_def
    need = ["len(out) == %s" % len_expr, "all(out[%s] == %s for %s in range(len(out)))" % (var, item_expr, var)]
    have = [c.replace(" ", "") for c in case.ensures]
    for n in need:
        if n.replace(" ", "") not in have:
            raise U("out_def of %s is not backed by the ensures clause `%s`" % (case.name, n))
    ip.spec_mode += 1
    try:
        n = ip.num(ip.ev1(ip.contracts_parse(len_expr), spec_state(st, dict(env))))
    finally:
        ip.spec_mode -= 1
    snap = st.copy()
    node = ip.contracts_parse(item_expr)

    def get(i):
        e2 = dict(env)
        e2[var] = Num(i)
        ip.spec_mode += 1
        try:
            return ip.ev1(node, spec_state(snap, e2))
        finally:
            ip.spec_mode -= 1
    if lit_int(n) is not None:
        length = I(max(lit_int(n), 0))
    elif n.s.startswith("(len_Lst_"):
        length = n                        # the length of a list: non-negative (well-formedness of list terms)
    else:
        length = ITE(CMP("<", n, I(0)), I(0), n)
    v = View(length, get)
    v.guard_len = n
    return v


# --------------------------------------------------------------------------- sum(...) of a sequence of symbolic length
def declare_lsum(reg, sort):
    el = reg.lst_elem[sort]
    zero = "0.0" if el == "Real" else "0"
    name = "lsum_" + el
    reg.fun_decl(name, "(define-fun-rec %s ((xs %s) (n Int)) %s (ite (<= n 0) %s (+ (%s xs (- n 1)) (select (arr_%s xs) (- n 1)))))"
                 % (name, sort, el, zero, name, sort))
    return name


def whole_list_term(ip, view):
    """the list term X when the view is syntactically `X[0], X[1], ... X[len(X)-1]` (else None)"""
    import re
    q = T("wl%d" % next(ip.bound), "Int")
    try:
        x = view.get(q)
    except Exception:
        return None
    if not isinstance(x, Num):
        return None
    m = re.match(r"^\(select \(arr_(Lst_[A-Za-z0-9_]+) (.+)\) %s\)$" % re.escape(q.s), x.t.s)
    if not m or m.group(1) not in ip.reg.lst_elem or q.s in m.group(2):
        return None
    X = T(m.group(2), m.group(1))
    L = ip.reg.l_len(X)
    if view.len.s in (L.s, ITE(CMP("<", L, I(0)), I(0), L).s):
        return X
    return None


def sum_symbolic(ip, st, view, start):
    """builtin sum over a sequence of numbers of symbolic length: the left fold of + (over the mathematical numbers),
    start + lsum(xs, len(xs))"""
    from .calls import materialise
    from .builtins_ import sv_lst_sort
    X = whole_list_term(ip, view)
    if X is None:
        q = T("sm%d" % next(ip.bound), "Int")
        sample = view.get(q)
        if not isinstance(sample, Num):
            raise U("sum over a symbolic sequence of non-numbers")
        X = materialise(ip, st, view, sv_lst_sort(ip, sample))
    if ip.reg.lst_elem[X.sort] not in ("Int", "Real"):
        raise U("sum over a list of " + X.sort)
    f = declare_lsum(ip.reg, X.sort)
    total = T("(%s %s %s)" % (f, X.s, ip.reg.l_len(X).s), ip.reg.lst_elem[X.sort])
    return Num(ADD(start, total))


def sp_lsum(ip, st, pos, kws):
    """lsum(xs, n): xs[0] + ... + xs[n-1] (reference function: a recursive definition over the mathematical numbers)"""
    from .speclib import lst_term
    try:
        view = ip.as_view(st, pos[0])
        empty = view.items is not None and not view.items
    except Exception:
        empty = False
    X = lst_term(ip, st, pos[0], ip.reg.lst("Real") if empty else None)       # (an empty display: sum 0 of any sort)
    f = declare_lsum(ip.reg, X.sort)
    return Num(T("(%s %s %s)" % (f, X.s, ip.num(pos[1]).s), ip.reg.lst_elem[X.sort]))


# --------------------------------------------------------------------------- typed abstract callables
# field / parameter type  Fn[A1,...,An,R]: a user callable known to return a value of type R for arguments of types Ai
# (a typing assumption of the contract case, like `Obj` for elements): calling it denotes an uninterpreted function of the
# callable and its arguments.  R may be Int, Real, Bool, V, Obj or a Tuple of these.
def make_fn(ip, args, name, st):
    if len(args) < 1:
        raise U("Fn[...] needs a result type")
    obj = ip.reg.new(name, "Obj")
    return Fun("absfn", obj=Opaque(obj), argtys=list(args[:-1]), resty=args[-1], name=name)


def call_absfn(ip, st, f, pos, kws):
    from .calls import conform, Mismatch
    from .interp import parse_type
    if kws or len(pos) != len(f.argtys):
        raise U("call of an abstract function with other arguments than declared")
    terms = [f.obj.t]
    for v, ty in zip(pos, f.argtys):
        try:
            c = conform(ip, st, v, ty)
        except Mismatch:
            raise U("argument %r of an abstract function does not have the declared type %s" % (v, ty))
        if isinstance(c, (Num, Opaque)):
            terms.append(c.t)
        elif isinstance(c, Bool):
            terms.append(c.t)
        else:
            raise U("abstract function argument of type " + ty)
    ip.assumptions.add("typed abstract callable: a user function declared Fn[...] returns a value of the declared type "
                       "and is a function of its arguments (it does not raise)")
    counter = [0]

    def build(ty):
        head, args = parse_type(ty)
        if head == "Tuple":
            return Tup([build(a) for a in args])
        if head == "Str" and not args:
            head = "Key"          # a string-valued user function (a key function): strings are the sort Key
            ip.reg.need_val()
        if head not in ("Int", "Real", "Bool", "V", "Obj", "Key"):
            raise U("abstract function result of type " + ty)
        k = counter[0]
        counter[0] += 1
        fn = ip.reg.ufun("fn_%s_%s_%d" % ("_".join(t.sort for t in terms[1:]) or "unit", head, k), [t.sort for t in terms], head)
        t = T("(%s %s)" % (fn, " ".join(x.s for x in terms)), head)
        return Num(t) if head in ("Int", "Real") else Bool(t) if head == "Bool" else Opaque(t)
    return [(st, build(f.resty))]


def fill_may_change_context(ip, st, el, cur_state, v, arg):
    """Contract(ghost={"fill_mutates_context": True}): the element given a (data, context) pair may change the context
    dictionary in place (internal sequences of a cell do); the new content is an unknown function of element, state and
    value"""
    if not (isinstance(arg, Tup) and len(arg.items) == 2 and isinstance(arg.items[1], Ref)
            and isinstance(st.heap[arg.items[1].cid], ValCell)):
        return
    g = ip.reg.ufun("el_fill_ctx_out", ["Obj", "St", "V"], "Val")
    ip.store(st, arg.items[1], T("(%s %s %s %s)" % (g, el.t.s, cur_state.s, v.t.s), "Val"))


def lib_product(ip, st, pos, kws):
    """itertools.product(*seqs): the cartesian product in lexicographic order, as an iterator of tuples.  Supported:
    sequences of concrete length (any number), or exactly one sequence of symbolic length (its items as 1-tuples)."""
    from .builtins_ import consume_view
    if kws:
        raise U("itertools.product(repeat=...)")
    views = [consume_view(ip, st, p) for p in pos]
    if all(v.items is not None for v in views):
        import itertools as _it
        items = [Tup(list(c)) for c in _it.product(*[v.items for v in views])]
        return [(st, ip.new_cell(st, IterCell(ip.items_view(items), I(0), name=None)))]
    if len(views) != 1:
        raise U("itertools.product of several sequences of symbolic length")
    v = views[0]
    view = View(v.len, lambda i: Tup([v.get(i)]))
    if getattr(v, "guard_len", None) is not None:
        view.guard_len = v.guard_len
    ip.assumptions.add("library contract (tier A): itertools.product(seq) delivers the 1-tuples of the items of seq in order")
    return [(st, ip.new_cell(st, IterCell(view, I(0), name=None)))]


LIB[("itertools", "product")] = lib_product


def count_from_pc(ip, s, n):
    """a symbolic integer the path condition pins to a literal (`(= n k)`): that literal"""
    for k in range(0, 8):
        if ip.known(s, EQ(n, I(k))) or ip.known(s, EQ(I(k), n)):
            return k
    return None


# --------------------------------------------------------------------------- list comprehensions of symbolic length
def _sv_text(ip, v, depth=0):
    """all SMT text a symbolic value is made of (to see which constants occur in it)"""
    if isinstance(v, (Num, Bool, Opaque)):
        return v.t.s
    if isinstance(v, Tup):
        return " ".join(_sv_text(ip, x, depth) for x in v.items)
    if isinstance(v, View):
        if getattr(v, "term", None) is not None:
            return v.term.s
        if v.items is not None:
            return " ".join(_sv_text(ip, x, depth) for x in v.items)
        if depth < 2:
            try:
                return v.len.s + " " + _sv_text(ip, v.get(T("pv%d" % next(ip.bound), "Int")), depth + 1)
            except Exception:
                return "?"
    return ""


def symbolic_listcomp(ip, st, snap, v):
    """value of a list comprehension over a sequence of symbolic length; `v` is the lazy view of its items computed in
    the snapshot `snap` of the state `st`"""
    reg = ip.reg
    sample, s2, new_consts = None, None, []
    if not ip.spec_mode and ip.c is not None and ip.c.ghost.get("alloc"):
        clock0(ip)      # (the clock value at function entry is ONE constant of the unit, not an unknown of the generic item)
    if not ip.spec_mode:
        # One generic item (index q, 0 <= q < n) is evaluated here, not in spec mode: the safety obligations of the
        # element expression (index in range, division by zero, callee preconditions) are emitted and its exceptions
        # explored now; later looks at an item (mostly by contract clauses) are silent.
        q = reg.new("ci", "Int")
        n = getattr(v, "guard_len", None) or v.len
        snap.pc.append(AND(CMP("<=", I(0), q), CMP("<", q, n)))
        n0 = len(reg.const_decls)
        try:
            if getattr(v, "get2", None) is not None:
                sample, s2 = v.get2(q)
            else:
                sample = v.get(q)
            n_pc = len(snap.pc)
        finally:
            snap.pc.pop()
        new_consts = list(reg.const_decls[n0:])
    raw_get = v.get

    def quiet_get(i):
        ip.silent = getattr(ip, "silent", 0) + 1
        n_exc = len(ip._exc_out)
        try:
            return raw_get(i)
        finally:
            ip.silent -= 1
            del ip._exc_out[n_exc:]
    v.get = quiet_get
    from .lib_sib import is_new_iterator, iterlst_from_comprehension
    if is_new_iterator(snap, s2, sample):
        # every item is a NEW iterator (e.g. cell.compute() of an abstract element): a list of generators (pyvc/lib_sib.py)
        return iterlst_from_comprehension(ip, st, snap, s2, v, q, n, sample, new_consts, n_pc)
    if s2 is not None and new_consts:
        # the element expression introduced unknowns (results of callees, new objects): they are unknowns PER ITEM
        text = _sv_text(ip, freeze_new(ip, snap, s2, sample)) + " " + " ".join(h.s for h in s2.pc[n_pc:])
        if any(name in text for name, _ in new_consts):
            return skolem_listcomp(ip, st, snap, s2, v, q, n, sample, new_consts, n_pc)
    if isinstance(sample, Ref) and s2 is not None:
        sample = freeze_new(ip, snap, s2, sample)
    if isinstance(sample, (Num, Bool)) or (isinstance(sample, Opaque) and sample.sort in ("V", "Obj", "Key", "Val")):
        # items of a simple sort: the comprehension's value is a NEW list object (a heap cell with identity that can be
        # stored, passed on and mutated), equal to the view item by item
        from .builtins_ import sv_lst_sort
        from .calls import materialise
        return ip.new_cell(st, LstCell(materialise(ip, st, v, sv_lst_sort(ip, sample))))
    return v


def skolem_listcomp(ip, st, snap, s2, v, q, n, sample, new_consts, n_pc):
    """[item for _ in seq] where evaluating the item creates unknowns (a callee's result, its effect on the allocation
    clock): every unknown c becomes a function c$f(x) of the item's index x, the facts established by the evaluation of
    the generic item hold for every index, and the list holds item(x) at x.  Conditions (else out-of-subset): the item
    expression leaves everything that existed before untouched, and its value is a number, an abstract value or a new
    list of those."""
    from .builtins_ import sv_lst_sort, elem_term
    reg = ip.reg
    for cid, cell in snap.heap.items():
        if s2.heap.get(cid) is not cell:
            raise U("item expression of a comprehension of symbolic length changes an existing object")
    for k in set(snap.env) | set(s2.env):
        if k.startswith("$") and s2.env.get(k) is not snap.env.get(k):
            raise U("item expression of a comprehension of symbolic length changes ghost state " + k)
    x = "sk%d" % next(ip.bound)
    sub = [(q.s, x)]
    for name, sort in new_consts:
        if name == q.s or name.startswith("|dflt:"):
            continue          # (|dflt:T|: THE default element of canonical list terms, one constant for the whole unit)
        fname = name[:-1] + "$f|"
        reg.fun_decl(fname, "(declare-fun %s (Int) %s)" % (fname, sort))
        sub.append((name, "(%s %s)" % (fname, x)))

    def S(text):
        for a, b in sub:
            text = text.replace(a, b)
        return text
    length = ITE(CMP("<", n, I(0)), I(0), n) if not n.s.startswith("(len_Lst_") else n
    rng = "(and (<= 0 %s) (< %s %s))" % (x, x, n.s)
    facts = [h for h in s2.pc[n_pc:] if h.s != "true"]
    if facts:
        st.assume(T("(forall ((%s Int)) (=> %s (and %s)))" % (x, rng, " ".join(S(h.s) for h in facts)), "Bool"))
    # the item as a term
    if isinstance(sample, Ref):
        cell = s2.heap.get(sample.cid)
        if not isinstance(cell, LstCell) or sample.cid in snap.heap:
            raise U("item of a comprehension of symbolic length: %s" % type(cell).__name__)
        item = ip.deref(s2, sample)
    elif isinstance(sample, (Num, Opaque)):
        item = sample.t
    else:
        raise U("item of a comprehension of symbolic length: %r" % (sample,))
    sort = reg.lst(item.sort)
    t = reg.new("comp", sort)
    ip.assume_wf(st, t)
    st.assume(EQ(reg.l_len(t), length))
    st.assume(T("(forall ((%s Int)) (! (=> %s (= %s %s)) :pattern (%s)))" % (
        x, rng, reg.l_get(t, T(x, "Int")).s, S(item.s), reg.l_get(t, T(x, "Int")).s), "Bool"))
    # ghost allocation clock: every item's evaluation may have advanced it
    c0, c1 = snap.notes.get("$clock"), s2.notes.get("$clock")
    if c1 is not None and (c0 is None or c0.s != c1.s):
        k0 = clock(ip, st)
        nk = reg.new("clock", "Int")
        st.assume(CMP(">=", nk, k0))
        st.assume(T("(forall ((%s Int)) (=> %s (>= %s %s)))" % (x, rng, nk.s, S(c1.s)), "Bool"))
        # (ground instance for the first item: quantifier instantiation has no term to start from)
        st.assume(T("(=> (< 0 %s) (>= %s %s))" % (n.s, nk.s, S(c1.s).replace(x, "0")), "Bool"))
        st.notes["$clock"] = nk
        if s2.notes.get("$alloc_init"):
            assume_existing(ip, st)
    return ip.new_cell(st, LstCell(t))
