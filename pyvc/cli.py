"""./check <property> [--tier quick|thorough] [--replay FILE] [--update-ledger]

Decides one property: (1) generates verification conditions from the current /repo sources against the sidecar
contracts and discharges them with z3/cvc5; (2) runs the bounded stand-in (run-time evaluation of the contracts /
reference specifications on the real code over a stated finite scope, labelled bounded, never counted as proved);
(3) matches failures against known_findings.json; (4) writes evidence/<id>.json.
Exit codes: 0 held, 1 violation (VIOLATION line), 2 undecided, 3 checker failure."""
import argparse
import hashlib
import importlib
import json
import os
import subprocess
import sys
import time

ROOT = os.path.dirname(os.path.dirname(os.path.abspath(__file__)))
sys.path.insert(0, ROOT)

from pyvc.contracts import ContractIndex, World, REPO        # noqa: E402
from pyvc.verify import units_for                             # noqa: E402
from pyvc.solve import discharge, get_values                  # noqa: E402
from pyvc import concretise                                   # noqa: E402

TOP_LEVEL = {"post", "raises", "frame", "lazy", "abandon", "invariant", "call-site", "lemma"}
INTERNAL = {"inv-init", "inv-preserve", "decreases", "pre-call", "safety"}
VENV_PY = "/venv/bin/python"


def load_index():
    ix = ContractIndex()
    from contracts import all as allc
    allc.register(ix)
    return ix


def load_known():
    p = os.path.join(ROOT, "known_findings.json")
    if os.path.exists(p):
        return json.load(open(p))
    return {"open": [], "fixed": []}


def obligation_id(prop, unit, vc):
    return "%s/%s:%s[%s]/%s" % (prop, unit.contract.file.replace("lena/", "").replace(".py", "").replace("/", "."),
                                unit.contract.qual, unit.case.name, vc.name)


def main(argv=None):
    ap = argparse.ArgumentParser()
    ap.add_argument("prop")
    ap.add_argument("--tier", default=os.environ.get("VERIF_TIER", "quick"))
    ap.add_argument("--replay")
    ap.add_argument("--update-ledger", action="store_true")
    ap.add_argument("--no-bounded", action="store_true")
    ap.add_argument("--only", default=None, help="only functions whose qualname contains this text (development)")
    ap.add_argument("-v", action="store_true")
    a = ap.parse_args(argv)
    prop = a.prop
    tier = a.tier if a.tier in ("quick", "thorough") else "quick"
    seed = int(os.environ.get("VERIF_SEED", "0") or 0)
    os.chdir(ROOT)
    if a.replay:
        return do_replay(prop, a.replay)
    t0 = time.time()
    try:
        rc = run_check(prop, tier, seed, a, t0)
    except SystemExit:
        raise
    except Exception:
        import traceback
        traceback.print_exc()
        print("CHECKER-FAILURE property=%s (traceback above)" % prop)
        rc = 3
    return rc


def run_check(prop, tier, seed, a, t0):
    ix = load_index()
    world = World()
    known = load_known()
    violations, undecided, known_lines, notes = [], [], [], []
    os.makedirs("build", exist_ok=True)
    os.makedirs("evidence", exist_ok=True)
    os.makedirs(os.path.join("replays", prop), exist_ok=True)
    smtdir = os.path.join("build", "smt", prop)
    static = None
    if prop == "C20":
        static = run_resolver(prop, known, violations, known_lines)
    # ------------------------------------------------------------------ proof phase
    contracts = [c for c in ix.by_key.values() if prop in c.props and not c.trusted]
    if a.only:
        contracts = [c for c in contracts if a.only in c.qual]
    units = []
    for c in contracts:
        units += units_for(c, ix, world)
    from pyvc.verify import lemma_unit
    for lem in ix.lemmas:
        if prop in lem.props and (not a.only or a.only in lem.name):
            units.append(lemma_unit(lem, ix, world))
    timeout = 20 if tier == "quick" else 120
    results = discharge(units, smtdir, timeout=timeout, tier=tier)
    by_unit = {}
    for r in results:
        by_unit.setdefault(id(r.unit), []).append(r)
    functions, assumptions = [], set()
    n_obl = n_proved = 0
    solver_time = 0.0
    by_backend = {}
    samples = []
    covers_sat = canaries = 0
    checker_failure = []
    ledger_now = []
    can_seen, can_ok = {}, {}
    for u in units:
        fentry = {"file": u.contract.file, "function": u.contract.qual, "case": u.case.name, "source_sha": u.src_sha,
                  "lines": u.lines, "paths": u.n_paths}
        if getattr(u, "renamed", None):
            fentry["contract_text_followed_renamed_locals"] = u.renamed
        if u.error:
            fentry["tier"] = "B (not proved this run: %s)" % u.error_kind
            fentry["reason"] = u.error[:300]
            functions.append(fentry)
            if u.error_kind == "crash":
                checker_failure.append("front end crashed on %s: %s" % (u.case.name, u.error[:400]))
            else:
                undecided.append(("%s/%s[%s]" % (prop, u.contract.qual, u.case.name), u.error_kind + ": " + u.error[:200]))
            continue
        assumptions |= set(u.assumptions)
        rs = by_unit.get(id(u), [])
        ok = True
        nvc = 0
        for r in rs:
            solver_time += r.time
            oid = obligation_id(prop, u, r.vc)
            if r.vc.kind == "cover":
                if r.status == "vacuous":
                    checker_failure.append("contradictory precondition (cover unsat): " + oid)
                elif r.status == "cover-ok":
                    covers_sat += 1
                continue
            if r.vc.kind == "canary":
                can_seen[id(u)] = can_seen.get(id(u), 0) + 1
                if r.status != "canary-bad":
                    canaries += 1
                    can_ok[id(u)] = True
                continue
            n_obl += 1
            nvc += 1
            if r.status == "proved":
                n_proved += 1
                by_backend[r.backend] = by_backend.get(r.backend, 0) + 1
                ledger_now.append(oid)
                if len(samples) < 6 and r.backend != "syntactic":
                    samples.append({"obligation": oid, "kind": r.vc.kind, "verdict": "unsat (proved)", "backend": r.backend,
                                    "smt_file": r.path, "time_s": round(r.time, 3)})
            elif r.status == "failed":
                ok = False
                handle_failed(prop, u, r, oid, known, violations, undecided, known_lines, tier)
            else:
                ok = False
                undecided.append((oid, "solver answers: %s" % (r.answers,)))
        if can_seen.get(id(u)) and not can_ok.get(id(u)) and ok:
            # (when an obligation of this unit failed, the hypotheses after it are expected to be contradictory)
            msg = "contradictory hypotheses (`ensures False` provable on every normal exit): %s[%s]" % (u.contract.qual, u.case.name)
            led_src = (_ledger_sources(prop) or {}).get(u.contract.file)
            if led_src is not None and led_src != u.src_sha:
                # the source file differs from the text the contract was proved for: under its contracts the changed
                # function has no normal exit any more (e.g. it now calls itself where its own precondition cannot
                # hold) - nothing is proved about it, and nothing refuted
                ok = False
                undecided.append(("%s/%s[%s]" % (prop, u.contract.qual, u.case.name), msg + " on a changed source file"))
            else:
                checker_failure.append(msg)
        fentry["tier"] = "P" if ok else "P (obligations failed this run)"
        fentry["obligations"] = nvc
        functions.append(fentry)
    # ------------------------------------------------------------------ ledger (vacuity guard on obligation counts)
    ledger_path = os.path.join(ROOT, "contracts", "ledger.json")
    ledger = json.load(open(ledger_path)) if os.path.exists(ledger_path) else {}
    shas = {u.contract.file: u.src_sha for u in units}
    if a.update_ledger:
        ledger[prop] = {"obligations": sorted(set(ledger_now)), "sources": shas,
                        "shapes": {unit_key(u): u.shape for u in units if u.shape is not None and u.case.loops}}
        fnn = ledger.setdefault("_fn_norm", {})
        for u in units:
            if getattr(u, "norm", None):
                fnn["%s:%s" % (u.contract.file, u.contract.qual)] = u.norm
        json.dump(ledger, open(ledger_path, "w"), indent=0, sort_keys=True)
    elif not a.only:
        led = ledger.get(prop)
        if led is not None:
            same = all(led["sources"].get(f) == s for f, s in shas.items()) and set(led["sources"]) == set(shas)
            if same:
                # compared without the path suffix (the naming of symbolic paths is the engine's business)
                strip = lambda o: o.rsplit("/", 1)[0]
                now_names = {strip(o) for o in ledger_now}
                failing_now = {strip(v[0]) for v in undecided} | {strip(v["obligation"]) for v in violations if "obligation" in v}
                lost = sorted({strip(m) for m in led["obligations"]} - now_names - failing_now)
                if lost and not violations and not undecided:
                    checker_failure.append("obligations of the committed ledger disappeared although the sources are "
                                           "unchanged: %s" % lost[:3])
        elif contracts:
            notes.append("no ledger entry for %s" % prop)
    if getattr(ix, "broken", None) and not os.environ.get("VERIF_SKIP_BROKEN"):
        checker_failure.append("contract module(s) failed to load: %s" % ", ".join(sorted(ix.broken)))
    if contracts and n_obl == 0 and not any(u.error for u in units):
        checker_failure.append("zero obligations generated")
    if static is not None:
        n_obl += static["obligations"]
        n_proved += static["discharged"]
        by_backend["scope-resolver"] = static["discharged"]
        samples += static["samples"]
        functions += static["functions"]
        assumptions |= set(static["assumptions"])
        if static["obligations"] == 0:
            checker_failure.append("resolver generated zero obligations")
    # ------------------------------------------------------------------ bounded stand-in
    bounded = None
    bpath = os.path.join(ROOT, "bounded", "%s.py" % prop)
    if os.path.exists(bpath) and not a.no_bounded:
        # (one result file per checker process: two checks of the same property may run at the same time)
        outp = os.path.join(ROOT, "build", "%s.bounded.%d.json" % (prop, os.getpid()))
        if os.path.exists(outp):
            os.unlink(outp)
        env = dict(os.environ)
        env["PYTHONPATH"] = REPO + os.pathsep + ROOT
        env["PYTHONDONTWRITEBYTECODE"] = "1"
        env["PYTHONHASHSEED"] = "0"
        cmd = [VENV_PY, "-W", "ignore", bpath, "--tier", tier, "--seed", str(seed), "--out", outp]
        tb = time.time()
        p = subprocess.run(cmd, capture_output=True, text=True, env=env, cwd=ROOT,
                           timeout=3000 if tier == "thorough" else 900)
        if os.path.exists(outp):
            bounded = json.load(open(outp))
            bounded["wall_s"] = round(time.time() - tb, 2)
            os.unlink(outp)
        else:
            checker_failure.append("bounded harness produced no result: rc=%s %s" % (p.returncode, (p.stderr or p.stdout)[-800:]))
        if bounded:
            for f in bounded.get("failures", []):
                handle_bounded_failure(prop, f, known, violations, known_lines)
            if bounded.get("error"):
                checker_failure.append("bounded harness error: " + bounded["error"][:600])
    # known findings whose witness no longer fails are not reported (a fixed defect needs no line)
    # a failed obligation for which the verifier gave no replayable input: name the concrete witnesses the run-time
    # evaluation of the same property found in this run (the line itself still ends with no-failing-input-found)
    settle_internal(violations, undecided)
    bounded_hits = [v for v in violations if v.get("bounded")]
    for v in violations:
        if "obligation" in v and "no-failing-input-found" in v["line"]:
            try:
                path = v["line"].split("replay=")[1].split(" ")[0]
                doc = json.load(open(path))
                doc["concrete_witnesses_from_the_bounded_stand_in_of_this_run"] = [
                    {"failure": b["bounded"], "replay": b["line"].split("replay=")[1].split(" ")[0]} for b in bounded_hits[:5]]
                with open(path, "w") as f:
                    json.dump(doc, f, indent=1, default=str)
            except Exception:
                pass
    # ------------------------------------------------------------------ report
    for line in sorted(set(known_lines)):
        print(line)
    for v in violations:
        print(v["line"])
    for oid, why in undecided:
        print("UNDECIDED property=%s obligation=%s (%s)" % (prop, oid, why[:200]))
    for c in checker_failure:
        print("CHECKER-FAILURE property=%s %s" % (prop, c))
    wall = time.time() - t0
    write_evidence(prop, tier, seed, ix, units, functions, n_obl, n_proved, by_backend, solver_time, samples, covers_sat,
                   canaries, assumptions, bounded, violations, known_lines, undecided, wall, notes)
    print("%s: obligations %d, proved %d, functions under contract %d, bounded cases %s, known findings %d, wall %.1fs"
          % (prop, n_obl, n_proved, len(functions), bounded.get("cases") if bounded else "-", len(set(known_lines)), wall))
    if violations:
        return 1
    if checker_failure:
        return 3
    if undecided:
        return 2
    return 0


# --------------------------------------------------------------------------- C20: static resolver
def run_resolver(prop, known, violations, known_lines):
    from pyvc import resolver
    obs, fails, w = resolver.check(REPO)
    kinds = {}
    for o in obs:
        kinds[o["kind"]] = kinds.get(o["kind"], 0) + 1
    for f in fails:
        key = "%s %s %s" % (f["kind"], f["where"], f["what"])
        k = match_known(known, prop, key)
        if k is not None:
            known_lines.append("KNOWN-FINDING: property=%s %s" % (prop, k["what"]))
            continue
        confirm = confirm_name_failure(f)
        rel = os.path.join("replays", prop, hashlib.sha1(key.encode()).hexdigest()[:12] + ".json")
        with open(os.path.join(ROOT, rel), "w") as fh:
            json.dump({"property": prop, "obligation": key, "detail": f["detail"], "replay": confirm}, fh, indent=1)
        line = "VIOLATION property=%s replay=%s" % (prop, os.path.join(ROOT, rel))
        if not confirm.get("violates"):
            line += " obligation=%s no-failing-input-found" % key.replace(" ", "_")
        violations.append({"line": line, "obligation": key})
    mods = sorted(w.mods)
    return {"obligations": len(obs), "discharged": len(obs) - len(fails),
            "samples": [{"obligation": "%s %s %s" % (o["kind"], o["where"], o["what"]), "verdict": "resolved"} for o in obs[:3] + obs[-3:]],
            "functions": [{"file": "lena/**/*.py", "function": "every function, method, class body and module body of %d modules" % len(mods),
                           "tier": "P (static scope resolution, finite and complete)", "obligations": len(obs), "by_kind": kinds}],
            "assumptions": ["symtable / ast scoping semantics of CPython 3.12", "python-2 compatibility branches folded as on python 3",
                            "names injected through globals()[name] (flow/zip.py) and attribute errors on instances are excluded",
                            "module-scope use-before-definition order is not analysed"]}


def confirm_name_failure(f):
    """native confirmation of a failed name obligation in a fresh interpreter"""
    if f["kind"] == "all":
        code = "from %s import *" % f["where"]
    elif f["kind"] == "global":
        mod = f["where"].split(":")[0]
        code = ("import builtins, importlib; m = importlib.import_module(%r); "
                "assert hasattr(m, %r) or hasattr(builtins, %r), 'unbound at run time'" % (mod, f["what"], f["what"]))
    else:
        mod = f["where"].split(":")[0]
        sub = ".".join(mod.split(".")[:2])
        code = "import %s\nimport lena\n%s" % (sub, f["what"])
    env = dict(os.environ)
    env["PYTHONPATH"] = REPO
    p = subprocess.run([VENV_PY, "-W", "ignore", "-c", code], capture_output=True, text=True, env=env)
    return {"violates": p.returncode != 0, "code": code, "stderr": p.stderr.strip().split("\n")[-1] if p.stderr else ""}


# --------------------------------------------------------------------------- failures
def match_known(known, prop, key_text):
    for k in known.get("open", []):
        if k["property"] != prop:
            continue
        for pat in k.get("match", []):
            if pat in key_text:
                return k
    return None


_LEDGER = None


def _ledger_sources(prop):
    global _LEDGER
    if _LEDGER is None:
        p = os.path.join(ROOT, "contracts", "ledger.json")
        _LEDGER = json.load(open(p)) if os.path.exists(p) else {}
    return _LEDGER.get(prop, {}).get("sources")


def unit_key(u):
    return "%s:%s" % (u.contract.file, u.case.name)


def stale_loops(prop, u):
    """the loop specifications of this unit were proved for loops assigning other variables than the current text does:
    returns a description, or None"""
    global _LEDGER
    if _LEDGER is None:
        p = os.path.join(ROOT, "contracts", "ledger.json")
        _LEDGER = json.load(open(p)) if os.path.exists(p) else {}
    then = _LEDGER.get(prop, {}).get("shapes", {}).get(unit_key(u))
    if then is not None and getattr(u, "renamed", None):
        then = [sorted(u.renamed.get(n, n) for n in lp) for lp in then]     # the contract followed a renaming of locals
    if then is None or not u.case.loops or u.shape is None or then == u.shape:
        return None
    # stale only if a loop-carried name the loop specifications SPEAK ABOUT is no longer assigned by any loop (a loop
    # that merely assigns an additional local is the same loop as far as the contract is concerned)
    import re
    vanished = {n for lp in then for n in lp} - {n for lp in u.shape for n in lp}
    texts = []
    for ls in u.case.loops.values():
        for f in ("invariant", "decreases", "keep", "havoc", "body_end"):
            v = getattr(ls, f, None)
            texts += [v] if isinstance(v, str) else [x for x in (v or []) if isinstance(x, str)]
        for f in ("ghost", "init_ghost", "body_ghost", "cursor"):
            d = getattr(ls, f, None) or {}
            texts += list(d.keys()) + [x for x in d.values() if isinstance(x, str)]
    used = set(re.findall(r"[A-Za-z_]\w*", " ".join(texts)))
    gone = sorted(vanished & used)
    if not gone:
        return None
    return "the loop specifications name %s, which the loops of the function no longer assign (loops assigned %s when the " \
           "contract was proved, %s now)" % (gone, then, u.shape)


def in_ledger(prop, oid):
    global _LEDGER
    if _LEDGER is None:
        p = os.path.join(ROOT, "contracts", "ledger.json")
        _LEDGER = json.load(open(p)) if os.path.exists(p) else {}
    # the path suffix of an obligation id changes when control flow is edited: compare without it
    names = {o.rsplit("/", 1)[0] for o in _LEDGER.get(prop, {}).get("obligations", [])}
    return oid.rsplit("/", 1)[0] in names


def handle_failed(prop, u, r, oid, known, violations, undecided, known_lines, tier):
    """a definite `sat` on an obligation: concretise the model, replay on the real code"""
    k = match_known(known, prop, oid)
    replay = concretise.try_replay(u, r)
    rel = os.path.join("replays", prop, hashlib.sha1(oid.encode()).hexdigest()[:12] + ".json")
    doc = {"property": prop, "obligation": oid, "kind": r.vc.kind, "smt_file": r.path, "solver": r.backend,
           "solver_answers": [[x[0], x[1], round(x[2], 3)] for x in r.answers], "info": r.vc.info,
           "function": {"file": u.contract.file, "qual": u.contract.qual, "case": u.case.name},
           "replay": replay}
    confirmed = bool(replay and replay.get("violates"))
    if k is not None:
        known_lines.append("KNOWN-FINDING: property=%s %s" % (prop, k["what"]))
        return
    stale = None if confirmed else stale_loops(prop, u)
    if stale:
        # the loop invariants of the contract name loop-carried locals of an earlier text of the function (renamed /
        # restructured loop): the proof has to be redone; a failed obligation says nothing about the property
        undecided.append((oid, "stale contract: " + stale))
        return
    if not confirmed and r.vc.kind in INTERNAL and not in_ledger(prop, oid):
        # an internal obligation (invariant / measure / callee precondition) that was never proved on the committed tree:
        # undecided, not a violation
        undecided.append((oid, "internal obligation not provable (sat), no failing input found, and it is not in the "
                               "committed ledger of proved obligations"))
        return
    # a definite `sat` on an obligation that is proved on the committed tree (ledger): reported as a violation; without a
    # replayable input the line ends with no-failing-input-found (the replay file carries the solver output)
    with open(os.path.join(ROOT, rel), "w") as f:
        json.dump(doc, f, indent=1, default=str)
    line = "VIOLATION property=%s replay=%s" % (prop, os.path.join(ROOT, rel))
    if not confirmed:
        line += " obligation=%s no-failing-input-found" % oid.replace(" ", "_")
    violations.append({"line": line, "obligation": oid, "unit": unit_key(u),
                       "internal": (not confirmed) and r.vc.kind in INTERNAL})


def settle_internal(violations, undecided):
    """A failed loop-invariant / measure / callee-precondition obligation shows that the PROOF no longer goes through.  It is
    reported as a violation only when something speaks for a broken property: a postcondition / raises / frame / yield /
    abandon clause of the same function fails too, or the run-time evaluation of the property found a failing input in
    this run.  Otherwise it is undecided (exit 2): the proof has to be redone."""
    top_units = {v.get("unit") for v in violations if v.get("obligation") and not v.get("internal")}
    has_bounded = any(v.get("bounded") for v in violations)
    keep = []
    for v in violations:
        if v.get("internal") and not has_bounded and v.get("unit") not in top_units:
            undecided.append((v["obligation"], "an invariant / measure / callee precondition of the proof is no longer provable (sat), "
                              "but no postcondition, raises, frame or yield clause of the function fails and the run-time "
                              "evaluation of the property found no failing input: the proof has to be redone"))
        else:
            keep.append(v)
    violations[:] = keep


def handle_bounded_failure(prop, f, known, violations, known_lines):
    key = f.get("id", "") + " " + f.get("what", "")
    k = match_known(known, prop, key)
    if k is not None:
        known_lines.append("KNOWN-FINDING: property=%s %s" % (prop, k["what"]))
        return
    rel = os.path.join("replays", prop, "bounded_" + hashlib.sha1(key.encode()).hexdigest()[:12] + ".json")
    doc = {"property": prop, "source": "bounded contract check on the real code", "failure": f}
    with open(os.path.join(ROOT, rel), "w") as fh:
        json.dump(doc, fh, indent=1, default=str)
    violations.append({"line": "VIOLATION property=%s replay=%s" % (prop, os.path.join(ROOT, rel)), "bounded": f.get("id")})


def do_replay(prop, path):
    doc = json.load(open(path))
    if "failure" in doc:
        env = dict(os.environ)
        env["PYTHONPATH"] = REPO + os.pathsep + ROOT
        p = subprocess.run([VENV_PY, "-W", "ignore", os.path.join(ROOT, "bounded", prop + ".py"), "--replay", path],
                           env=env, cwd=ROOT)
        return p.returncode
    rp = doc.get("replay")
    if not rp or "request" not in rp:
        print("no concrete input recorded; failed obligation:", doc.get("obligation"))
        print(json.dumps(doc.get("solver_answers")))
        return 1
    out = concretise.run_native(rp["request"])
    print(json.dumps(out, indent=1, default=str))
    return 1 if out.get("violates") else 0


# --------------------------------------------------------------------------- evidence
def write_evidence(prop, tier, seed, ix, units, functions, n_obl, n_proved, by_backend, solver_time, samples, covers_sat,
                   canaries, assumptions, bounded, violations, known_lines, undecided, wall, notes):
    man = json.load(open(os.path.join(ROOT, "MANIFEST.json")))
    level = "proof"
    for c in man.get("checks", []):
        if c["property_id"] == prop:
            level = c["level_claimed"]["category"]
    trusted = ["pyvc front end (unverified VC generator, /verif/pyvc)", "z3 5.1.0 / z3 4.8.12 / cvc5 1.0.3", "CPython ast module"]
    lib = sorted(a for a in assumptions if a.startswith("library contract"))
    cov = {
        "obligations": n_obl, "discharged": n_proved,
        "checker_cmd": "./check %s --tier %s  (python3-vt -m pyvc.cli; SMT-LIB files under build/smt/%s/)" % (prop, tier, prop),
        "trusted_base": trusted + lib,
        "functions_under_contract": functions,
        "by_backend": by_backend, "solver_time_s": round(solver_time, 2),
        "covers_sat": covers_sat, "canaries_not_provable": canaries,
        "samples": samples or [{"note": "no SMT obligation this run"}],
        "undecided": [u[0] for u in undecided],
        "known_findings_confirmed": sorted(set(known_lines)),
        "explanation": "obligations = verification conditions generated from the real ASTs of the functions under "
                       "contract (one per kind and symbolic path), all inputs / all iterations; bounded = run-time "
                       "evaluation of the same contracts / reference specs on the real code over the stated finite "
                       "scope (never counted in obligations/discharged).",
        "notes": notes,
    }
    if bounded:
        cov["bounded"] = bounded.get("scopes", [])
        cov["evaluations"] = int(bounded.get("cases", 0))
        cov["distinct_nontrivial"] = int(bounded.get("nontrivial", 0))
        cov["rule"] = bounded.get("rule", "")
        cov["bounded_samples"] = bounded.get("samples", [])[:6]
        cov["exhaustive_bounded_scope"] = bool(bounded.get("exhaustive", False))
        cov["bounded_wall_s"] = bounded.get("wall_s")
        if level != "proof" or n_obl == 0:
            cov["samples"] = (bounded.get("samples", [])[:6] or cov["samples"]) + (samples if n_obl else [])
    if n_obl == 0:
        cov.pop("obligations")
        cov.pop("discharged")
    ev = {"property_id": prop, "tier": tier, "seed": seed, "level": level, "coverage": cov,
          "assumptions": sorted(assumptions) + [
              "python ints mathematical; float comparisons exact on finite values; float arithmetic per contract "
              "(abstracted / uninterpreted / real) as stated in DESIGN 2.4",
              "classes as written (no subclass overrides, no monkey patching)"],
          "wall_s": round(wall, 2), "violations": len(violations)}
    evdir = os.environ.get("VERIF_EVIDENCE_DIR") or os.path.join(ROOT, "evidence")     # (seeded-change runs write elsewhere)
    os.makedirs(evdir, exist_ok=True)
    with open(os.path.join(evdir, prop + ".json"), "w") as f:
        json.dump(ev, f, indent=1, default=str)


if __name__ == "__main__":
    sys.exit(main())
