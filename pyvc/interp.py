"""Symbolic executor for a subset of Python over the *real* function ASTs of /repo.

One `Interp` verifies one function against its contract and produces a list of
verification conditions (VC).  Callees are replaced by their contracts.  See
DESIGN.md section 2 for the subset and the assumptions of the encoding.
"""
import ast
import itertools
import re

from .smt import (T, TRUE, FALSE, I, R, app, NOT, AND, OR, IMP, ITE, EQ, ADD, SUB, MUL, NEG, CMP,
                  to_real, num2, lit_int, Registry)
from .sym import (SV, Num, Bool, NoneV, NONE, Str, Opaque, Tup, Ref, View, Fun, ExcV, Module, Sentinel,
                  Cell, LstCell, PyListCell, ValCell, PyDictCell, ObjCell, IterCell, State, Padded)


from .sym import Seg


class Unsupported(Exception):
    """construct outside the accepted subset -> function is reported out-of-subset (never silently skipped)"""
    pass


class VC(object):
    def __init__(self, name, kind, hyps, goal, trace, info=None):
        self.name, self.kind, self.hyps, self.goal, self.trace = name, kind, list(hyps), goal, trace
        self.info = info or {}


BUILTIN_EXC = {
    "BaseException": None, "Exception": "BaseException", "LookupError": "Exception", "IndexError": "LookupError",
    "KeyError": "LookupError", "StopIteration": "Exception", "TypeError": "Exception", "ValueError": "Exception",
    "ArithmeticError": "Exception", "ZeroDivisionError": "ArithmeticError", "AttributeError": "Exception",
    "NameError": "Exception", "RuntimeError": "Exception", "NotImplementedError": "RuntimeError",
    "OverflowError": "ArithmeticError", "AssertionError": "Exception", "OSError": "Exception",
    "ImportError": "Exception", "UserWarning": "Exception", "DeprecationWarning": "Exception",
    "GeneratorExit": "BaseException", "EOFError": "Exception", "FileNotFoundError": "OSError", "IOError": "OSError",
    "EnvironmentError": "OSError", "UpstreamError": "Exception",
    # decimal module (signals trapped by a decimal.Context are raised as these classes)
    "DecimalException": "ArithmeticError", "Inexact": "DecimalException",
}

MUTATORS = {"append", "extend", "pop", "insert", "update", "appendleft", "popleft", "clear", "remove", "sort",
            "reverse", "setdefault", "popitem"}


def parse_type(s):
    """'Lst[Lst[Real]]' -> ('Lst', [('Lst', [('Real', [])])])"""
    s = s.strip()
    m = re.match(r"^([A-Za-z_][A-Za-z0-9_]*)(?:\[(.*)\])?$", s, re.S)
    if not m:
        raise ValueError("bad type " + s)
    head, rest = m.group(1), m.group(2)
    args = []
    if rest is not None:
        depth, cur = 0, ""
        for c in rest:
            if c == "[":
                depth += 1
            elif c == "]":
                depth -= 1
            if c == "," and depth == 0:
                args.append(cur)
                cur = ""
            else:
                cur += c
        if cur.strip():
            args.append(cur)
    return head, [a.strip() for a in args]


class Interp(object):
    def __init__(self, reg, modctx, contracts, contract, world):
        self.reg = reg
        self.mod = modctx            # ModuleCtx of the function under verification
        self.contracts = contracts   # ContractIndex
        self.c = contract            # Contract of the function under verification (may be None in pure spec use)
        self.world = world           # World: exception hierarchy, module cache
        self.vcs = []
        self.spec_mode = 0
        self._exc_out = []           # exceptional outcomes produced during expression evaluation
        self.cid = itertools.count()
        self.bound = itertools.count()
        self.loop_ids = {}
        self.oldst = None
        self.cur_fn = None
        self.assumptions = set()
        self.covers = []
        self.lemma_hyps = []
        self.max_paths = contract.max_paths if contract is not None else 4000
        self.bound_stack = []
        self.entry = None
        self._parse_cache = {}

    def contracts_parse(self, text):
        n = self._parse_cache.get(text)
        if n is None:
            n = ast.parse(text.strip(), mode="eval").body
            self._parse_cache[text] = n
        return n

    def spec_env(self, st):
        return st.env

    def loop_spec(self, k):
        if self.c is None:
            return None
        return self.c.loops.get(k)

    def to_yield_value(self, st, v):
        """value handed to the consumer by `yield`; (data, context) pairs over V are folded by an injective pairing"""
        if isinstance(v, Tup) and len(v.items) == 2 and all(isinstance(x, Opaque) and x.sort == "V" for x in v.items):
            f = self.reg.ufun("mkpair", ["V", "V"], "V")
            return Opaque(T("(%s %s %s)" % (f, v.items[0].t.s, v.items[1].t.s), "V"))
        return v

    # ------------------------------------------------------------------ small helpers
    def new_cell(self, st, cell):
        self.n_cells = getattr(self, "n_cells", 0) + 1
        cid = "c%d" % self.n_cells
        st.heap[cid] = cell
        return Ref(cid)

    def emit(self, kind, name, st, goal, info=None):
        if self.spec_mode or getattr(self, "silent", 0):
            return
        if goal.s == "true":
            # trivially true obligations are still counted (discharged syntactically)
            self.vcs.append(VC(name + "/" + st.trace, kind, [], TRUE, st.trace, info))
            return
        self.vcs.append(VC(name + "/" + st.trace, kind, st.pc, goal, st.trace, info))

    def raise_(self, st, cls, args=()):
        self._exc_out.append((st, ExcV(cls, args)))

    def is_subclass(self, cls, base):
        return self.world.is_subclass(cls, base)

    def may_catch(self, st, cls):
        """is exception class `cls` observable: caught by an enclosing handler or allowed by the contract"""
        for c in st.catching:
            if self.is_subclass(cls, c):
                return True
        if self.c is not None and not self.spec_mode:
            for e in self.c.raises:
                if self.is_subclass(cls, e):
                    return True
        return False

    # ------------------------------------------------------------------ types
    def make(self, ty, name, st):
        head, args = parse_type(ty)
        reg = self.reg
        if head == "Int" and args:
            return Num(I(int(args[0])))          # Int[k]: the literal k (a field / parameter pinned by the case's typing)
        if head in ("Int", "Real"):
            return Num(reg.new(name, head))
        if head == "Dec":
            # a decimal.Decimal: the exact real it denotes; operator arithmetic on it rounds with the thread's decimal
            # context, which is not modelled (binop refuses it): only library contracts (Context.add) compute with it
            d = Num(reg.new(name, "Real"))
            d.decimal = True
            return d
        if head == "Bool":
            return Bool(reg.new(name, "Bool"))
        if head == "None":
            return NONE
        if head in ("V", "Obj", "Key", "Val", "St"):
            if head in ("Val", "Key"):
                reg.need_val()
            return Opaque(reg.new(name, head))
        if head == "Exc":
            return ExcV(args[0])            # a stored exception object of that class
        if head == "Lib":
            # a field holding a library function (e.g. self._dump = pickle.dump)
            impl = self.contracts.lib.get(args[0])
            if impl is None:
                raise Unsupported("no library contract for " + args[0])
            return Fun("lib", name=args[0], mod="", impl=impl)
        if head == "Dict":
            # a mutable dictionary-like value passed by reference (the argument may also be a scalar: isdict() tells)
            reg.need_val()
            return self.new_cell(st, ValCell(reg.new(name, "Val")))
        if head == "Lst":
            sort = self.lst_sort(args[0])
            t = reg.new(name, sort)
            self.assume_wf(st, t)
            return self.new_cell(st, LstCell(t))
        if head == "KeyMap":
            from .keymap import km_make          # a dict from strings to lists of args[0] (pyvc/keymap.py)
            return km_make(self, st, name, args[0])
        if head == "PyList":
            n = int(args[0])
            if len(args) == n + 1 and n > 1:
                # PyList[n,T1,...,Tn]: a list display of n items of these types (one type per item); an item typed
                # Same[j] (j < its own position) is the very same object as item j (aliased columns)
                items = []
                for k in range(n):
                    hk, ak = parse_type(args[k + 1])
                    items.append(items[int(ak[0])] if hk == "Same" else self.make(args[k + 1], "%s_%d" % (name, k), st))
                return self.new_cell(st, PyListCell(items))
            return self.new_cell(st, PyListCell([self.make(args[1], "%s_%d" % (name, k), st) for k in range(n)]))
        if head == "Tuple":
            return Tup([self.make(a, "%s_%d" % (name, k), st) for k, a in enumerate(args)])
        if head == "KwDict":
            # the **kwargs dictionary of a call: a new dict with exactly these keyword names (KwDict[level:Int,...])
            from .calls import kw_fields
            return self.new_cell(st, PyDictCell({k: self.make(t, "%s.%s" % (name, k), st) for k, t in kw_fields(ty).items()}))
        if head == "Iter":
            sort = self.lst_sort(args[0])
            t = reg.new(name + "$all", sort)
            self.assume_wf(st, t)
            src = self.lst_view(t)
            return self.new_cell(st, IterCell(src, I(0), name=name))
        if head == "Str":
            return Str(args[0].strip("'\"")) if args else Opaque(reg.new(name, "Key"))
        if head == "Sentinel":
            return Sentinel(args[0])
        if head == "Self" or head == "Inst":
            cls = args[0]
            spec = self.contracts.classes[cls]
            fields = {}
            for f, fty in spec.fields.items():
                if fty.startswith("MethodOf["):
                    # a field holding a bound method of an abstract element stored in another field
                    a, m = [x.strip() for x in fty[9:-1].split(",")]
                    fields[f] = Fun("elem-method", elem=fields[a], name=m)
                    continue
                if fty.startswith("Arith["):
                    # ghost iterator over the arithmetic progression start, start+step, ... (< stop if has_stop)
                    a, b, c, k = [x.strip() for x in fty[6:-1].split(",")]
                    cell = IterCell(None, I(0))
                    cell.kind = "arith"
                    cell.nextval = reg.new("%s.%s$next" % (name, f), "Int")
                    cell.step, cell.stop, cell.has_stop = int(k), fields[b].t, fields[c].t
                    fields[f] = self.new_cell(st, cell)
                    continue
                if fty.startswith("Closure["):
                    # a field holding a function object made from a registered lambda expression whose free variables are
                    # other fields of the same object (ContractIndex.closures, see lib_flow.make_closure)
                    from .lib_flow import make_closure
                    fields[f] = make_closure(self, fty[8:-1].strip(), fields)
                    continue
                fields[f] = self.make(fty, "%s.%s" % (name, f), st)
            return self.new_cell(st, ObjCell(cls, fields))
        if head == "Builtin":
            if args[0] not in BUILTINS:
                raise Unsupported("Builtin[%s]" % args[0])
            return Fun("builtin", name=args[0])          # a field / parameter holding that python builtin (e.g. `tuple`)
        if head == "IterLst":
            from .lib_sib import make_iterlst     # a list of generator iterators of symbolic length (pyvc/lib_sib.py)
            return make_iterlst(self, args, name, st)
        if head == "Fn":
            from .histlib import make_fn          # typed abstract callable Fn[A1,...,R]
            return make_fn(self, args, name, st)
        if head == "OpaqueFn":
            # a field / parameter holding SOME callable nothing else is known about (e.g. a bound method installed by a
            # callee whose contract only proves `callable(self.f)`): callable() is true, calling it and deciding its
            # identity with anything but itself are out-of-subset
            return Fun("opaque-callable", name="%s#%d" % (name, next(self.bound)))
        if head == "Def":
            # a field / parameter holding a module-level function of the repository (Def[lena.pkg.module.name]): calls go
            # through that function's contract (or its real AST if the contract is inline=True)
            modname, _, attr = args[0].strip().rpartition(".")
            f = self.world.module_attr(modname, attr, self)
            if not (isinstance(f, Fun) and f.kind in ("contract", "moddef")):
                raise Unsupported("Def[%s]: not a function of the repository" % args[0])
            return f
        if head in ("Tree", "KeySet", "TreeMap"):
            from .iet import make_value          # include / exclude trees as values (pyvc/iet.py)
            return make_value(self, head, name, st)
        raise Unsupported("type " + ty)

    def lst_sort(self, elemty):
        head, args = parse_type(elemty)
        if head == "Lst":
            return self.reg.lst(self.lst_sort(args[0]))
        if head in ("Int", "Real", "Bool", "V", "Obj", "Key", "Val", "St"):
            if head in ("Val", "Key"):
                self.reg.need_val()
            return self.reg.lst(head)
        raise Unsupported("list element type " + elemty)

    def assume_wf(self, st, t):
        """well-formedness of a list term: length >= 0, recursively for nested lists"""
        reg = self.reg
        st.assume(CMP(">=", reg.l_len(t), I(0)))
        el = reg.lst_elem[t.sort]
        if reg.is_lst(el):
            b = "wf%d" % next(self.bound)
            inner = T("(select (arr_%s %s) %s)" % (t.sort, t.s, b), el)
            st.assume(T("(forall ((%s Int)) (! (>= %s 0) :pattern (%s)))" % (b, reg.l_len(inner).s, inner.s), "Bool"))
            el2 = reg.lst_elem[el]
            if reg.is_lst(el2):
                b2 = "wf%d" % next(self.bound)
                inner2 = T("(select (arr_%s %s) %s)" % (el, inner.s, b2), el2)
                st.assume(T("(forall ((%s Int) (%s Int)) (>= %s 0))" % (b, b2, reg.l_len(inner2).s), "Bool"))

    def wrap(self, term):
        """SMT term -> symbolic value (list terms become views: immutable snapshots)"""
        if term.sort in ("Int", "Real"):
            return Num(term)
        if term.sort == "Bool":
            return Bool(term)
        if self.reg.is_lst(term.sort):
            return self.lst_view(term)
        return Opaque(term)

    def lst_view(self, t):
        reg = self.reg
        v = View(reg.l_len(t), lambda i, t=t: self.wrap(reg.l_get(t, i)))
        v.term = t
        return v

    # ------------------------------------------------------------------ reading / writing through references
    def cell_root(self, st, ref):
        return st.heap[ref.cid]

    def deref(self, st, ref):
        """value stored at a reference: for list cells a term (root or nested), else the cell"""
        cell = st.heap[ref.cid]
        if isinstance(cell, LstCell):
            t = cell.term
            for p in ref.path:
                t = self.reg.l_get(t, p)
            return t
        if isinstance(cell, ValCell):
            t = cell.term
            for p in ref.path:
                if isinstance(p, Seg):
                    from .dicts import seg_get
                    t = seg_get(self, t, p)
                    continue
                t = T("(vget %s %s)" % (t.s, p.s), "Val")
            return t
        if type(cell).__name__ == "KeyMapCell" and ref.path:
            from .keymap import km_deref
            return km_deref(self, st, ref)
        assert not ref.path
        return cell

    def store(self, st, ref, newterm):
        """write a new term at a (possibly nested) list / Val position"""
        cell = st.heap[ref.cid]
        if ref.cid in st.notes.get("embedded_lists", ()):
            # (lib_acc2.list_value: the list was stored into a context BY VALUE; a later change would not be seen there)
            raise Unsupported("change of a python list after it was stored into a context dictionary (snapshot)")
        if ref.cid in st.notes.get("unknown_alias", ()):
            if not (self.c is not None and self.c.ghost.get("alias_store") and isinstance(cell, ValCell)
                    and ref.cid in st.notes.get("alias_epoch", {})):
                raise Unsupported("store through a name that a loop re-binds (the object it refers to is not known there)")
            # opt-in (Contract(ghost={"alias_store": True})): the name may refer to ANY dictionary object that existed at
            # the loop head: the store is done on the name's own (unknown) object and every such object gets unknown
            # content (it may be the one that changed); they must be listed in `modifies`
            ep = st.notes["alias_epoch"][ref.cid]
            for cid2, c2 in list(st.heap.items()):
                if cid2 != ref.cid and isinstance(c2, ValCell) and int(cid2[1:]) <= ep:
                    st.heap[cid2] = ValCell(self.reg.new("mayalias", "Val"))
        elif isinstance(cell, ValCell) and st.notes.get("alias_epoch"):
            # ... and conversely: a store into an object that a loop-rebound name may refer to
            for cid2, ep in st.notes["alias_epoch"].items():
                if cid2 != ref.cid and cid2 in st.heap and int(ref.cid[1:]) <= ep:
                    st.heap[cid2] = ValCell(self.reg.new("mayalias", "Val"))
        if isinstance(cell, ValCell) and not ref.path and ref.cid in st.notes.get("iterating", ()) \
                and not getattr(self, "_iter_store_ok", False):
            # only the VALUE of an existing key may be replaced while `for key in d` runs (see dicts.for_dict)
            raise Unsupported("structural change of a dictionary while a loop iterates it")
        if isinstance(cell, LstCell):
            st.heap[ref.cid] = LstCell(self._store_path(cell.term, ref.path, newterm))
        elif isinstance(cell, ValCell):
            dobj = self.c is not None and self.c.ghost.get("dict_objects")
            if dobj:
                from . import dictobj      # dictionaries as objects with tracked aliases (opt-in, see pyvc/dictobj.py)
                dictobj.check_store(self, st, ref)
            st.heap[ref.cid] = ValCell(self._vstore_path(cell.term, ref.path, newterm))
            if dobj:
                dictobj.after_store(self, st, ref.cid)
        elif type(cell).__name__ == "KeyMapCell":
            from .keymap import km_store
            km_store(self, st, ref, newterm)
        else:
            raise Unsupported("store into " + type(cell).__name__)

    def _store_path(self, root, path, new):
        if not path:
            return new
        inner = self.reg.l_get(root, path[0])
        return self.reg.l_set(root, path[0], self._store_path(inner, path[1:], new))

    def _vstore_path(self, root, path, new):
        if not path:
            return new
        if isinstance(path[0], Seg):
            from .dicts import seg_get, seg_set
            return seg_set(self, root, path[0], self._vstore_path(seg_get(self, root, path[0]), path[1:], new))
        inner = T("(vget %s %s)" % (root.s, path[0].s), "Val")
        sub = self._vstore_path(inner, path[1:], new)
        return T("(D (store (dm %s) %s (some %s)))" % (root.s, path[0].s, sub.s), "Val")

    def as_view(self, st, v):
        """any sequence-like value -> View (snapshot)"""
        if isinstance(v, View):
            return v
        if isinstance(v, Tup):
            return self.items_view(v.items)
        if isinstance(v, Ref):
            cell = st.heap[v.cid]
            if isinstance(cell, LstCell):
                return self.lst_view(self.deref(st, v))
            if isinstance(cell, PyListCell):
                return self.items_view(cell.items)
            if type(cell).__name__ == "StructLstCell":      # ghost `out` of a generator yielding tuples (histlib)
                from .histlib import struct_view
                return struct_view(self, cell)
        if isinstance(v, Str):
            return self.items_view([Str(ch) for ch in v.s])
        raise Unsupported("not a sequence: %r" % (v,))

    def items_view(self, items):
        items = list(items)

        def get(i, items=items):
            k = lit_int(i)
            if k is not None:
                return items[k]
            return self.select_items(items, i)
        return View(I(len(items)), get, items=items)

    def select_items(self, items, i):
        """items[i] for a symbolic index into a concrete-length list: ite chain (same-kind items only)"""
        if not items:
            raise Unsupported("index into empty concrete list")
        res = items[-1]
        for k in range(len(items) - 2, -1, -1):
            res = self.ite_sv(EQ(i, I(k)), items[k], res)
        return res

    def ite_sv(self, c, a, b):
        if c.s == "true":
            return a
        if c.s == "false":
            return b
        if isinstance(a, Num) and isinstance(b, Num):
            x, y, _ = num2(a.t, b.t)
            return Num(ITE(c, x, y))
        if isinstance(a, Bool) and isinstance(b, Bool):
            return Bool(ITE(c, a.t, b.t))
        if isinstance(a, Opaque) and isinstance(b, Opaque) and a.sort == b.sort:
            return Opaque(ITE(c, a.t, b.t))
        if isinstance(a, Tup) and isinstance(b, Tup) and len(a.items) == len(b.items):
            return Tup([self.ite_sv(c, x, y) for x, y in zip(a.items, b.items)])
        if isinstance(a, NoneV) and isinstance(b, NoneV):
            return NONE
        if isinstance(a, View) and isinstance(b, View):
            ta, tb = getattr(a, "term", None), getattr(b, "term", None)
            if ta is not None and tb is not None and ta.sort == tb.sort:
                return self.lst_view(ITE(c, ta, tb))
            return View(ITE(c, a.len, b.len), lambda i: self.ite_sv(c, a.get(i), b.get(i)))
        if isinstance(a, Str) and isinstance(b, Str) and a.s == b.s:
            return a
        if isinstance(a, Ref) and isinstance(b, Ref) and a.cid == b.cid and a.path == b.path:
            return a
        raise Unsupported("cannot merge %r / %r" % (a, b))

    # ------------------------------------------------------------------ truthiness, equality, ordering
    def truth(self, st, v):
        if isinstance(v, Bool):
            return v.t
        if isinstance(v, Num):
            if v.sort == "Int" and lit_int(v.t) is not None and self.c is not None and self.c.ghost.get("fold_literals"):
                # Contract(ghost={"fold_literals": True}): the truth value of an integer literal (len() of a list display)
                # is decided here, so that the branch python never takes is not explored
                return TRUE if lit_int(v.t) != 0 else FALSE
            return NOT(EQ(v.t, I(0) if v.sort == "Int" else R(0)))
        if isinstance(v, NoneV):
            return FALSE
        if isinstance(v, Str):
            return TRUE if v.s else FALSE
        if isinstance(v, Tup):
            return TRUE if v.items else FALSE
        if isinstance(v, View):
            return CMP(">", v.len, I(0))
        if isinstance(v, (Fun, Module, Sentinel, ExcV)):
            return TRUE
        if isinstance(v, Opaque):
            if v.sort == "Val":
                return T("(vtruthy %s)" % v.t.s, "Bool")
            if v.sort == "Key":
                return NOT(EQ(v.t, self.reg.key("")))
            if v.sort == "V":
                f = self.reg.ufun("v_truthy", ["V"], "Bool")
                return T("(%s %s)" % (f, v.t.s), "Bool")
            if v.sort == "Obj":
                # user objects: truthiness is their own business; abstract predicate
                f = self.reg.ufun("obj_truthy", ["Obj"], "Bool")
                return T("(%s %s)" % (f, v.t.s), "Bool")
            from .iet import truth as iet_truth          # sets of strings / trees as values (pyvc/iet.py)
            r = iet_truth(self, st, v)
            if r is not None:
                return r
            raise Unsupported("truth of opaque " + v.sort)
        if isinstance(v, Ref):
            cell = st.heap[v.cid]
            if isinstance(cell, LstCell):
                return CMP(">", self.reg.l_len(self.deref(st, v)), I(0))
            if isinstance(cell, PyListCell):
                return TRUE if cell.items else FALSE
            if isinstance(cell, ValCell):
                return T("(vtruthy %s)" % self.deref(st, v).s, "Bool")
            if isinstance(cell, PyDictCell):
                return TRUE if cell.items else FALSE
            if isinstance(cell, ObjCell):
                # an instance is true unless its class says otherwise: __bool__ / __len__ (python data model)
                m = self.truth_method(cell.cls)
                if m is None:
                    return TRUE
                k = self.contracts.find_method(cell.cls, m)
                if k is None:
                    raise Unsupported("truth of an instance of %s, whose class defines %s (no contract for it)" % (cell.cls, m))
                from .calls import apply_contract
                outs = apply_contract(self, st, k, [v], {})
                if len(outs) != 1 or outs[0][0] is not st:
                    raise Unsupported("truth of an instance of %s: %s forks" % (cell.cls, m))
                return self.truth(st, outs[0][1])
            if isinstance(cell, IterCell):
                return TRUE
        raise Unsupported("truth of %r" % (v,))

    def truth_method(self, cls):
        """name of the method that decides the truth value of instances of the class (ClassSpec name): `__bool__`, else
        `__len__`, searched in the class statement of the real class and of the bases the ClassSpecs declare; None when
        there is none (file-like ghost objects and classes without a ClassSpec: none)"""
        import ast as _ast
        seen, todo = set(), [cls]
        found = None
        while todo:
            k = todo.pop(0)
            if k in seen:
                continue
            seen.add(k)
            cs = self.contracts.classes.get(k)
            if cs is None:
                continue
            real = cs.alias_of or k
            if real != k:
                todo.append(real)
            todo += list(cs.bases)
            try:
                tree = self.world.modctx(cs.file).tree
            except Exception:
                continue
            for n in _ast.walk(tree):
                if isinstance(n, _ast.ClassDef) and n.name == real:
                    for b in n.body:
                        if isinstance(b, _ast.FunctionDef) and b.name == "__bool__":
                            return "__bool__"
                        if isinstance(b, _ast.FunctionDef) and b.name == "__len__":
                            found = found or "__len__"
                    for b in n.bases:
                        bn = b.attr if isinstance(b, _ast.Attribute) else b.id if isinstance(b, _ast.Name) else None
                        if bn and bn in self.contracts.classes:
                            todo.append(bn)
        return found

    def py_eq(self, st, a, b):
        """python `==` as a Bool term"""
        if isinstance(a, Padded) or isinstance(b, Padded):
            # an item of a zip_longest row: a flow value or the fill value None (flow values are never None here)
            if isinstance(b, Padded) and not isinstance(a, Padded):
                a, b = b, a
            if isinstance(b, NoneV):
                return NOT(a.present)
            if isinstance(b, Opaque) and b.sort == "V":
                return AND(a.present, EQ(a.t, b.t))
            if isinstance(b, Padded):
                return AND(EQ(a.present, b.present), IMP(a.present, EQ(a.t, b.t)))
            raise Unsupported("== between %r and %r" % (a, b))
        if isinstance(a, Num) and isinstance(b, Num):
            if getattr(a, "exact", False) or getattr(b, "exact", False) or getattr(self, "concrete_while", 0) \
                    or (self.c is not None and self.c.ghost.get("fold_literals")):
                # the size of a set of concrete strings (lib_split) against a literal: decided here (no infeasible fork)
                # (also inside a while loop that runs on concrete values, stmts.while_concrete)
                la, lb = lit_int(a.t), lit_int(b.t)
                if la is not None and lb is not None:
                    return TRUE if la == lb else FALSE
            return EQ(a.t, b.t)
        if isinstance(a, Bool) and isinstance(b, Bool):
            return EQ(a.t, b.t)
        if isinstance(a, Bool) and isinstance(b, Num):
            return EQ(ITE(a.t, I(1), I(0)), b.t)
        if isinstance(a, Num) and isinstance(b, Bool):
            return self.py_eq(st, b, a)
        if isinstance(a, NoneV) or isinstance(b, NoneV):
            if isinstance(a, NoneV) and isinstance(b, NoneV):
                return TRUE
            o = b if isinstance(a, NoneV) else a
            if isinstance(o, Opaque) and o.sort == "Val":
                raise Unsupported("None == Val")
            return FALSE
        if isinstance(a, Str) and isinstance(b, Str):
            return TRUE if a.s == b.s else FALSE
        if isinstance(a, Str) and isinstance(b, Opaque) and b.sort == "Key":
            return EQ(self.reg.key(a.s), b.t)
        if isinstance(b, Str) and isinstance(a, Opaque) and a.sort == "Key":
            return EQ(a.t, self.reg.key(b.s))
        if isinstance(a, Opaque) and isinstance(b, Opaque) and a.sort == b.sort:
            return EQ(a.t, b.t)
        if isinstance(a, Sentinel) or isinstance(b, Sentinel):
            return TRUE if (isinstance(a, Sentinel) and isinstance(b, Sentinel) and a.name == b.name) else FALSE
        if isinstance(a, Tup) and isinstance(b, Tup):
            if len(a.items) != len(b.items):
                return FALSE
            return AND(*[self.py_eq(st, x, y) for x, y in zip(a.items, b.items)])
        if isinstance(a, Fun) and isinstance(b, Fun):
            if a.kind == b.kind == "builtin":
                return TRUE if a.name == b.name else FALSE
            if a.kind == "builtin" or b.kind == "builtin":
                return FALSE
        sa, sb = self.is_seq(st, a), self.is_seq(st, b)
        if sa and sb:
            if self.kind_of_seq(st, a) != self.kind_of_seq(st, b):
                return FALSE
            va, vb = self.as_view(st, a), self.as_view(st, b)
            if va.items is not None and vb.items is not None:
                if len(va.items) != len(vb.items):
                    return FALSE
                return AND(*[self.py_eq(st, x, y) for x, y in zip(va.items, vb.items)])
            k = T("q%d" % next(self.bound), "Int")
            body = self.py_eq(st, va.get(k), vb.get(k))
            return AND(EQ(va.len, vb.len),
                       T("(forall ((%s Int)) (=> (and (<= 0 %s) (< %s %s)) %s))" % (k.s, k.s, k.s, va.len.s, body.s), "Bool"))
        def dictlike(x):
            return (isinstance(x, Ref) and isinstance(st.heap[x.cid], (ValCell, PyDictCell))) or \
                   (isinstance(x, Opaque) and x.sort == "Val")
        if dictlike(a) and dictlike(b):
            from .dicts import dterm
            return EQ(dterm(self, st, a), dterm(self, st, b))
        if dictlike(a) and isinstance(b, (Str, Bool, Num)) or dictlike(b) and isinstance(a, (Str, Bool, Num)) \
                or dictlike(a) and isinstance(b, Opaque) and b.sort == "Key" or dictlike(b) and isinstance(a, Opaque) and a.sort == "Key":
            # an item of a context compared with a scalar: scalars are embedded into Val (dicts.scalar)
            from .dicts import dterm
            return EQ(dterm(self, st, a), dterm(self, st, b))
        if isinstance(a, Opaque) and a.sort == "V" and (isinstance(b, Str) or isinstance(b, Opaque) and b.sort in ("Key", "Val")
                                                         or dictlike(b)):
            return self.v_eq(st, a, b)
        if isinstance(b, Opaque) and b.sort == "V" and (isinstance(a, Str) or isinstance(a, Opaque) and a.sort in ("Key", "Val")
                                                         or dictlike(a)):
            return self.v_eq(st, b, a)
        if isinstance(a, Ref) and isinstance(b, Ref):
            ca, cb = st.heap[a.cid], st.heap[b.cid]
            if isinstance(ca, ValCell) and isinstance(cb, ValCell):
                return EQ(self.deref(st, a), self.deref(st, b))
            if isinstance(ca, ObjCell) and isinstance(cb, ObjCell):
                r = self.obj_eq(st, a, b)          # a class that defines __eq__: through the contract of that method
                if r is not None:
                    return r
                return TRUE if a.cid == b.cid else FALSE
        if isinstance(a, Ref) and isinstance(st.heap[a.cid], ValCell) and isinstance(b, Opaque) and b.sort == "Val":
            return EQ(self.deref(st, a), b.t)
        if isinstance(b, Ref) and isinstance(st.heap[b.cid], ValCell) and isinstance(a, Opaque) and a.sort == "Val":
            return EQ(a.t, self.deref(st, b))
        for x, y in ((a, b), (b, a)):
            if isinstance(x, Opaque) and x.sort == "Obj" and isinstance(y, Fun) and y.kind == "builtin":
                # an abstract object compared with a python builtin (`container == tuple`): it may be that very builtin
                f = self.reg.ufun("obj_is_builtin_%s" % y.name, ["Obj"], "Bool")
                return T("(%s %s)" % (f, x.t.s), "Bool")
        def stringy(x):
            return isinstance(x, Str) or (isinstance(x, Opaque) and x.sort == "Key")
        if (stringy(a) and isinstance(b, (Num, Bool))) or (stringy(b) and isinstance(a, (Num, Bool))):
            return FALSE          # a string never equals a number
        if (stringy(a) and (isinstance(b, Tup) or sb)) or (stringy(b) and (isinstance(a, Tup) or sa)):
            return FALSE          # a string never equals a tuple / a list
        raise Unsupported("== between %r and %r" % (a, b))

    def obj_eq(self, st, a, b):
        """`a == b` for two instances of repository classes when the class of `a` has a contract for `__eq__` (python calls
        type(a).__eq__(a, b)): the (pure, non-forking) contract is applied and its Bool result is the comparison.  None
        when there is no such contract (identity, as before).  A result that is not a truth value (NotImplemented: python
        would go on with the reflected comparison) and instances of two different classes are out of the subset."""
        ca, cb = st.heap[a.cid], st.heap[b.cid]
        k = self.contracts.find_method(ca.cls, "__eq__")
        if k is None:
            return None
        def real(c):
            cs = self.contracts.classes.get(c)
            return (cs.alias_of or c) if cs is not None else c
        if real(ca.cls) != real(cb.cls):
            raise Unsupported("== between instances of %s and %s (%s defines __eq__)" % (ca.cls, cb.cls, ca.cls))
        from .calls import apply_contract
        outs = apply_contract(self, st, k, [a, b], {})
        if len(outs) != 1 or outs[0][0] is not st:
            raise Unsupported("== between instances of %s: __eq__ forks" % ca.cls)
        res = outs[0][1]
        if not isinstance(res, Bool):
            raise Unsupported("== between instances of %s: the contract of __eq__ does not give a Bool result" % ca.cls)
        return res.t

    def v_eq(self, st, v, other):
        """a flow value (sort V) compared with a string or a context item: through the embedding of V into Val"""
        from .dicts import dterm
        self.reg.need_val()
        f = self.reg.ufun("v_as_val", ["V"], "Val")
        return EQ(T("(%s %s)" % (f, v.t.s), "Val"), dterm(self, st, other))

    def is_seq(self, st, v):
        if isinstance(v, (View, Tup)):
            return True
        if isinstance(v, Ref):
            return isinstance(st.heap[v.cid], (LstCell, PyListCell))
        return False

    def kind_of_seq(self, st, v):
        if isinstance(v, Tup):
            return "tuple"
        if isinstance(v, View):
            return getattr(v, "pykind", "list")
        return "list"

    def py_is(self, st, a, b):
        if isinstance(a, Padded) or isinstance(b, Padded):
            o, p = (b, a) if isinstance(a, Padded) else (a, b)
            if isinstance(o, NoneV):
                return NOT(p.present)          # `x is None` for an item of a zip_longest row
            raise Unsupported("`is` between %r and %r" % (a, b))
        if a is b:
            return TRUE
        if isinstance(a, Tup) or isinstance(b, Tup):
            return FALSE          # a tuple built by a display is a new object: identical only to itself
        for x, y in ((a, b), (b, a)):
            if isinstance(y, NoneV) and isinstance(x, Opaque) and x.sort == "Val":
                # `<context value> is None`: a context item may well be None (the scalar None of the encoding)
                from .dicts import scalar
                return EQ(x.t, scalar(self, st, y))
        if isinstance(a, NoneV) or isinstance(b, NoneV):
            return TRUE if (isinstance(a, NoneV) and isinstance(b, NoneV)) else FALSE
        for x, y in ((a, b), (b, a)):
            if isinstance(x, Sentinel) and x.name.startswith("anon") and isinstance(y, Opaque) and y.sort == "Val":
                # a LOCAL sentinel (`_s = object()`) that was handed to a callee as a context value (dicts.scalar): it
                # is that one scalar; a context value `is` the sentinel iff it equals it
                from .dicts import scalar
                return EQ(y.t, scalar(self, st, x))
        if isinstance(a, Sentinel) or isinstance(b, Sentinel):
            return TRUE if (isinstance(a, Sentinel) and isinstance(b, Sentinel) and a.name == b.name) else FALSE
        if isinstance(a, Ref) and isinstance(b, Ref) and a.cid != b.cid and (len(a.path) == 1) != (len(b.path) == 1) \
                and not (a.path and b.path) and isinstance(st.heap.get(a.cid), ValCell) and isinstance(st.heap.get(b.cid), ValCell) \
                and not any(isinstance(p, Seg) for p in a.path + b.path):
            # `d[k] is x`: the item of one dictionary object and another dictionary object.  With dictionaries as objects
            # (pyvc/dictobj.py) the links tell; otherwise the engine does not track which object an item is
            item, obj = (a, b) if a.path else (b, a)
            if self.c is not None and self.c.ghost.get("dict_objects"):
                from . import dictobj
                live = any(c == obj.cid and p == item.cid and key.s == item.path[0].s and status == "live"
                           for c, p, key, status in dictobj.get(st).links)
                return TRUE if live else FALSE
            raise Unsupported("`is` between a dictionary item and a dictionary object (identity of items is not tracked here)")
        if isinstance(a, Ref) and isinstance(b, Ref):
            if a.cid == b.cid and a.path != b.path and any(isinstance(p, Seg) for p in a.path + b.path):
                from .dicts import same_ref
                r = same_ref(self, st, a, b)
                if r is None:
                    raise Unsupported("`is` between references at symbolic key paths")
                return r
            return TRUE if (a.cid == b.cid and a.path == b.path) else FALSE
        if isinstance(a, Opaque) and isinstance(b, Opaque) and a.sort == b.sort and a.sort in ("Obj", "V"):
            return EQ(a.t, b.t)      # identity of abstract objects = equality of their denotation ids
        if isinstance(a, Bool) and isinstance(b, Bool):
            return EQ(a.t, b.t)
        if ((isinstance(a, Num) and isinstance(b, Bool)) or (isinstance(a, Bool) and isinstance(b, Num))) \
                and self.c is not None and self.c.ghost.get("numbers_are_not_bools"):
            # opt-in typing assumption of the case: its Int / Real values are ints and floats, none of them is the object
            # True / False (`scale is True` for a number)
            return FALSE
        if any(isinstance(x, Fun) and x.kind == "opaque-callable" for x in (a, b)):
            raise Unsupported("`is` with a callable nothing is known about (OpaqueFn)")
        if isinstance(a, Fun) and isinstance(b, Fun):
            if a.kind != b.kind:
                return FALSE
            if a.kind == "builtin":
                return TRUE if a.name == b.name else FALSE
            if a.kind == "elem-method":
                from .builtins_ import method_key
                return AND(EQ(a.elem.t, b.elem.t), EQ(method_key(self, a), method_key(self, b)))
            if a.kind == "bound":
                return TRUE if (a.contract is b.contract and a.self_ref.cid == b.self_ref.cid) else FALSE
            if a.kind in ("lambda", "def"):
                return TRUE if a.node is b.node else FALSE
            if a.kind == "contract":
                return TRUE if a.contract is b.contract else FALSE
            if a.kind == "lib" and a.name == b.name and getattr(a, "mod", None) == getattr(b, "mod", None) \
                    and getattr(a, "impl", None) is getattr(b, "impl", 0):
                return TRUE          # the same library function under the same name (anything else: not decided here)
        for x, y in ((a, b), (b, a)):
            if isinstance(x, Opaque) and x.sort == "Val" and isinstance(y, Bool) and y.t.s in ("true", "false"):
                # `<context value> is False / True`: an abstract predicate that implies == with the constant
                from .dicts import val_is_const
                self.assumptions.add("context values: `x is False` / `x is True` is a predicate of the ==-class of x (scalars "
                                     "that compare equal, such as False and 0, are one context value in the encoding)")
                return val_is_const(self, x.t, y.t.s == "true")
        if any(isinstance(x, Opaque) and x.sort == "Unk" for x in (a, b)) and any(isinstance(x, (Fun, Ref)) for x in (a, b)):
            # a havocked field no class spec declares (calls.do_havoc: `a value nothing is known about`) may hold any
            # object, also this function / heap object: the identity is not decided here
            raise Unsupported("`is` between a value nothing is known about and %r" % (b if isinstance(a, Opaque) else a,))
        for x, y in ((a, b), (b, a)):
            if isinstance(x, Fun) and x.kind == "elem-method" and isinstance(y, (Ref, Opaque)) \
                    and (isinstance(y, Ref) or y.sort == "Obj"):
                # `el.<name>` of an ABSTRACT element read as a bound method (no obj_attrs declaration): the element may be
                # the abstraction of an adapter whose attribute <name> holds this very object (callee: a Run instance in
                # a list typed Lst[Obj], `d._el is arg` proved on the instance) -- the identity is not decided here
                raise Unsupported("`is` between an undeclared attribute of an abstract element and an object")
        if isinstance(a, (Fun, Ref, Opaque, Num, Bool, Str, Tup)) and isinstance(b, (Fun, Ref, Opaque, Num, Bool, Str, Tup)) \
                and type(a) is not type(b) and (isinstance(a, (Fun, Ref)) or isinstance(b, (Fun, Ref))):
            return FALSE      # a function / heap object is never identical to a value of another kind
        raise Unsupported("`is` between %r and %r" % (a, b))

    def num(self, v):
        if isinstance(v, Num):
            return v.t
        if isinstance(v, Bool):
            return ITE(v.t, I(1), I(0))
        raise Unsupported("number expected, got %r" % (v,))

    # ------------------------------------------------------------------ expression evaluation
    def ev1(self, e, st):
        """evaluate an expression that must not fork (spec expressions, simple code)"""
        res = self.ev(e, st)
        if len(res) != 1:
            raise Unsupported("expression forks in a non-forking context: " + ast.dump(e)[:80])
        return res[0][1]

    def ev_many(self, exprs, st):
        outs = [(st, [])]
        for e in exprs:
            nxt = []
            for s, vals in outs:
                for s2, v in self.ev(e, s):
                    nxt.append((s2, vals + [v]))
            outs = nxt
        return outs

    def ev(self, e, st):
        m = getattr(self, "ev_" + type(e).__name__, None)
        if m is None:
            raise Unsupported("expression " + type(e).__name__)
        return m(e, st)

    def ev_Constant(self, e, st):
        v = e.value
        if isinstance(v, bool):
            return [(st, Bool(TRUE if v else FALSE))]
        if isinstance(v, int):
            return [(st, Num(I(v)))]
        if isinstance(v, float):
            return [(st, Num(R(v)))]
        if v is None:
            return [(st, NONE)]
        if isinstance(v, str):
            return [(st, Str(v))]
        raise Unsupported("constant %r" % (v,))

    def ev_Name(self, e, st):
        return [(st, self.lookup(e.id, st))]

    def lookup(self, name, st):
        if name == "out" and self.spec_mode and st.notes.get("out_untracked"):
            # the values yielded by earlier iterations of a cut loop of a yields="Any" generator are not tracked
            raise Unsupported("`out` after a loop of a generator with heterogeneous yields: state the clause per yield "
                              "(at_yield / yield_count())")
        if name in st.env:
            return st.env[name]
        if self.spec_mode and name in self.contracts.spec_names:
            return Fun("spec", name=name)
        v = self.mod.resolve(name, self) if self.mod else None
        if v is not None:
            return v
        if name == "NotImplemented":
            # the builtin singleton (returned by rich comparisons for a foreign operand): only its identity matters
            return Sentinel("builtins.NotImplemented")
        if name in BUILTINS:
            return Fun("builtin", name=name)
        if name in BUILTIN_EXC or self.world.is_exc(name):
            return Fun("exc", name=name)
        # an unbound global: Python raises NameError when this is executed
        if self.spec_mode:
            raise Unsupported("unbound name in spec: " + name)
        return Fun("unbound", name=name)

    def ev_Tuple(self, e, st):
        return [(s, Tup(vals)) for s, vals in self.ev_many(e.elts, st)]

    def ev_List(self, e, st):
        out = []
        for s, vals in self.ev_many(e.elts, st):
            out.append((s, self.new_cell(s, PyListCell(vals))))
        return out

    def ev_Dict(self, e, st):
        out = []
        if not e.keys and self.c is not None and self.c.dict_model == "Val":
            self.reg.need_val()
            r = self.new_cell(st, ValCell(T("(D emptymap)", "Val")))
            # a new empty dictionary shares nothing with anything: trivially a deep copy (stores into it are tracked)
            st.notes["deep_copies"] = set(st.notes.get("deep_copies", ())) | {r.cid}
            return [(st, r)]
        for s, vals in self.ev_many(list(e.keys) + list(e.values), st):
            n = len(e.keys)
            keys, values = vals[:n], vals[n:]
            if self.c is not None and self.c.ghost.get("dict_objects") and not self.spec_mode:
                # dictionaries as objects (pyvc/dictobj.py): a display is a new dictionary object that receives its items
                # one after the other (dictionary / list objects among them are linked, not copied)
                from .dicts import val_store
                self.reg.need_val()
                r = self.new_cell(s, ValCell(T("(D emptymap)", "Val")))
                for k, v in zip(keys, values):
                    val_store(self, s, r, k, v)
                out.append((s, r))
                continue
            if not all(isinstance(k, Str) for k in keys):
                # a display with computed keys: a dictionary value
                from .dicts import dterm
                self.reg.need_val()
                m = "emptymap"
                for k, v in zip(keys, values):
                    m = "(store %s %s (some %s))" % (m, self.key_term(k).s, dterm(self, s, v).s)
                out.append((s, self.new_cell(s, ValCell(T("(D %s)" % m, "Val")))))
                continue
            out.append((s, self.new_cell(s, PyDictCell({k.s: v for k, v in zip(keys, values)}))))
        return out

    def ev_UnaryOp(self, e, st):
        out = []
        for s, v in self.ev(e.operand, st):
            if isinstance(e.op, ast.Not):
                out.append((s, Bool(NOT(self.truth(s, v)))))
            elif isinstance(e.op, ast.USub):
                out.append((s, Num(NEG(self.num(v)))))
            elif isinstance(e.op, ast.UAdd):
                out.append((s, Num(self.num(v))))
            else:
                raise Unsupported("unary op")
        return out

    def ev_BoolOp(self, e, st):
        """short circuit: values are evaluated lazily; pure operands are merged with ite, others fork"""
        is_and = isinstance(e.op, ast.And)
        results = []

        def go(idx, s):
            for s2, v in self.ev(e.values[idx], s):
                if idx == len(e.values) - 1:
                    results.append((s2, v))
                    continue
                c = self.truth(s2, v)
                if c.s in ("true", "false"):
                    cont = (c.s == "true") if is_and else (c.s == "false")
                    if cont:
                        go(idx + 1, s2)
                    else:
                        results.append((s2, v))
                    continue
                # try pure merge: evaluate the rest under the assumption, without forking
                cont_cond = c if is_and else NOT(c)
                s3 = s2.fork(cont_cond, "")
                n_pc3 = len(s3.pc)
                n_before = len(self._exc_out)
                n_vcs = len(self.vcs)
                try:
                    sub = self.ev_rest(e, idx + 1, s3)
                except Unsupported:
                    raise
                if len(sub) == 1 and len(self._exc_out) == n_before and sub[0][0].heap == s2.heap and sub[0][0].env == s2.env:
                    rv = sub[0][1]
                    rt = self.truth(sub[0][0], rv)
                    # the boolean value of the whole thing (callers of and/or in this code base use truthiness only,
                    # or the operands are booleans)
                    if isinstance(v, Bool) and isinstance(rv, Bool):
                        val = Bool(AND(c, rt) if is_and else OR(c, rt))
                    elif isinstance(v, Num) and isinstance(rv, Num):
                        # `a or b` / `a and b` of numbers IS one of the operands (not its truth value)
                        val = self.ite_sv(c, rv, v) if is_and else self.ite_sv(c, v, rv)
                    else:
                        val = Bool(AND(c, rt) if is_and else OR(c, rt))
                        val.approx_truth_only = True
                    # keep VCs emitted under the assumption (their hyps include cont_cond)
                    # facts learnt while the rest was evaluated (postconditions of callees) hold whenever it IS evaluated
                    for h in sub[0][0].pc[n_pc3:]:
                        s2.assume(IMP(cont_cond, h))
                    results.append((s2, val))
                else:
                    for s4, v4 in sub:
                        s4.trace += "c."
                        results.append((s4, v4))
                    stop = s2.fork(NOT(cont_cond), "s.")
                    results.append((stop, v))
        go(0, st)
        return results

    def ev_rest(self, e, idx, st):
        if idx == len(e.values) - 1:
            return self.ev(e.values[idx], st)
        sub = ast.BoolOp(op=e.op, values=e.values[idx:])
        return self.ev_BoolOp(sub, st)

    def ev_BinOp(self, e, st):
        out = []
        for s, (a, b) in self.ev_many([e.left, e.right], st):
            out += self.binop(e.op, a, b, s)
        return out

    def binop(self, op, a, b, s):
        if not self.spec_mode and (getattr(a, "decimal", False) or getattr(b, "decimal", False)):
            raise Unsupported("operator arithmetic on a Decimal (rounds with the thread's decimal context: not modelled)")
        if isinstance(op, ast.Add) and (self.is_seq(s, a) or self.is_seq(s, b)):
            va, vb = self.as_view(s, a), self.as_view(s, b)
            if va.items is not None and vb.items is not None:
                items = va.items + vb.items
                if isinstance(a, Tup):
                    return [(s, Tup(items))]
                return [(s, self.new_cell(s, PyListCell(items)))]
            n = va.len
            v = View(ADD(va.len, vb.len), lambda i: self.ite_sv(CMP("<", i, n), va.get(i), vb.get(SUB(i, n))))
            return [(s, v)]
        if isinstance(op, ast.Mult) and self.is_seq(s, a) != self.is_seq(s, b):
            from .histlib import repeat_seq      # `[x] * n`
            return [(s, repeat_seq(self, s, a, b) if self.is_seq(s, a) else repeat_seq(self, s, b, a))]
        if isinstance(op, ast.Add) and isinstance(a, Str) and isinstance(b, Str):
            return [(s, Str(a.s + b.s))]
        if isinstance(op, ast.Add):
            def vlike(x):
                return (isinstance(x, Opaque) and x.sort == "Val") or (isinstance(x, Ref) and isinstance(s.heap.get(x.cid), ValCell))

            def slike(x):
                return isinstance(x, Str) or (isinstance(x, Opaque) and x.sort == "Key")
            if (vlike(a) and slike(b)) or (slike(a) and vlike(b)):
                # <context item> + <string>: concatenation, provided the item is a string (an obligation at this use)
                from .lib import str_operand
                a, b = str_operand(self, s, a, "+"), str_operand(self, s, b, "+")
        if isinstance(op, ast.Add) and (isinstance(a, Opaque) and a.sort == "Key" or isinstance(b, Opaque) and b.sort == "Key") \
                and isinstance(a, (Str, Opaque)) and isinstance(b, (Str, Opaque)):
            # string concatenation with a symbolic string: a function of both parts; appending a non-empty literal
            # gives a different string
            f = self.reg.ufun("kcat", ["Key", "Key"], "Key")
            ta, tb = self.key_term(a), self.key_term(b)
            r = T("(%s %s %s)" % (f, ta.s, tb.s), "Key")
            if isinstance(b, Str) and b.s:
                s.assume(NOT(EQ(r, ta)))
            if isinstance(a, Str) and a.s:
                s.assume(NOT(EQ(r, tb)))
            if self.c is not None and self.c.ghost.get("paths"):
                from .lib import kcat_facts      # contracts about file names: more facts of string concatenation
                kcat_facts(self, s, r, a, b, ta, tb)
            return [(s, Opaque(r))]
        if isinstance(op, ast.Mod) and isinstance(a, Str):
            return [(s, Opaque(self.reg.new("formatted", "Key")))]      # an unknown string
        x, y = self.num(a), self.num(b)
        if isinstance(op, ast.Add):
            return [(s, Num(ADD(x, y)))]
        if isinstance(op, ast.Sub):
            return [(s, Num(SUB(x, y)))]
        if isinstance(op, ast.Mult):
            return [(s, Num(MUL(x, y)))]
        if isinstance(op, ast.Div):
            return self.divide(s, x, y, "/")
        if isinstance(op, ast.FloorDiv):
            return self.divide(s, x, y, "//")
        if isinstance(op, ast.Mod):
            return self.divide(s, x, y, "%")
        if isinstance(op, ast.Pow):
            ly = lit_int(y)
            if ly is not None and 0 <= ly <= 4:
                r = I(1) if x.sort == "Int" else R(1)
                for _ in range(ly):
                    r = MUL(r, x)
                return [(s, Num(r))]
        raise Unsupported("binary op " + type(op).__name__)

    def divide(self, s, x, y, op):
        zero = EQ(y, I(0) if y.sort == "Int" else R(0))
        out = []
        if not self.spec_mode and zero.s != "false":
            if self.may_catch(s, "ZeroDivisionError"):
                z = s.fork(zero, "z.")
                self.raise_(z, "ZeroDivisionError")
                s = s.fork(NOT(zero), "")
            else:
                self.emit("safety", "div-by-zero", s, NOT(zero))
                s.assume(NOT(zero))
        if op == "/":
            res = T("(/ %s %s)" % (to_real(x).s, to_real(y).s), "Real")
        elif x.sort == "Int" and y.sort == "Int":
            # python floor semantics; SMT div/mod are euclidean: equal for positive divisor
            if op == "//":
                res = ITE(CMP(">", y, I(0)), T("(div %s %s)" % (x.s, y.s), "Int"),
                          NEG(T("(div %s %s)" % (x.s, NEG(y).s), "Int")) if False else T("(div %s %s)" % (NEG(x).s, NEG(y).s), "Int"))
            else:
                res = ITE(CMP(">", y, I(0)), T("(mod %s %s)" % (x.s, y.s), "Int"),
                          NEG(T("(mod %s %s)" % (NEG(x).s, NEG(y).s), "Int")))
        else:
            raise Unsupported("float // or %")
        out.append((s, Num(res)))
        return out

    def ev_Compare(self, e, st):
        outs = []
        for s, vals in self.ev_many([e.left] + list(e.comparators), st):
            parts = []
            for k, op in enumerate(e.ops):
                parts.append(self.compare(s, op, vals[k], vals[k + 1]))
            outs.append((s, Bool(AND(*parts))))
        return outs

    def compare(self, s, op, a, b):
        if isinstance(op, ast.Eq):
            return self.py_eq(s, a, b)
        if isinstance(op, ast.NotEq):
            return NOT(self.py_eq(s, a, b))
        if isinstance(op, ast.Is):
            return self.py_is(s, a, b)
        if isinstance(op, ast.IsNot):
            return NOT(self.py_is(s, a, b))
        if isinstance(op, (ast.In, ast.NotIn)):
            r = self.contains(s, a, b)
            return r if isinstance(op, ast.In) else NOT(r)
        o = {ast.Lt: "<", ast.LtE: "<=", ast.Gt: ">", ast.GtE: ">="}[type(op)]
        return CMP(o, self.num(a), self.num(b))

    def contains(self, s, a, b):
        if isinstance(b, Str) and isinstance(a, Str):
            return TRUE if a.s in b.s else FALSE
        if isinstance(b, Opaque) and b.sort == "Key" and (isinstance(a, Str) or (isinstance(a, Opaque) and a.sort == "Key")):
            # `sub in s` for a symbolic string s: a function of the two strings (substring test; uninterpreted, except
            # that the empty string is a substring of every string)
            f = self.reg.ufun("kcontains", ["Key", "Key"], "Bool")
            ax = T("(forall ((k Key)) (! (%s k %s) :pattern ((%s k %s))))" % (f, self.reg.key("").s, f, self.reg.key("").s), "Bool")
            if not any(x.s == ax.s for x in self.reg.axioms):
                self.reg.axioms.append(ax)
            return T("(%s %s %s)" % (f, b.t.s, self.key_term(a).s), "Bool")
        if isinstance(b, Ref):
            cell = s.heap[b.cid]
            if type(cell).__name__ == "ValSetCell":
                from .lib_acc2 import valset_contains          # a set of context values (pyvc/lib_acc2.py)
                return valset_contains(self, s, b, a)
            if type(cell).__name__ == "KeyMapCell" and not b.path:
                from .keymap import km_has
                return km_has(self, s, b, a)
            if isinstance(cell, ValCell):
                return self.val_has(s, self.deref(s, b), a)
            if isinstance(cell, PyDictCell):
                if isinstance(a, Str):
                    return TRUE if a.s in cell.items else FALSE
                raise Unsupported("symbolic key in concrete dict")
        if isinstance(b, Opaque) and b.sort == "Val":
            return self.val_has(s, b.t, a)
        if self.is_seq(s, b):
            vb = self.as_view(s, b)
            if vb.items is not None:
                if isinstance(a, Num) and lit_int(a.t) is not None and a.sort == "Int" \
                        and all(isinstance(x, Num) and x.sort == "Int" and lit_int(x.t) is not None for x in vb.items):
                    # an integer literal in a display of integer literals: decided here (no infeasible branch is explored)
                    return TRUE if any(lit_int(x.t) == lit_int(a.t) for x in vb.items) else FALSE
                return OR(*[self.py_eq(s, a, x) for x in vb.items])
            k = T("q%d" % next(self.bound), "Int")
            body = self.py_eq(s, a, vb.get(k))
            return T("(exists ((%s Int)) (and (<= 0 %s) (< %s %s) %s))" % (k.s, k.s, k.s, vb.len.s, body.s), "Bool")
        from .iet import contains as iet_contains          # sets of strings / dicts of trees as values (pyvc/iet.py)
        r = iet_contains(self, s, a, b)
        if r is not None:
            return r
        raise Unsupported("`in` on %r" % (b,))

    def key_term(self, k):
        if isinstance(k, Str):
            return self.reg.key(k.s)
        if isinstance(k, Opaque) and k.sort == "Key":
            return k.t
        raise Unsupported("dict key %r" % (k,))

    def val_has(self, s, dterm, k):
        # `k in d` raises TypeError if d is a scalar (not iterable; strings are not modelled as containers here)
        if not self.spec_mode:
            from .dicts import need_dict
            need_dict(self, s, dterm, "in")
        return T("(vhas %s %s)" % (dterm.s, self.key_term(k).s), "Bool")

    def ev_IfExp(self, e, st):
        out = []
        for s, c in self.ev(e.test, st):
            ct = self.truth(s, c)
            if ct.s == "true":
                out += self.ev(e.body, s)
                continue
            if ct.s == "false":
                out += self.ev(e.orelse, s)
                continue
            n_exc = len(self._exc_out)
            ta = self.ev(e.body, s.fork(ct, ""))
            tb = self.ev(e.orelse, s.fork(NOT(ct), ""))
            if len(ta) == 1 and len(tb) == 1 and len(self._exc_out) == n_exc and ta[0][0].heap == s.heap and tb[0][0].heap == s.heap:
                try:
                    out.append((s, self.ite_sv(ct, ta[0][1], tb[0][1])))
                    continue
                except Unsupported:
                    pass
            for s2, v in ta:
                s2.trace += "T."
                out.append((s2, v))
            for s2, v in tb:
                s2.trace += "F."
                out.append((s2, v))
        return out

    def ev_Lambda(self, e, st):
        return [(st, Fun("lambda", node=e, env=dict(st.env), defmod=self.mod))]     # (globals: those of the defining module)

    def ev_Attribute(self, e, st):
        out = []
        for s, v in self.ev(e.value, st):
            out += self.getattr_(s, v, e.attr)
        return out

    def is_property(self, k):
        """the method under contract k is decorated with the builtin `property` in the real source (decided on the AST)"""
        try:
            from .contracts import find_function
            node = find_function(self.world.modctx(k.file).tree, k.qual)
        except Exception:
            return False
        return any(isinstance(d, ast.Name) and d.id == "property" for d in getattr(node, "decorator_list", []))

    def getattr_(self, s, v, attr, default=None):
        if isinstance(v, Module):
            return [(s, self.world.module_attr(v.name, attr, self))]
        if isinstance(v, Ref):
            cell = s.heap[v.cid]
            if isinstance(cell, ObjCell) and cell.cls == "$file" and attr not in cell.fields:
                return [(s, Fun("method", recv=v, name=attr))]
            if isinstance(cell, ObjCell):
                if attr in cell.fields:
                    return [(s, cell.fields[attr])]
                # method of the class?
                k = self.contracts.find_method(cell.cls, attr)
                if k is not None:
                    if not self.spec_mode and self.is_property(k):
                        # `@property def attr(self)` in the real source: reading the attribute CALLS the method
                        from .calls import apply_contract
                        return apply_contract(self, s, k, [v], {})
                    return [(s, Fun("bound", contract=k, self_ref=v, name=attr))]
                cspec = self.contracts.classes.get(cell.cls)
                if cspec is not None and attr in cspec.class_attrs:
                    return [(s, self.const_sv(cspec.class_attrs[attr]))]
                if cspec is not None and not self.spec_mode and attr.startswith("_") and not attr.startswith("__"):
                    # a private method the class defines in its source but that has no contract (typically a helper a
                    # refactoring has extracted): executed in place from its real AST
                    from .calls import auto_inline_contract
                    real = cspec.alias_of or cell.cls
                    k = auto_inline_contract(self, cspec.file, "%s.%s" % (real, attr))
                    if k is not None:
                        return [(s, Fun("bound", contract=k, self_ref=v, name=attr))]
                if default is not None:
                    return [(s, default)]
                ga = self.contracts.find_method(cell.cls, "__getattr__") if not self.spec_mode else None
                if ga is not None:
                    # the class defines __getattr__ (under contract): python calls it for attributes not found otherwise
                    from .calls import apply_contract
                    return apply_contract(self, s, ga, [v, Str(attr)], {})
                if self.spec_mode:
                    raise Unsupported("spec reads unknown field %s.%s" % (cell.cls, attr))
                # attribute may be absent on this path: AttributeError
                if self.may_catch(s, "AttributeError"):
                    self.raise_(s, "AttributeError")
                    return []
                self.emit("safety", "attribute-%s-exists" % attr, s, FALSE)
                return []
            return [(s, Fun("method", recv=v, name=attr))]
        if isinstance(v, Opaque) and v.sort == "Obj":
            from .vmembers import obj_attr_read          # a declared data attribute of an abstract element (ghost obj_attrs)
            r = obj_attr_read(self, s, v, attr)
            if r is not None:
                return r
            if self.c is not None and self.c.ghost.get("attr_safety") and not self.spec_mode:
                # opt-in Contract(ghost={"attr_safety": True}) (contracts/P_core2.py: `no exception for any argument`):
                # reading an attribute of an abstract object raises AttributeError unless the object has it -- an obligation
                from .builtins_ import has_attr
                h = has_attr(self, s, v, attr)
                if not self.known(s, h):
                    if self.may_catch(s, "AttributeError"):
                        self.raise_(s.fork(NOT(h), "xAttr."), "AttributeError")
                    else:
                        self.emit("safety", "attribute-%s-exists" % attr, s, h)
                    s.assume(h)
            return [(s, Fun("elem-method", elem=v, name=attr))]
        if isinstance(v, Tup) and attr in getattr(v, "ntfields", ()):
            return [(s, v.items[v.ntfields.index(attr)])]          # field of a namedtuple instance
        if isinstance(v, Opaque) and v.sort == "Tree":
            from .iet import tree_attr          # an include / exclude tree as an immutable value (pyvc/iet.py)
            return tree_attr(self, s, v, attr)
        if isinstance(v, Opaque) and v.sort == "V":
            from .vmembers import attr_value          # a declared data attribute of an abstract flow value
            av = attr_value(self, v, attr)
            if av is not None:
                return [(s, av)]
        if isinstance(v, Opaque) and v.sort == "Unk":
            raise Unsupported("attribute .%s of a value nothing is known about (a havocked field no class spec declares)" % attr)
        if isinstance(v, (View, Tup, Str, Opaque)):
            return [(s, Fun("method", recv=v, name=attr))]
        if isinstance(v, Fun) and v.kind == "super":
            # super(C, self).<method>: the method as defined by the bases of C (ClassSpec.bases)
            cs = self.contracts.classes.get(v.cls)
            for b in (cs.bases if cs else []):
                k = self.contracts.find_method(b, attr)
                if k is not None:
                    return [(s, Fun("bound", contract=k, self_ref=v.self_ref, name=attr))]
            raise Unsupported("super(%s, self).%s: no contract in the bases" % (v.cls, attr))
        if isinstance(v, Fun) and v.kind == "builtin" and v.name == "object" and attr in ("__setattr__", "__getattribute__"):
            # object.__setattr__(obj, name, value) / object.__getattribute__(obj, name): the plain instance attribute
            # protocol, by-passing a __setattr__ / __getattr__ the class defines
            return [(s, Fun("builtin", name="object." + attr))]
        if isinstance(v, Fun) and v.kind == "class":
            k = self.contracts.find_method(v.name, attr)
            if k is not None and k.self_class == "static":
                return [(s, Fun("contract", contract=k))]          # Class.staticmethod
            return [(s, Fun("classattr", cls=v.name, name=attr))]
        if isinstance(v, Fun) and v.kind == "external" and v.mod == "sys" and v.name == "version_info" and attr == "major":
            return [(s, Num(I(3)))]      # python-2 branches are folded away (DESIGN 2.4 item 8)
        if isinstance(v, Fun) and v.kind == "external" and not v.mod.startswith("lena"):
            # a name inside a third-party module reached through an attribute (jinja2.exceptions.UndefinedError): still an
            # external name; what can be done with it is decided where it is used (call: no library contract -> refused;
            # except clause: stmts.handler_classes)
            lib = self.contracts.lib.get(("%s.%s" % (v.mod, v.name), attr))
            if lib is not None:
                return [(s, lib if not callable(lib) else Fun("lib", name=attr, mod="%s.%s" % (v.mod, v.name), impl=lib))]
            return [(s, Fun("external", name=attr, mod="%s.%s" % (v.mod, v.name)))]
        raise Unsupported("attribute %s of %r" % (attr, v))

    def const_sv(self, pyval):
        if isinstance(pyval, bool):
            return Bool(TRUE if pyval else FALSE)
        if isinstance(pyval, int):
            return Num(I(pyval))
        if isinstance(pyval, str):
            return Str(pyval)
        if pyval is None:
            return NONE
        raise Unsupported("constant %r" % (pyval,))

    # ---- subscripts
    def ev_Subscript(self, e, st):
        out = []
        if isinstance(e.slice, ast.Slice):
            parts = [e.value] + [x for x in (e.slice.lower, e.slice.upper, e.slice.step) if x is not None]
            for s, vals in self.ev_many(parts, st):
                it = iter(vals[1:])
                lo = next(it) if e.slice.lower is not None else None
                hi = next(it) if e.slice.upper is not None else None
                step = next(it) if e.slice.step is not None else None
                out.append((s, self.slice_(s, vals[0], lo, hi, step)))
            return out
        for s, (v, i) in self.ev_many([e.value, e.slice], st):
            out += self.index(s, v, i)
        return out

    def norm_index(self, idx, n):
        """python index normalisation: negative indices count from the end"""
        li = lit_int(idx)
        if li is not None:
            return idx if li >= 0 else ADD(n, idx)
        if self.spec_mode:
            # contract clauses index with non-negative expressions (bound variables of range(), results); a negative
            # *literal* is normalised above.  Keeping the index term plain keeps quantifier patterns usable.
            return idx
        return ITE(CMP("<", idx, I(0)), ADD(idx, n), idx)

    def index(self, s, v, i):
        """v[i] with Python semantics (negative wrap, IndexError / KeyError)"""
        if isinstance(v, Ref) and type(s.heap[v.cid]).__name__ == "StructLstCell":
            v = self.as_view(s, v)
        if isinstance(v, Ref):
            cell = s.heap[v.cid]
            if type(cell).__name__ == "KeyMapCell":
                from .keymap import km_index
                return km_index(self, s, v, i)
            if type(cell).__name__ == "IterLstCell":
                from .lib_sib import iterlst_index
                return iterlst_index(self, s, cell, v, i)
            if isinstance(cell, ObjCell) and not v.path and not self.spec_mode and cell.cls != "$file":
                # obj[i] on an instance of a repository class: python calls type(obj).__getitem__(obj, i)
                k = self.contracts.find_method(cell.cls, "__getitem__")
                if k is None:
                    raise Unsupported("subscript of an instance of %s: no contract for __getitem__" % cell.cls)
                from .calls import apply_contract
                return apply_contract(self, s, k, [v, i], {})
            if isinstance(cell, PyDictCell):
                if isinstance(i, Str):
                    if i.s in cell.items:
                        return [(s, cell.items[i.s])]
                    self.raise_(s, "KeyError")
                    return []
                raise Unsupported("symbolic key in concrete dict")
            if isinstance(cell, ValCell):
                return self.val_index(s, v, self.deref(s, v), i)
            if isinstance(cell, LstCell):
                t = self.deref(s, v)
                n = self.reg.l_len(t)
                idx = self.norm_index(self.num(i), n)
                s2 = self.check_index(s, idx, n)
                if s2 is None:
                    return []
                el = self.reg.lst_elem[t.sort]
                if self.reg.is_lst(el):
                    return [(s2, Ref(v.cid, v.path + (idx,)))]      # alias into the nested list
                return [(s2, self.wrap(self.reg.l_get(t, idx)))]
            if isinstance(cell, PyListCell):
                return self.index_items(s, cell.items, i)
        if isinstance(v, Opaque) and v.sort == "Val":
            return self.val_index(s, None, v.t, i)
        if isinstance(v, Tup):
            return self.index_items(s, v.items, i)
        if isinstance(v, View):
            if v.items is not None:
                return self.index_items(s, v.items, i)
            idx = self.norm_index(self.num(i), v.len)
            s2 = self.check_index(s, idx, v.len)
            if s2 is None:
                return []
            return [(s2, v.get(idx))]
        if isinstance(v, Str) and isinstance(i, Num) and lit_int(i.t) is not None:
            k = lit_int(i.t)
            if -len(v.s) <= k < len(v.s):
                return [(s, Str(v.s[k]))]
            self.raise_(s, "IndexError")
            return []
        if isinstance(v, Opaque) and v.sort == "V":
            from .vmembers import v_subscript          # v[k] of an abstract flow value (declared v_members __getitem__)
            r = v_subscript(self, s, v, i)
            if r is not None:
                return r
        from .iet import index as iet_index          # a dict of trees as a value (pyvc/iet.py)
        r = iet_index(self, s, v, i)
        if r is not None:
            return r
        raise Unsupported("subscript of %r" % (v,))

    def index_items(self, s, items, i):
        it = self.num(i)
        k = lit_int(it)
        n = len(items)
        if k is not None:
            if -n <= k < n:
                return [(s, items[k])]
            if self.spec_mode:
                raise Unsupported("spec index out of range")
            if self.may_catch(s, "IndexError"):
                self.raise_(s, "IndexError")
            else:
                self.emit("safety", "index-in-range", s, FALSE)
            return []
        idx = self.norm_index(it, I(n))
        s2 = self.check_index(s, idx, I(n))
        if s2 is None or n == 0:
            return []
        return [(s2, self.select_items(items, idx))]

    def check_index(self, s, idx, n):
        """returns the state in which the index is in range (or None); handles IndexError"""
        if self.spec_mode:
            return s
        ok = AND(CMP("<=", I(0), idx), CMP("<", idx, n))
        if ok.s == "true" or self.known(s, ok):
            return s
        if self.may_catch(s, "IndexError"):
            bad = s.fork(NOT(ok), "ie.")
            self.raise_(bad, "IndexError")
            if ok.s == "false":
                return None
            s.assume(ok)
            s.trace += "ii."
            return s
        self.emit("safety", "index-in-range", s, ok)
        s.assume(ok)
        return s

    def val_index(self, s, ref, dterm, i):
        k = self.key_term(i)
        has = T("(vhas %s %s)" % (dterm.s, k.s), "Bool")
        if not self.spec_mode:
            isd = T("(isD %s)" % dterm.s, "Bool")
            if not self.known(s, isd):
                if self.may_catch(s, "TypeError"):
                    bad = s.fork(NOT(isd), "te.")
                    self.raise_(bad, "TypeError")
                else:
                    self.emit("safety", "subscript-of-dict", s, isd)
                s.assume(isd)
            if self.may_catch(s, "KeyError"):
                bad = s.fork(NOT(has), "ke.")
                self.raise_(bad, "KeyError")
                s.assume(has)
                s.trace += "kk."
            else:
                self.emit("safety", "key-present", s, has)
                s.assume(has)
        if ref is not None:
            if not ref.path and not self.spec_mode and self.c is not None and self.c.ghost.get("dict_objects"):
                from . import dictobj      # the item as an OBJECT with a home cell of its own (pyvc/dictobj.py)
                return [(s, dictobj.child_ref(self, s, ref, k))]
            return [(s, Ref(ref.cid, ref.path + (k,)))]
        return [(s, Opaque(T("(vget %s %s)" % (dterm.s, k.s), "Val")))]

    def known(self, s, cond):
        return cond.s == "true" or any(h.s == cond.s for h in s.pc)

    def slice_(self, s, v, lo, hi, step):
        if step is not None:
            st_ = lit_int(self.num(step))
            if st_ != 1:
                raise Unsupported("slice step")
        if isinstance(v, Str):
            l = lit_int(self.num(lo)) if lo is not None and not isinstance(lo, NoneV) else None
            h = lit_int(self.num(hi)) if hi is not None and not isinstance(hi, NoneV) else None
            return Str(v.s[l:h])
        if (isinstance(v, Opaque) and v.sort in ("Key", "Val")) or (isinstance(v, Ref) and isinstance(s.heap[v.cid], ValCell)):
            # s[n:] of a symbolic string (a context item must be a string: obligation), n a non-negative literal
            k0 = lit_int(self.num(lo)) if lo is not None and not isinstance(lo, NoneV) else None
            if k0 is None and lo is not None and isinstance(lo, Num) and lo.sort == "Int" and (hi is None or isinstance(hi, NoneV)):
                # s[n:] with a computed n: the same uninterpreted function of the string and n (nothing is assumed about
                # it, so whatever python does for this n -- also a negative one -- is one of its interpretations)
                from .lib import str_operand
                f = self.reg.ufun("ktail", ["Key", "Int"], "Key")
                return Opaque(T("(%s %s %s)" % (f, self.key_term(str_operand(self, s, v, "slicing")).s, lo.t.s), "Key"))
            h0 = lit_int(self.num(hi)) if hi is not None and not isinstance(hi, NoneV) and isinstance(hi, Num) else None
            if k0 is not None and h0 is not None and isinstance(v, Opaque) and v.sort == "Key":
                # s[lo:hi] of a symbolic string with literal bounds (also negative ones): an uninterpreted function of the
                # string and the two bounds (nothing is assumed about it)
                f = self.reg.ufun("kslice", ["Key", "Int", "Int"], "Key")
                return Opaque(T("(%s %s %s %s)" % (f, v.t.s, I(k0).s, I(h0).s), "Key"))
            if k0 is None or k0 < 0 or not (hi is None or isinstance(hi, NoneV)):
                raise Unsupported("slice of a symbolic string other than s[n:]")
            from .lib import str_operand, symstr_tail
            return symstr_tail(self, self.key_term(str_operand(self, s, v, "slicing")), k0)
        if (lo is None or isinstance(lo, NoneV)) and (hi is None or isinstance(hi, NoneV)) and isinstance(v, Ref) \
                and isinstance(s.heap[v.cid], LstCell):
            return self.new_cell(s, LstCell(self.deref(s, v)))        # l[:] -- a new list with the same items
        view = self.as_view(s, v)
        n = view.len
        if view.items is not None:
            l = 0 if lo is None or isinstance(lo, NoneV) else lit_int(self.num(lo))
            h = len(view.items) if hi is None or isinstance(hi, NoneV) else lit_int(self.num(hi))
            if l is not None and h is not None:
                items = view.items[l:h]
                if isinstance(v, Tup):
                    return Tup(items)
                return self.new_cell(s, PyListCell(items))

        def clamp(x):
            x = self.num(x)
            lx = lit_int(x)
            if lx is not None and lx >= 0:
                return ITE(CMP("<", x, n), x, n) if lx > 0 else I(0)
            if lx is not None and lx < 0:
                y = ADD(n, x)
                return ITE(CMP("<", y, I(0)), I(0), y)
            y = ITE(CMP("<", x, I(0)), ADD(n, x), x)
            return ITE(CMP("<", y, I(0)), I(0), ITE(CMP(">", y, n), n, y))
        l = I(0) if lo is None or isinstance(lo, NoneV) else clamp(lo)
        h = n if hi is None or isinstance(hi, NoneV) else clamp(hi)
        length = SUB(h, l)
        length = ITE(CMP("<", length, I(0)), I(0), length)
        nv = View(length, lambda i: view.get(ADD(l, i)))
        nv.pykind = self.kind_of_seq(s, v)
        vt = getattr(view, "term", None)
        k0 = lit_int(self.num(lo)) if (lo is not None and not isinstance(lo, NoneV)) else None
        if vt is not None and k0 is not None and k0 > 0 and (hi is None or isinstance(hi, NoneV)):
            # a suffix xs[k:] of a list term: the items shifted by k (length clamped as computed above) -- an exact
            # list term of the slice
            nv.term = T("(mk_%s (lambda ((si Int)) (select %s (+ si %d))) %s)" % (vt.sort, self.reg.l_arr(vt).s, k0, length.s),
                        vt.sort)
        if vt is not None and l.s == "0":
            # a prefix xs[:h] of a list term: the same items (array) with a shorter length -- an exact list term of the slice
            nv.term = self.reg.l_mk(vt.sort, self.reg.l_arr(vt), length)
        return nv

    # ---- comprehensions
    def ev_GeneratorExp(self, e, st):
        v = self.comprehension(e, st)
        v.lazy = True
        return [(st, v)]

    def ev_ListComp(self, e, st):
        from .histlib import alloc_comprehension     # [copy.deepcopy(obj) for _ in range(n)]: n new objects
        r = alloc_comprehension(self, e, st)
        if r is not None:
            return [(st, r)]
        from .lib_sib import iterlst_comprehension   # [next(g) for g in <list of generator iterators>]
        r = iterlst_comprehension(self, e, st)
        if r is not None:
            return r
        # a list comprehension is evaluated eagerly: its items are computed in the state as it is NOW (a snapshot), not
        # in whatever the state object holds when the symbolic view is looked at later
        snap = st.copy()
        n_vcs, n_exc = len(self.vcs), len(self._exc_out)
        try:
            v = self.comprehension(e, snap)
        except Unsupported as ex:
            # an item expression that forks (e.g. get_data_context of an abstract flow value: pair or bare data) over a
            # list of concrete length: the items are evaluated one after the other, every alternative in its own state
            if ("forks in a non-forking context" not in str(ex)
                    and "comprehension filter with symbolic condition over concrete list" not in str(ex)) or self.spec_mode:
                raise
            del self.vcs[n_vcs:]
            del self._exc_out[n_exc:]
            alts = self.listcomp_forking(e, st)
            if alts is None:
                raise
            return alts
        if v.items is not None:
            for cid, cell in snap.heap.items():          # lists created by the item expressions
                if cid not in st.heap:
                    st.heap[cid] = cell
            for h in snap.pc[len(st.pc):]:
                st.pc.append(h)
            return [(st, self.new_cell(st, PyListCell(v.items)))]
        from .histlib import symbolic_listcomp
        return [(st, symbolic_listcomp(self, st, snap, v))]

    def listcomp_forking(self, e, st):
        """[elt for target in <sequence of concrete length>] where evaluating elt forks: list of (state, new list), one per
        combination of alternatives (python's order: item by item, each in the state the previous one left); None when
        the comprehension is not of this form"""
        if len(e.generators) != 1 or e.generators[0].is_async:
            return None
        g = e.generators[0]
        itv = self.ev1(g.iter, st)
        if isinstance(itv, Ref) and isinstance(st.heap[itv.cid], IterCell):
            return None
        src = self.as_view(st, itv)
        if src.items is None:
            return None
        names = [n.id for n in ast.walk(g.target) if isinstance(n, ast.Name)]
        alts = [(st, [])]
        for x in src.items:
            nxt = []
            for s, items in alts:
                saved = {n: s.env[n] for n in names if n in s.env}
                self.bind_target(g.target, x, s)

                def unbind(s2):
                    for n in names:             # the loop variable is local to the comprehension
                        if n in saved:
                            s2.env[n] = saved[n]
                        else:
                            s2.env.pop(n, None)
                # the filters `if c1 if c2 ...` (python: left to right, the item is kept iff every one is true): a
                # condition that is not decided here forks the state
                kept = [s]
                for cnd in g.ifs:
                    kept2 = []
                    for sk in kept:
                        for sc, cv in self.ev(cnd, sk):
                            ct = self.truth(sc, cv)
                            if ct.s == "true":
                                kept2.append(sc)
                            elif ct.s == "false":
                                unbind(sc)
                                nxt.append((sc, items))
                            else:
                                drop = sc.fork(NOT(ct), "cf.")
                                unbind(drop)
                                nxt.append((drop, items))
                                kept2.append(sc.fork(ct, "ck."))
                    kept = kept2
                for sk in kept:
                    for s2, v in self.ev(e.elt, sk):
                        unbind(s2)
                        nxt.append((s2, items + [v]))
            alts = nxt
            if len(alts) > self.max_paths:
                raise Unsupported("path explosion in a list comprehension")
        return [(s, self.new_cell(s, PyListCell(items))) for s, items in alts]

    def comprehension(self, e, st):
        if len(e.generators) != 1 or e.generators[0].is_async:
            raise Unsupported("comprehension with several generators")
        g = e.generators[0]
        itv = self.ev1(g.iter, st)
        if isinstance(itv, Ref) and isinstance(st.heap[itv.cid], IterCell):
            # iterating over the result of a generator function (modelled functionally: producing its values has no
            # effect); an INPUT flow (ghost `pulled`) or a live list iterator is not consumed here
            cell = st.heap[itv.cid]
            if cell.name is not None or getattr(cell, "live", None) is not None or getattr(cell, "kind", None) is not None \
                    or getattr(cell, "upstream", None) is not None or getattr(cell, "shared", None) is not None:
                raise Unsupported("comprehension over an input iterator")
            from .builtins_ import consume_view
            src = consume_view(self, st, itv)
        else:
            src = self.as_view(st, itv)

        def body(i):
            s2 = st.copy()
            self.bind_target(g.target, src.get(i), s2)
            conds = [self.truth(s2, self.ev1(c, s2)) for c in g.ifs]
            return s2, conds
        if src.items is not None:
            items = []
            for k in range(len(src.items)):
                s2, conds = body(I(k))
                c = AND(*conds)
                if c.s == "false":
                    continue
                if c.s != "true":
                    raise Unsupported("comprehension filter with symbolic condition over concrete list")
                res = self.ev(e.elt, s2)
                if len(res) != 1:
                    raise Unsupported("expression forks in a non-forking context: " + ast.dump(e.elt)[:80])
                items.append(res[0][1])
                sx = res[0][0]
                if sx is not s2:
                    # the evaluation ended in another state object (a called lambda / inlined helper continues in a copy):
                    # what it created lives there.  If it also CHANGED something that existed (an iterator advanced, a list
                    # appended to), the items must be evaluated one after the other in the real state (listcomp_forking)
                    if any(sx.heap.get(cid) is not cell for cid, cell in s2.heap.items()) \
                            or any(k.startswith("$") and sx.env.get(k) is not s2.env.get(k) for k in set(sx.env) | set(s2.env)):
                        raise Unsupported("expression forks in a non-forking context: " + ast.dump(e.elt)[:80])
                    s2 = sx
                # objects the item expression created and facts it established live on (the scratch state s2 only
                # keeps the binding of the loop variable apart)
                for cid, cell in s2.heap.items():
                    if cid not in st.heap:
                        st.heap[cid] = cell
                        if cid in s2.notes.get("deep_copies", ()):
                            # (provenance of an object the item expression made by copy.deepcopy lives on with it)
                            st.notes["deep_copies"] = set(st.notes.get("deep_copies", ())) | {cid}
                for h in s2.pc[len(st.pc):]:
                    st.pc.append(h)
                for nk in ("$clock", "$alloc_init", "$new_objs"):
                    # the ghost allocation clock (histlib): objects the next item allocates are allocated AFTER these
                    if nk in s2.notes:
                        st.notes[nk] = s2.notes[nk]
            return self.items_view(items)
        if g.ifs:
            raise Unsupported("filtering comprehension over symbolic sequence")

        def get(i):
            s2, _ = body(i)
            from .histlib import freeze_new      # a list the item expression creates: immutable snapshot of its items
            self.item_eval = getattr(self, "item_eval", 0) + 1      # (an item of a sequence of symbolic length: see calls.apply_contract, get_context / get_data)
            try:
                res = self.ev(e.elt, s2)
            finally:
                self.item_eval -= 1
            if len(res) > 1:
                from .calls import merge_pure_outcomes      # (see get2)
                from .lib_sib import merge_scalar_outcomes
                res = merge_pure_outcomes(self, s2, res) or merge_scalar_outcomes(self, s2, res) or res
            if len(res) != 1:
                raise Unsupported("expression forks in a non-forking context: " + ast.dump(e.elt)[:80])
            return freeze_new(self, st, res[0][0], res[0][1])

        def get2(i):
            # the element together with the (throw-away) state it was evaluated in: cells it creates live only there
            # (the state the evaluation ENDS in: a called lambda / inlined helper continues in a copy of s2)
            s2, _ = body(i)
            self.item_eval = getattr(self, "item_eval", 0) + 1
            try:
                res = self.ev(e.elt, s2)
            finally:
                self.item_eval -= 1
            if len(res) > 1:
                # alternatives that differ only in path condition and value (a helper that tells a (data, context) pair
                # from bare data): one outcome, the value an if-then-else of the alternatives
                from .calls import merge_pure_outcomes
                from .lib_sib import merge_scalar_outcomes
                res = merge_pure_outcomes(self, s2, res) or merge_scalar_outcomes(self, s2, res) or res
            if len(res) != 1:
                raise Unsupported("expression forks in a non-forking context: " + ast.dump(e.elt)[:80])
            return res[0][1], res[0][0]
        nv = View(src.len, get)
        nv.get2 = get2
        if getattr(src, "guard_len", None) is not None:
            nv.guard_len = src.guard_len
        return nv

    def bind_target(self, target, value, st):
        if isinstance(target, ast.Name):
            st.env[target.id] = value
            return
        if isinstance(target, (ast.Tuple, ast.List)):
            view = self.as_view(st, value)
            if view.items is None:
                n = len(target.elts)
                items = [view.get(I(k)) for k in range(n)]
            else:
                items = view.items
                if len(items) != len(target.elts):
                    raise Unsupported("unpacking length mismatch")
            for t, v in zip(target.elts, items):
                self.bind_target(t, v, st)
            return
        raise Unsupported("binding target " + type(target).__name__)

    def ev_JoinedStr(self, e, st):
        return [(st, Str("<fstring>"))]

    def ev_Starred(self, e, st):
        raise Unsupported("starred expression")

    # ------------------------------------------------------------------ calls
    def ev_Call(self, e, st):
        from .calls import do_call
        return do_call(self, e, st)


BUILTINS = {"len", "range", "enumerate", "zip", "isinstance", "hasattr", "callable", "getattr", "int", "float",
            "bool", "list", "tuple", "iter", "next", "all", "any", "sum", "min", "max", "abs", "reversed", "str",
            "repr", "print", "sorted", "map", "dict", "object", "super", "type", "slice", "set", "setattr", "id",
            "filter", "round", "open"}
