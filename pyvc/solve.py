"""Discharging verification conditions with the installed SMT solvers (z3 5.1, z3 4.8.12, cvc5 1.0.3)."""
import hashlib
import os
import subprocess
import time
from concurrent.futures import ThreadPoolExecutor
from fractions import Fraction

SOLVERS = {
    "z3-5.1": lambda path, sec: ["z3-new", "-T:%d" % sec, path],
    "z3-4.8.12": lambda path, sec: ["/usr/bin/z3", "-T:%d" % sec, path],
    "cvc5-1.0.3": lambda path, sec: ["/usr/bin/cvc5", "--tlimit=%d" % (sec * 1000), "--strings-exp", path],
}
ORDER = ["z3-5.1", "z3-4.8.12", "cvc5-1.0.3"]


def run_solver(name, path, sec):
    t0 = time.time()
    try:
        r = subprocess.run(SOLVERS[name](path, sec), capture_output=True, text=True, timeout=sec + 20)
        out = r.stdout.strip()
    except subprocess.TimeoutExpired:
        out = "timeout"
    first = out.split("\n")[0].strip() if out else "error"
    if first not in ("sat", "unsat", "unknown", "timeout"):
        first = "error:" + (out[:200].replace("\n", " "))
    return first, time.time() - t0, out


class Result(object):
    def __init__(self, vc, unit):
        self.vc, self.unit = vc, unit
        self.status = None        # proved | failed | undecided | cover-ok | cover-unknown | vacuous | canary-ok | canary-bad
        self.backend = None
        self.time = 0.0
        self.path = None
        self.answers = []
        self.model = None


def _one(job):
    res, text, path, timeout, tier = job
    vc = res.vc
    # written atomically: obligations with identical text (same hash, same path) are discharged by several threads -- and
    # by several checker processes -- at once; a solver must never read a file another writer has just truncated
    import threading
    tmp = "%s.%d.%d.tmp" % (path, os.getpid(), threading.get_ident())
    with open(tmp, "w") as f:
        f.write(text)
    os.replace(tmp, path)
    order = list(ORDER)
    answers = []
    final = None
    if vc.kind in ("cover", "canary"):
        ans, dt, _ = run_solver(order[0], path, 3)
        answers.append((order[0], ans, dt))
        res.time += dt
        res.answers = answers
        res.backend = order[0]
        if vc.kind == "cover":
            res.status = "cover-ok" if ans == "sat" else "vacuous" if ans == "unsat" else "cover-unknown"
        else:
            res.status = "canary-bad" if ans == "unsat" else "canary-ok"
        return res
    # schedule: a short attempt with the first solver, then the second one (it decides, within seconds, a class of
    # quantified queries the first one only times out on), then the first one again with the full budget, then cvc5
    short = max(timeout // 5, 4)
    # (the full-budget stage is at least 60 s: a few dictionary queries need 8..17 s on an idle machine and must not flip to
    # `undecided` when all 16 cores are busy with other checks)
    schedule = [(order[0], short), (order[1], max(timeout // 2, 10)), (order[0], max(timeout, 60)), (order[2], max(timeout // 2, 5))]
    for name, sec in schedule:
        ans, dt, _ = run_solver(name, path, sec)
        answers.append((name, ans, dt))
        res.time += dt
        if ans == "unsat":
            final, res.backend = "proved", name
            break
        if ans == "sat":
            final, res.backend = "failed", name
            break
    if final is None:
        final = "undecided"
    if final == "proved" and tier == "thorough":
        # second opinion on every query
        for name in order:
            if name == res.backend:
                continue
            ans, dt, _ = run_solver(name, path, max(timeout // 2, 5))
            answers.append((name, ans, dt))
            res.time += dt
            if ans == "sat":
                final = "failed"
                res.backend = name
            break
    res.status = final
    res.answers = answers
    return res


def discharge(units, outdir, timeout=20, tier="quick", jobs=16):
    os.makedirs(outdir, exist_ok=True)
    work, results = [], []
    for u in units:
        if u.error:
            continue
        for vc in u.vcs:
            r = Result(vc, u)
            results.append(r)
            if vc.goal.s == "true" and vc.kind not in ("cover", "canary"):
                r.status, r.backend = "proved", "syntactic"
                continue
            text = u.reg.script(vc.hyps, vc.goal if vc.kind not in ("cover", "canary") else None)
            if vc.kind in ("cover", "canary"):
                text = u.reg.script(vc.hyps, None)
            h = hashlib.sha1(text.encode()).hexdigest()[:12]
            path = os.path.join(outdir, "%s.smt2" % h)
            r.path = path
            r.text = text
            work.append((r, text, path, timeout, tier))
    with ThreadPoolExecutor(max_workers=jobs) as ex:
        list(ex.map(_one, work))
    return results


# --------------------------------------------------------------------------- models
def parse_sexp(s):
    tokens = s.replace("(", " ( ").replace(")", " ) ").split()
    # re-join |quoted symbols|
    out, cur = [], None
    for t in tokens:
        if cur is not None:
            cur += " " + t
            if t.endswith("|"):
                out.append(cur)
                cur = None
        elif t.startswith("|") and not (t.endswith("|") and len(t) > 1):
            cur = t
        else:
            out.append(t)
    pos = [0]

    def rd():
        t = out[pos[0]]
        pos[0] += 1
        if t == "(":
            lst = []
            while out[pos[0]] != ")":
                lst.append(rd())
            pos[0] += 1
            return lst
        return t
    res = []
    while pos[0] < len(out):
        res.append(rd())
    return res


def sexp_value(v):
    """z3 value s-expression -> python int / Fraction / bool / str"""
    if isinstance(v, str):
        if v == "true":
            return True
        if v == "false":
            return False
        try:
            return int(v)
        except ValueError:
            pass
        try:
            return Fraction(v)
        except ValueError:
            return v
    if len(v) == 2 and v[0] == "-":
        return -sexp_value(v[1])
    if len(v) == 3 and v[0] == "/":
        return Fraction(sexp_value(v[1])) / Fraction(sexp_value(v[2]))
    return v


def get_values(text, terms, timeout=20, extra=()):
    """run z3 on the failed query and read the model values of the given terms (list of smt strings)"""
    if not terms:
        return {}
    q = text.replace("(check-sat)", "").rstrip() + "\n" + "\n".join("(assert %s)" % x for x in extra) + \
        "\n(check-sat)\n(get-value (%s))\n" % " ".join(terms)
    if "(set-option :produce-models true)" not in q:
        q = "(set-option :produce-models true)\n" + q
    path = "/dev/shm/pyvc_model_%d_%d.smt2" % (os.getpid(), abs(hash(q)) % 10 ** 8)
    with open(path, "w") as f:
        f.write(q)
    try:
        r = subprocess.run(["z3-new", "-T:%d" % timeout, path], capture_output=True, text=True, timeout=timeout + 10)
    finally:
        try:
            os.unlink(path)
        except OSError:
            pass
    out = r.stdout.strip()
    if not out.startswith("sat"):
        return None
    body = out[3:].strip()
    try:
        parsed = parse_sexp(body)
    except Exception:
        return None
    vals = {}
    if parsed:
        for pair, term in zip(parsed[0], terms):
            vals[term] = sexp_value(pair[1])
    return vals
