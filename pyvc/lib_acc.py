"""library contracts (tier A) used by the accumulators of lena/math/elements.py: the `decimal` module (DSum) and
itertools.zip_longest (Vectorize).  Everything here is an ASSUMPTION about CPython's library, listed in the evidence.

decimal
    A Decimal is an exact decimal fraction: over the mathematical reals of this encoding `Decimal(x)` of an int / float x
    is x itself (CPython: "the exact value of the float is converted").  A `decimal.Context` is an object with two
    fields the code under contract can depend on:  `prec` (Int) and `traps_inexact` (Bool: Inexact is among the traps).
    `Context.add(a, b)`: the exactly computed sum, rounded to `prec` digits; if rounding changes the value the Inexact
    signal is raised -- as an exception when trapped.  Whether a + b fits into `prec` digits is the uninterpreted
    predicate dec_inexact(a + b, prec) (nothing is assumed about it: termination of DSum's precision loop is NOT proved).
"""
from .smt import T, TRUE, FALSE, I, NOT, AND, OR, EQ, CMP, ADD, ITE, to_real
from .sym import Num, Bool, Opaque, Ref, Fun, IterCell, PyListCell, ObjCell, NONE, NoneV, View


def U(msg):
    from .interp import Unsupported
    return Unsupported(msg)


# --------------------------------------------------------------------------- decimal
DEC_NOTE = ("library contract (tier A): decimal -- Decimal(int/float) is exact; Context.add returns the exact sum unless it "
            "does not fit the precision, and then raises Inexact when that signal is trapped")


def lib_decimal(ip, st, pos, kws):
    """decimal.Decimal(x) for a number x: the exact value (numbers are mathematical here)"""
    if kws or len(pos) > 1:
        raise U("Decimal(value, context)")
    if not pos:
        return [(st, Num(I(0)))]
    v = pos[0]
    if isinstance(v, (Num, Bool)):
        ip.assumptions.add(DEC_NOTE)
        d = Num(to_real(ip.num(v)))
        d.decimal = True            # see Interp.make("Dec"): operator arithmetic on it is refused
        return [(st, d)]
    raise U("Decimal(%r)" % (v,))          # strings / tuples are not modelled


def lib_decimal_context(ip, st, pos, kws):
    """decimal.Context(prec=None, traps=None): a new context object.  Without `traps` the traps of DefaultContext apply
    (InvalidOperation, DivisionByZero, Overflow): Inexact is NOT trapped."""
    if pos or any(k not in ("prec", "traps") for k in kws):
        raise U("decimal.Context(...) with arguments other than prec= / traps=")
    traps = kws.get("traps")
    if traps is None or isinstance(traps, NoneV):
        ti = FALSE
    elif isinstance(traps, Ref) and isinstance(st.heap[traps.cid], PyListCell) \
            and all(isinstance(x, Fun) and x.kind == "exc" for x in st.heap[traps.cid].items):
        ti = TRUE if any(x.name == "Inexact" for x in st.heap[traps.cid].items) else FALSE
    else:
        raise U("decimal.Context(traps=%r)" % (traps,))
    prec = kws.get("prec")
    if prec is None or isinstance(prec, NoneV):
        p = Num(I(28))            # DefaultContext.prec
    elif isinstance(prec, Num) and prec.sort == "Int":
        p = prec
    else:
        raise U("decimal.Context(prec=%r)" % (prec,))
    ip.assumptions.add(DEC_NOTE)
    return [(st, ip.new_cell(st, ObjCell("DecimalContext", {"prec": p, "traps_inexact": Bool(ti)})))]


def sp_dec_inexact(ip, st, pos, kws):
    """dec_inexact(x, prec): the real x has no exact representation with `prec` significant decimal digits"""
    f = ip.reg.ufun("dec_inexact", ["Real", "Int"], "Bool")
    return Bool(T("(%s %s %s)" % (f, to_real(ip.num(pos[0])).s, ip.num(pos[1]).s), "Bool"))


# --------------------------------------------------------------------------- itertools.zip_longest
class StarView(object):
    """the argument list of f(*xs) when xs has symbolic length (calls.do_call hands it to library functions that set
    `star_view`)"""

    def __init__(self, view):
        self.view = view


def lib_zip_longest(ip, st, pos, kws):
    """itertools.zip_longest(*its) (fill value None) for a symbolic number n of NEW iterators made by a generator
    expression / comprehension (each delivers a known list R(k)):  an iterator over N = max_k len(R(k)) rows (0 rows for
    n == 0); row j is the n-tuple whose k-th item is R(k)[j] if j < len(R(k)), else None.
    The argument iterators exist only inside the call (nothing else can reach them), so consuming them has no other effect."""
    from .sym import Padded
    from .smt import lit_int
    if kws:
        raise U("zip_longest(fillvalue=...)")
    if not (len(pos) == 1 and isinstance(pos[0], StarView)):
        raise U("zip_longest of separately given iterators (only zip_longest(*(... for x in xs)) is modelled)")
    view = pos[0].view
    get2 = getattr(view, "get2", None)
    if get2 is None:
        raise U("zip_longest(*xs): xs is not a comprehension")
    reg = ip.reg

    def R(k):
        r, s2 = get2(k)
        cell = s2.heap.get(r.cid) if isinstance(r, Ref) else None
        if not isinstance(cell, IterCell) or r.cid in st.heap:
            raise U("zip_longest(*xs): the items of xs must be iterators created by the comprehension itself")
        t = getattr(cell.src, "term", None) if cell.src is not None else None
        if t is None or lit_int(cell.cursor) != 0 or cell.limit is not None or getattr(cell, "kind", None) is not None \
                or getattr(cell, "live", None) is not None:
            raise U("zip_longest(*xs): iterator without a content term")
        if reg.lst_elem[t.sort] != "V":
            raise U("zip_longest over iterators of " + t.sort)
        return t
    n = view.len
    N = reg.new("zl_rows", "Int")
    k = T("zk%d" % next(ip.bound), "Int")
    lk = reg.l_len(R(k))
    rng = "(and (<= 0 %s) (< %s %s))" % (k.s, k.s, n.s)
    st.assume(CMP(">=", N, I(0)))
    st.assume(T("(forall ((%s Int)) (=> %s (<= %s %s)))" % (k.s, rng, lk.s, N.s), "Bool"))
    st.assume(T("(=> (> %s 0) (exists ((%s Int)) (and %s (= %s %s))))" % (n.s, k.s, rng, lk.s, N.s), "Bool"))
    st.assume(T("(=> (<= %s 0) (= %s 0))" % (n.s, N.s), "Bool"))

    def row(j):
        def item(kk):
            t = R(kk)
            return Padded(CMP("<", j, reg.l_len(t)), reg.l_get(t, j))
        v = View(n, item)
        v.pykind = "tuple"
        return v
    ip.assumptions.add("library contract (tier A): itertools.zip_longest(*its) delivers max(len) rows, row j holding the "
                       "j-th value of every iterator that has one and None for the others")
    return [(st, ip.new_cell(st, IterCell(View(N, row), I(0))))]


lib_zip_longest.star_view = True


def register(ix):
    from .contracts import Contract, ClassSpec
    ix.lib[("itertools", "zip_longest")] = lib_zip_longest
    ix.lib[("decimal", "Decimal")] = lib_decimal
    ix.lib[("decimal", "Context")] = lib_decimal_context
    ix.spec_names["dec_inexact"] = sp_dec_inexact
    ix.add_class(ClassSpec("DecimalContext", "<stdlib>/decimal.py", fields={"prec": "Int", "traps_inexact": "Bool"}))
    ix.add(Contract(
        "<stdlib>/decimal.py", "DecimalContext.add", props=[], trusted=True,
        params={"self": "Self[DecimalContext]", "a": "Dec", "b": "Dec"}, result="Dec",
        raises={"Inexact": "self.traps_inexact and dec_inexact(a + b, self.prec)"}, raises_frame="pure",
        ensures=["not dec_inexact(a + b, self.prec) implies result == a + b"],
        notes=DEC_NOTE))
