"""library contracts (tier A) used by the accumulators of lena/math/elements.py: the `decimal` module (DSum) and
itertools.zip_longest (Vectorize).  Everything here is an ASSUMPTION about CPython's library, listed in the evidence.

decimal
    A Decimal is an exact decimal fraction: over the mathematical reals of this encoding `Decimal(x)` of an int / float x
    is x itself (CPython: "the exact value of the float is converted").  A `decimal.Context` is an object with two
    fields the code under contract can depend on:  `prec` (Int) and `traps_inexact` (Bool: Inexact is among the traps).
    `Context.add(a, b)`: the exactly computed sum, rounded to `prec` digits; if rounding changes the value the Inexact
    signal is raised -- as an exception when trapped.  Whether a + b fits into `prec` digits is the uninterpreted
    predicate dec_inexact(a + b, prec) (nothing is assumed about it: termination of DSum's precision loop is NOT proved).
"""
from .smt import T, TRUE, FALSE, I, NOT, AND, OR, EQ, CMP, ADD, ITE, to_real
from .sym import Num, Bool, Opaque, Ref, Fun, IterCell, PyListCell, ObjCell, NONE, NoneV, View


def U(msg):
    from .interp import Unsupported
    return Unsupported(msg)


# --------------------------------------------------------------------------- decimal
DEC_NOTE = ("library contract (tier A): decimal -- Decimal(int/float) is exact; Context.add returns the exact sum unless it "
            "does not fit the precision, and then raises Inexact when that signal is trapped")


def lib_decimal(ip, st, pos, kws):
    """decimal.Decimal(x) for a number x: the exact value (numbers are mathematical here)"""
    if kws or len(pos) > 1:
        raise U("Decimal(value, context)")
    if not pos:
        return [(st, Num(I(0)))]
    v = pos[0]
    if isinstance(v, (Num, Bool)):
        ip.assumptions.add(DEC_NOTE)
        d = Num(to_real(ip.num(v)))
        d.decimal = True            # see Interp.make("Dec"): operator arithmetic on it is refused
        return [(st, d)]
    raise U("Decimal(%r)" % (v,))          # strings / tuples are not modelled


def lib_decimal_context(ip, st, pos, kws):
    """decimal.Context(prec=None, traps=None): a new context object.  Without `traps` the traps of DefaultContext apply
    (InvalidOperation, DivisionByZero, Overflow): Inexact is NOT trapped."""
    if pos or any(k not in ("prec", "traps") for k in kws):
        raise U("decimal.Context(...) with arguments other than prec= / traps=")
    traps = kws.get("traps")
    if traps is None or isinstance(traps, NoneV):
        ti = FALSE
    elif isinstance(traps, Ref) and isinstance(st.heap[traps.cid], PyListCell) \
            and all(isinstance(x, Fun) and x.kind == "exc" for x in st.heap[traps.cid].items):
        ti = TRUE if any(x.name == "Inexact" for x in st.heap[traps.cid].items) else FALSE
    else:
        raise U("decimal.Context(traps=%r)" % (traps,))
    prec = kws.get("prec")
    if prec is None or isinstance(prec, NoneV):
        p = Num(I(28))            # DefaultContext.prec
    elif isinstance(prec, Num) and prec.sort == "Int":
        p = prec
    else:
        raise U("decimal.Context(prec=%r)" % (prec,))
    ip.assumptions.add(DEC_NOTE)
    return [(st, ip.new_cell(st, ObjCell("DecimalContext", {"prec": p, "traps_inexact": Bool(ti)})))]


def sp_dec_inexact(ip, st, pos, kws):
    """dec_inexact(x, prec): the real x has no exact representation with `prec` significant decimal digits"""
    f = ip.reg.ufun("dec_inexact", ["Real", "Int"], "Bool")
    return Bool(T("(%s %s %s)" % (f, to_real(ip.num(pos[0])).s, ip.num(pos[1]).s), "Bool"))


def register(ix):
    from .contracts import Contract, ClassSpec
    ix.lib[("decimal", "Decimal")] = lib_decimal
    ix.lib[("decimal", "Context")] = lib_decimal_context
    ix.spec_names["dec_inexact"] = sp_dec_inexact
    ix.add_class(ClassSpec("DecimalContext", "<stdlib>/decimal.py", fields={"prec": "Int", "traps_inexact": "Bool"}))
    ix.add(Contract(
        "<stdlib>/decimal.py", "DecimalContext.add", props=[], trusted=True,
        params={"self": "Self[DecimalContext]", "a": "Dec", "b": "Dec"}, result="Dec",
        raises={"Inexact": "self.traps_inexact and dec_inexact(a + b, self.prec)"}, raises_frame="pure",
        ensures=["not dec_inexact(a + b, self.prec) implies result == a + b"],
        notes=DEC_NOTE))
