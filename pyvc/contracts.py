"""Contract objects, the contract index, module contexts and the 'world' (exception hierarchy, module cache)."""
import ast
import os
import hashlib

from .sym import Module, Fun, Sentinel, Str, Num, Bool, NONE
from .smt import I, TRUE, FALSE

REPO = os.environ.get("LENA_REPO", "/repo")


class LoopSpec(object):
    def __init__(self, invariant=(), decreases=None, havoc=None, keep=None, ghost=None, init_ghost=None, body_ghost=None,
                 cursor=None, body_end=(), exit_ghost=None):
        self.exit_ghost = dict(exit_ghost or {})     # ghost name -> spec expression, evaluated when a for loop is exhausted
        # body_end: clauses PROVED at the end of every iteration (next / continue), over the locals of that iteration and
        # the body_ghost snapshots taken at its start; they are obligations only (never assumed at the loop head)
        self.body_end = list(body_end)
        # cursor: local name -> (root, keys, lo, hi): at the loop head the name refers to the OBJECT reached from the
        # dictionary `root` by the keys keys[lo..hi) (keys: a list of keys, or one key repeated); checked at loop entry
        # and at every back edge against the reference the body actually computed (dicts.same_ref)
        self.cursor = dict(cursor or {})
        self.init_ghost = dict(init_ghost or {})     # ghost name -> spec expression, evaluated once before the loop
        self.body_ghost = dict(body_ghost or {})     # ghost name -> spec expression, evaluated at the start of each iteration
        self.invariant = list(invariant)
        self.decreases = decreases
        self.havoc = havoc            # optional explicit list of extra names / fields to havoc
        self.keep = keep or []        # names that the syntactic havoc would hit but provably do not change
        self.ghost = ghost or {}


class Contract(object):
    """Contract of one function / method of /repo (sidecar: the repository file is not edited).

    params    : ordered dict name -> type string (see Interp.make); 'self' allowed
    result    : type string of the result, or None
    requires  : list of spec expressions (python syntax, evaluated in the pre-state)
    ensures   : list of spec expressions over params, `result`, `old(e)`
    raises    : dict exception class -> spec expression (pre-state condition): the function raises E *iff* cond
                (use "?" for 'may raise, condition unspecified')
    loops     : dict loop ordinal -> LoopSpec
    abstract  : dict local name -> (type, constraint spec): the assignment to that local is replaced by a havoc
    modifies  : list of places (spec expressions such as 'self.bins', 'arr') the function may change
    generator : the function is a generator; `yields` type of yielded values; ghost `out` list of yields
    at_yield  : spec expressions checked at every yield, before the value is appended (laziness clauses)
    abandon   : spec expressions that must hold at every yield and at every call that may raise
    """

    def __init__(self, file, qual, props=(), params=None, result=None, requires=(), ensures=(), raises=None,
                 loops=None, abstract=None, modifies=(), generator=False, yields="V", at_yield=(), abandon=(),
                 cases=None, name=None, consts=None, dict_model=None, inline=False, pure=False, lemmas=(),
                 ghost=None, notes="", trusted=False, unfold=None, assume_post=(), raises_frame="havoc",
                 exc_ensures=None, self_class=None, kwargs=None, defaults=None, statics=None, max_paths=4000,
                 old_names=None, qualkey=None, result_alias=None, on_abandon=(), upstream_raises=False, at_call=None, closure=None,
                 vararg=None, kwarg=None, local_types=None, post_class=None, result_ref=None, out_def=None):
        self.file, self.qual, self.props = file, qual, list(props)
        self.params = dict(params or {})
        self.result = result
        self.requires, self.ensures = list(requires), list(ensures)
        self.raises = dict(raises or {})
        self.loops = {k: (v if isinstance(v, LoopSpec) else LoopSpec(**v)) for k, v in (loops or {}).items()}
        self.abstract = dict(abstract or {})
        self.modifies = list(modifies)
        self.generator, self.yields = generator, yields
        self.at_yield, self.abandon = list(at_yield), list(abandon)
        self.cases = cases
        self.name = name or qual
        self.consts = dict(consts or {})
        self.dict_model = dict_model
        self.inline = inline
        self.pure = pure
        self.lemmas = list(lemmas)
        self.ghost = dict(ghost or {})
        self.notes = notes
        self.trusted = trusted          # library contract (tier A): not verified, listed as assumption
        self.unfold = unfold
        self.assume_post = list(assume_post)
        self.raises_frame = raises_frame
        self.exc_ensures = dict(exc_ensures or {})
        self.self_class = self_class
        self.defaults = dict(defaults or {})
        self.statics = dict(statics or {})
        self.max_paths = max_paths
        self.old_names = old_names
        self.qualkey = qualkey
        self.closure = dict(closure or {})       # free variables of a nested function: name -> type
        self.at_call = dict(at_call or {})       # element method name -> clauses checked at every call of it
        self.on_abandon = list(on_abandon)       # clauses that hold when the generator is abandoned at a yield
        self.upstream_raises = upstream_raises   # explore: pulling from the input flow raises
        self.result_alias = result_alias     # the function returns this parameter itself (same object)
        # element type of a local that starts as an empty list display `name = []` and is extended in a loop of symbolic
        # length: name -> "Lst[T]" (an empty list is an empty list whatever T; a value that does not fit T is out-of-subset)
        self.local_types = dict(local_types or {})
        # ClassSpec name describing `self` AFTER the call when a field changes its type (e.g. None -> number): the types of
        # the havocked `self.` fields are taken from it and the object is an instance of it afterwards
        self.post_class = post_class
        # generator whose output is a stated function of its arguments: (len_expr, index_var, item_expr); must be backed by
        # the two ensures clauses `len(out) == len_expr` and `all(out[k] == item_expr for k in range(len(out)))`
        self.out_def = out_def
        self.vararg, self.kwarg = vararg, kwarg   # names of the *args / **kwargs parameters (typed Tuple[...] / KwDict[k:T,...])
        # result_ref = (param, keys, lo, hi): the function returns the very OBJECT reached from the dictionary `param` by
        # the keys keys[lo..hi) (checked at every normal exit; gives callers a reference they can store through)
        self.result_ref = result_ref

    @property
    def key(self):
        return (self.file, self.qualkey or self.qual)

    @property
    def simple(self):
        return self.qual.split(".")[-1]


class ClassSpec(object):
    """fields (name -> type) of instances as seen by the methods under contract, plus the object invariant"""

    def __init__(self, name, file, fields, invariant=(), class_attrs=None, bases=(), alias_of=None):
        self.name, self.file = name, file
        self.alias_of = alias_of
        self.fields = dict(fields)
        self.invariant = list(invariant)
        self.class_attrs = dict(class_attrs or {})
        self.bases = list(bases)


class SpecFun(object):
    """pure specification function: python source (a def) compiled to SMT by unfolding at call sites"""

    def __init__(self, name, params, result, body=None, smt=None, recursive=False, axioms=()):
        self.name, self.params, self.result = name, params, result
        self.body, self.smt, self.recursive, self.axioms = body, smt, recursive, list(axioms)


class ContractIndex(object):
    def __init__(self):
        self.by_key = {}
        self.by_simple = {}
        self.classes = {}
        self.spec_names = {}
        self.lib = {}
        self.lemmas = []

    def add(self, c):
        self.by_key[c.key] = c
        self.by_simple.setdefault(c.simple, []).append(c)
        return c

    def add_class(self, cs):
        self.classes[cs.name] = cs
        return cs

    def add_spec(self, sf):
        self.spec_names[sf.name] = sf
        return sf

    def find(self, name, file_hint=None):
        cands = self.by_simple.get(name, [])
        cands = [c for c in cands if "." not in c.qual and not c.qualkey]
        if file_hint:
            pref = [c for c in cands if c.file == file_hint]
            if pref:
                return pref[0]
        if len(cands) == 1:
            return cands[0]
        if len(cands) > 1:
            return cands[0]
        return None

    def find_method(self, cls, name):
        seen = set()
        todo = [cls]
        while todo:
            k = todo.pop(0)
            if k in seen:
                continue
            seen.add(k)
            cs = self.classes.get(k)
            real = cs.alias_of if cs is not None and cs.alias_of else k
            if cs is not None and cs.alias_of:
                # a contract written for this very view of the class (ClassSpec name != real class name): same function,
                # typed / specified for objects that satisfy the view's invariant;  qualkey = "<ClassSpec name>.<method>"
                for c in self.by_simple.get(name, []):
                    if c.qual == "%s.%s" % (real, name) and c.qualkey == "%s.%s" % (k, name):
                        return c
            for c in self.by_simple.get(name, []):
                if c.qual == "%s.%s" % (real, name) and not c.qualkey:
                    return c
            if cs:
                todo += cs.bases
        return None


def find_function(tree, qual):
    node = tree
    for p in qual.split("."):
        nxt = None
        for ch in ast.iter_child_nodes(node):
            if isinstance(ch, (ast.FunctionDef, ast.ClassDef)) and ch.name == p:
                nxt = ch       # last definition wins, as in python
        if nxt is None:
            # nested def inside a function body (e.g. update_nested.get_most_nested_subdict_with)
            for ch in ast.walk(node):
                if isinstance(ch, (ast.FunctionDef, ast.ClassDef)) and ch.name == p and ch is not node:
                    nxt = ch
                    break
        if nxt is None and p == "<lambda>":
            # the lambda of the enclosing function (exactly one, else ambiguous)
            lams = [ch for ch in ast.walk(node) if isinstance(ch, ast.Lambda)]
            if len(lams) == 1:
                # `lambda a: e` is `def <lambda>(a): return e`
                lam = lams[0]
                ret = ast.copy_location(ast.Return(value=lam.body), lam.body)
                nxt = ast.copy_location(ast.FunctionDef(name="<lambda>", args=lam.args, body=[ret], decorator_list=[],
                                                        returns=None, type_comment=None), lam)
                ast.fix_missing_locations(nxt)
        if nxt is None:
            raise KeyError("function %s not found" % qual)
        node = nxt
    return node


class ModuleCtx(object):
    """static view of one repository module: imports, module-level defs/classes/sentinels"""

    def __init__(self, relpath, world):
        self.relpath = relpath
        self.world = world
        path = os.path.join(REPO, relpath)
        self.src = open(path).read()
        self.sha = hashlib.sha256(self.src.encode()).hexdigest()[:16]
        self.tree = ast.parse(self.src)
        self.modname = relpath[:-3].replace("/", ".")
        if self.modname.endswith(".__init__"):
            self.modname = self.modname[:-9]
        self.pkg = self.modname.rsplit(".", 1)[0] if "." in self.modname else self.modname
        if relpath.endswith("__init__.py"):
            self.pkg = self.modname
        self.names = {}
        self._scan(self.tree.body)

    def _scan(self, body):
        for n in body:
            if isinstance(n, ast.Import):
                for a in n.names:
                    if a.asname:
                        self.names[a.asname] = ("module", a.name)
                    else:
                        self.names[a.name.split(".")[0]] = ("module", a.name.split(".")[0])
            elif isinstance(n, ast.ImportFrom):
                base = n.module or ""
                if n.level:
                    parts = self.pkg.split(".")
                    if n.level > 1:
                        parts = parts[:-(n.level - 1)]
                    base = ".".join(parts + ([n.module] if n.module else []))
                for a in n.names:
                    self.names[a.asname or a.name] = ("from", base, a.name)
            elif isinstance(n, ast.FunctionDef):
                self.names[n.name] = ("def", n.name)
            elif isinstance(n, ast.ClassDef):
                self.names[n.name] = ("class", n.name)
            elif isinstance(n, ast.Assign) and len(n.targets) == 1 and isinstance(n.targets[0], ast.Name):
                v = n.value
                if isinstance(v, ast.Call) and isinstance(v.func, ast.Name) and v.func.id == "object" and not v.args:
                    self.names[n.targets[0].id] = ("sentinel", n.targets[0].id)
                elif isinstance(v, ast.Constant):
                    self.names[n.targets[0].id] = ("const", v.value)
                elif isinstance(v, ast.Call) and isinstance(v.func, ast.Name) and v.func.id == "namedtuple" and len(v.args) == 2 \
                        and not v.keywords and all(isinstance(a, ast.Constant) and isinstance(a.value, str) for a in v.args) \
                        and self.names.get("namedtuple") == ("from", "collections", "namedtuple"):
                    # X = namedtuple("X", "a,b,c"): a tuple class with named positions
                    self.names[n.targets[0].id] = ("namedtuple", v.args[0].value, v.args[1].value.replace(",", " ").split())
            elif isinstance(n, (ast.If, ast.Try)):
                # conditional imports (python 2/3 compatibility): python 3 branch
                for sub in ast.iter_child_nodes(n):
                    if isinstance(sub, list):
                        continue
                # (`from future_builtins import zip`: a python-2-only module -- under python 3 the import fails and the
                # `except ImportError: pass` leaves the builtin in place)
                self._scan([x for x in ast.walk(n) if isinstance(x, (ast.Import, ast.ImportFrom))
                            and not (isinstance(x, ast.ImportFrom) and x.module == "future_builtins")])

    def resolve(self, name, interp):
        ent = self.names.get(name)
        if ent is None:
            return None
        kind = ent[0]
        if kind == "module":
            return Module(ent[1])
        if kind == "from":
            return self.world.module_attr(ent[1], ent[2], interp)
        if kind == "def":
            c = interp.contracts.by_key.get((self.relpath, name))
            if c is not None:
                return Fun("contract", contract=c)
            return Fun("moddef", name=name, mod=self)
        if kind == "class":
            return Fun("class", name=name, mod=self)
        if kind == "sentinel":
            return Sentinel(self.modname + "." + name)
        if kind == "const":
            return interp.const_sv(ent[1]) if not isinstance(ent[1], float) else None
        if kind == "namedtuple":
            return Fun("namedtuple", name=ent[1], fields=list(ent[2]))
        return None


class World(object):
    def __init__(self):
        self.modules = {}
        self.exc_bases = {}
        self._load_exceptions()

    def _load_exceptions(self):
        from .interp import BUILTIN_EXC
        for k, v in BUILTIN_EXC.items():
            self.exc_bases[k] = [v] if v else []
        path = os.path.join(REPO, "lena/core/exceptions.py")
        tree = ast.parse(open(path).read())
        for n in tree.body:
            if isinstance(n, ast.ClassDef):
                self.exc_bases[n.name] = [b.id if isinstance(b, ast.Name) else b.attr for b in n.bases]

    def is_exc(self, name):
        return name in self.exc_bases

    def is_subclass(self, cls, base):
        if cls == base:
            return True
        for b in self.exc_bases.get(cls, []):
            if self.is_subclass(b, base):
                return True
        return False

    def modctx(self, relpath):
        if relpath not in self.modules:
            self.modules[relpath] = ModuleCtx(relpath, self)
        return self.modules[relpath]

    def module_file(self, modname):
        p = modname.replace(".", "/")
        for cand in (p + ".py", p + "/__init__.py"):
            if os.path.exists(os.path.join(REPO, cand)):
                return cand
        return None

    def module_attr(self, modname, attr, interp):
        """static resolution of `<module>.<attr>`"""
        if self.is_exc(attr) and (modname.startswith("lena") or modname in ("exceptions",)
                                  or (modname == "decimal" and attr in ("Inexact", "DecimalException"))):
            return Fun("exc", name=attr)
        sub = self.module_file(modname + "." + attr)
        if sub is not None:
            # a package whose __init__ does `from .attr import attr` re-binds the name: the imported object shadows the
            # sub-module of the same name (lena.structures.histogram is the class, not the module)
            f0 = self.module_file(modname)
            ent0 = self.modctx(f0).names.get(attr) if f0 is not None and f0.endswith("__init__.py") else None
            if not (ent0 is not None and ent0[0] == "from" and ent0[1] == modname + "." + attr and ent0[2] == attr):
                return Module(modname + "." + attr)
        f = self.module_file(modname)
        if f is not None:
            mc = self.modctx(f)
            ent = mc.names.get(attr)
            if ent is not None:
                if ent[0] == "def":
                    c = interp.contracts.by_key.get((f, attr))
                    if c is not None:
                        return Fun("contract", contract=c)
                    c = interp.contracts.find(attr, f)
                    if c is not None:
                        return Fun("contract", contract=c)
                    return Fun("moddef", name=attr, mod=mc)
                if ent[0] == "class":
                    return Fun("class", name=attr, mod=mc)
                if ent[0] == "from":
                    return self.module_attr(ent[1], ent[2], interp)
                if ent[0] == "module":
                    return Module(ent[1])
                if ent[0] == "sentinel":
                    return Sentinel(mc.modname + "." + attr)
            # package __init__ re-exporting with star imports
            for n in mc.tree.body:
                if isinstance(n, ast.ImportFrom) and any(a.name == "*" for a in n.names):
                    base = n.module or ""
                    if n.level:
                        base = mc.pkg + ("." + n.module if n.module else "")
                    f2 = self.module_file(base)
                    if f2 and attr in self.modctx(f2).names:
                        return self.module_attr(base, attr, interp)
        # stdlib / third-party
        if any(isinstance(k, tuple) and k[0] == modname + "." + attr for k in interp.contracts.lib):
            return Module(modname + "." + attr)          # a stdlib sub-module with library contracts (os.path)
        lib = interp.contracts.lib.get((modname, attr)) or interp.contracts.lib.get(attr)
        if lib is not None:
            if not callable(lib):
                return lib          # a library CONSTANT (os.sep)
            return Fun("lib", name=attr, mod=modname, impl=lib)
        c = interp.contracts.find(attr)
        if c is not None and modname.startswith("lena"):
            return Fun("contract", contract=c)
        return Fun("external", name=attr, mod=modname)
