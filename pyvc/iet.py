"""Include / exclude trees (lena/context/include_exclude_tree.py) as VALUES of an SMT datatype.

    Tree    = mkT(t_incl : Bool, t_keys : (Array Key Bool), t_subs : (Array Key OptTree))
    OptTree = noT | someT(theT : Tree)

Python side:
  * `KeySet`  -- a set of strings as an immutable value, Opaque of sort (Array Key Bool): `k in s`, truth value, `==`;
  * `TreeMap` -- a dict from strings to trees as an immutable value, Opaque of sort (Array Key OptTree): `k in m`,
                 `m[k]` (KeyError when absent; the item is a Tree VALUE);
  * `Tree`    -- an IncludeExcludeTree instance as an immutable value, Opaque of sort Tree: the attributes include / keys /
                 subtrees read its components, a method name is looked up in the contracts of the class
                 IncludeExcludeTree and called with the value as `self`.
Everything else on these values (attribute stores, item stores, `is`, iteration, other methods) is refused with
Unsupported: a function verified with `self : Tree` is thereby proved not to change the tree, and identity of trees is
never decided.  An OBJECT of the class IncludeExcludeTree (ObjCell whose fields keys / subtrees / include hold such
values) conforms to a parameter of type `Tree` by its value mkT(include, keys, subtrees) -- sound for callees typed
that way because they cannot mutate it (see above) and cannot observe its identity."""
from .smt import T, TRUE, FALSE, NOT, AND, EQ
from .sym import Opaque, Bool, Ref, ObjCell, Fun

KSET = "(Array Key Bool)"
TMAP = "(Array Key OptTree)"
CLASS = "IncludeExcludeTree"
DECL = ("(declare-datatypes ((Tree 0) (OptTree 0)) (((mkT (t_incl Bool) (t_keys (Array Key Bool)) "
        "(t_subs (Array Key OptTree)))) ((noT) (someT (theT Tree)))))")
SORT_OF = {"Tree": "Tree", "KeySet": KSET, "TreeMap": TMAP}


def U(msg):
    from .interp import Unsupported
    return Unsupported(msg)


def declare_tree(reg):
    reg.need_val()
    if "Tree" not in reg.sorts:
        reg.sorts.update(("Tree", "OptTree"))
        reg.sort_decls.append(DECL)
        reg.need(KSET)
        reg.need(TMAP)


def make_value(ip, head, name, st):
    """Interp.make for the types Tree / KeySet / TreeMap: an arbitrary value of that sort"""
    declare_tree(ip.reg)
    return Opaque(ip.reg.new(name, SORT_OF[head]))


def empty_kset(ip):
    declare_tree(ip.reg)
    return T("((as const %s) false)" % KSET, KSET)


def empty_tmap(ip):
    declare_tree(ip.reg)
    return T("((as const %s) noT)" % TMAP, TMAP)


def is_tree_obj(ip, st, v):
    """an object of the class IncludeExcludeTree whose three fields hold values of the sorts above"""
    if not (isinstance(v, Ref) and not v.path and isinstance(st.heap.get(v.cid), ObjCell)):
        return False
    cell = st.heap[v.cid]
    cs = ip.contracts.classes.get(cell.cls)
    if cell.cls != CLASS and not (cs is not None and cs.alias_of == CLASS):
        return False
    f = cell.fields
    return (isinstance(f.get("include"), Bool) and isinstance(f.get("keys"), Opaque) and f["keys"].sort == KSET
            and isinstance(f.get("subtrees"), Opaque) and f["subtrees"].sort == TMAP)


def tree_term(ip, st, v):
    """the Tree term of a tree value or of a tree object (None: v is neither)"""
    if isinstance(v, Opaque) and v.sort == "Tree":
        return v.t
    if is_tree_obj(ip, st, v):
        declare_tree(ip.reg)
        f = st.heap[v.cid].fields
        return T("(mkT %s %s %s)" % (f["include"].t.s, f["keys"].t.s, f["subtrees"].t.s), "Tree")
    return None


def conform_value(ip, st, v, head):
    """calls.conform for the types Tree / KeySet / TreeMap; None = does not fit"""
    if isinstance(v, Opaque) and v.sort == SORT_OF[head]:
        return v
    if head == "KeySet" and kset_cell(st, v) is not None:
        # the VALUE the set object has now; from now on the object must not change (the callee may keep the object itself)
        c = st.heap[v.cid]
        st.heap[v.cid] = KeySetCell(c.term, frozen=True)
        return Opaque(c.term)
    if head == "Tree":
        t = tree_term(ip, st, v)
        if t is not None:
            return Opaque(t)
    return None


def tree_attr(ip, st, v, attr):
    """attribute `attr` of a tree value"""
    declare_tree(ip.reg)
    if attr == "include":
        return [(st, Bool(T("(t_incl %s)" % v.t.s, "Bool")))]
    if attr == "keys":
        return [(st, Opaque(T("(t_keys %s)" % v.t.s, KSET)))]
    if attr == "subtrees":
        return [(st, Opaque(T("(t_subs %s)" % v.t.s, TMAP)))]
    k = ip.contracts.find_method(CLASS, attr)
    if k is not None:
        return [(st, Fun("bound", contract=k, self_ref=v, name=attr))]
    raise U("attribute %s of an include/exclude tree value" % attr)


def contains(ip, st, a, b):
    """`a in b` for a KeySet / TreeMap value b or a set-of-strings object b (None: b is none of them)"""
    c = kset_cell(st, b)
    if c is not None:
        return T("(select %s %s)" % (c.term.s, ip.key_term(a).s), "Bool")
    if not isinstance(b, Opaque):
        return None
    if b.sort == KSET:
        return T("(select %s %s)" % (b.t.s, ip.key_term(a).s), "Bool")
    if b.sort == TMAP:
        return T("((_ is someT) (select %s %s))" % (b.t.s, ip.key_term(a).s), "Bool")
    return None


def index(ip, st, v, i):
    """v[i] for a TreeMap value v (None: v is none): KeyError when the key is absent, else the stored tree (a value)"""
    if not (isinstance(v, Opaque) and v.sort == TMAP):
        return None
    k = ip.key_term(i)
    has = T("((_ is someT) (select %s %s))" % (v.t.s, k.s), "Bool")
    if not ip.spec_mode and not ip.known(st, has):
        if ip.may_catch(st, "KeyError"):
            bad = st.fork(NOT(has), "ke.")
            ip.raise_(bad, "KeyError")
        else:
            ip.emit("safety", "key-present", st, has)
        st.assume(has)
    return [(st, Opaque(T("(theT (select %s %s))" % (v.t.s, k.s), "Tree")))]


def truth(ip, st, v):
    """truth value of a value of one of the three sorts (None: v is none of them)"""
    if not isinstance(v, Opaque):
        return None
    if v.sort == "Tree":
        return TRUE          # the class defines neither __bool__ nor __len__
    if v.sort == KSET:
        return NOT(EQ(v.t, empty_kset(ip)))
    if v.sort == TMAP:
        return NOT(EQ(v.t, empty_tmap(ip)))
    return None


# --------------------------------------------------------------------------- sets of strings as OBJECTS
from .sym import Cell


class KeySetCell(Cell):
    """a python set of strings created by the code under proof (`set(...)`): term of sort (Array Key Bool).  `frozen`: its
    value was handed out as an immutable KeySet value (conform): a later change of the object is refused"""

    def __init__(self, term, frozen=False):
        self.term, self.frozen = term, frozen

    def __repr__(self):
        return "KeySetCell(%s)" % self.term.s[:40]


def kset_cell(st, v):
    if isinstance(v, Ref) and not v.path and isinstance(st.heap.get(v.cid), KeySetCell):
        return st.heap[v.cid]
    return None


def set_of_keys(ip, st, view):
    """set(view) for a view of symbolic length whose items are strings: a new set object S with
    S[k] <=> k is one of the items; None when the items are not strings"""
    from .smt import I
    from .sym import Opaque as Opq, View
    if not ip.spec_mode and getattr(view, "lazy", False) and getattr(view, "get2", None) is not None:
        from .histlib import symbolic_listcomp      # one generic item is evaluated with its safety obligations
        lv = symbolic_listcomp(ip, st, st, view)
        view = ip.as_view(st, lv) if isinstance(lv, Ref) else lv
    if view.items is not None:
        return None
    sample = view.get(T("0", "Int"))
    if not (isinstance(sample, Opq) and sample.sort == "Key"):
        return None
    declare_tree(ip.reg)
    t = getattr(view, "term", None)
    lk = ip.reg.lst("Key")
    if t is None or t.sort != lk:
        from .calls import materialise
        t = materialise(ip, st, view, lk)
    s = ip.reg.new("keyset", KSET)
    q, k = "ks%d" % next(ip.bound), "ks%d" % next(ip.bound)
    item = ip.reg.l_get(t, T(q, "Int")).s
    n = ip.reg.l_len(t).s
    st.assume(T("(forall ((%s Int)) (! (=> (and (<= 0 %s) (< %s %s)) (select %s %s)) :pattern (%s)))"
                % (q, q, q, n, s.s, item, item), "Bool"))
    st.assume(T("(forall ((%s Key)) (! (=> (select %s %s) (exists ((%s Int)) (and (<= 0 %s) (< %s %s) (= %s %s)))) "
                ":pattern ((select %s %s))))" % (k, s.s, k, q, q, q, n, item, k, s.s, k), "Bool"))
    return [(st, ip.new_cell(st, KeySetCell(s)))]


def kset_term(ip, st, v):
    """(Array Key Bool) term of a KeySet value or a set-of-strings object; None otherwise"""
    if isinstance(v, Opaque) and v.sort == KSET:
        return v.t
    c = kset_cell(st, v)
    return c.term if c is not None else None


def assign_dictcomp(ip, s, st):
    """`name = {k: [] for k in <set of strings>}` for a local declared local_types={name: "KeyMap[T]"}: a new dict of lists
    whose keys are the members of the set, every list empty.  None: not this form"""
    import ast
    from .interp import parse_type
    from .keymap import KeyMapCell, vsort
    e = s.value
    name = s.targets[0].id
    head, args = parse_type(ip.c.local_types[name])
    if head != "KeyMap" or len(e.generators) != 1:
        return None
    g = e.generators[0]
    if g.ifs or g.is_async or not isinstance(g.target, ast.Name) or not isinstance(e.key, ast.Name) \
            or e.key.id != g.target.id or not (isinstance(e.value, ast.List) and not e.value.elts):
        return None
    outs = []
    for s2, src in ip.ev(g.iter, st):
        kt = kset_term(ip, s2, src)
        if kt is None:
            return None
        lsort = ip.lst_sort(args[0])
        empty = ip.reg.l_empty_canonical(lsort)
        val = T("((as const %s) %s)" % (vsort(lsort), empty.s), vsort(lsort))
        s2.env[name] = ip.new_cell(s2, KeyMapCell(kt, val, lsort))
        outs.append(("next", s2, None))
    return outs
