"""Counter-model -> concrete Python arguments -> replay on the real function under /venv/bin/python."""
import json
import os
import subprocess
from fractions import Fraction

from .sym import (Num, Bool, NoneV, Str, Opaque, Tup, Ref, View, LstCell, PyListCell, ObjCell, IterCell, Sentinel)
from .smt import I
from .solve import get_values
from .contracts import REPO

ROOT = os.path.dirname(os.path.dirname(os.path.abspath(__file__)))
CAP = 10


class NoConcrete(Exception):
    pass


def collect(u, v, st, terms):
    """returns a builder closure value-dict -> encoded json value; registers the smt terms it needs"""
    reg = u.reg
    if isinstance(v, Num):
        terms.append(v.t.s)
        return lambda vals, t=v.t.s: enc_num(vals[t])
    if isinstance(v, Bool):
        terms.append(v.t.s)
        return lambda vals, t=v.t.s: bool(vals[t])
    if isinstance(v, NoneV):
        return lambda vals: None
    if isinstance(v, Str):
        return lambda vals, s=v.s: s
    if isinstance(v, Sentinel):
        return lambda vals, n=v.name: {"sentinel": n}
    if isinstance(v, Tup):
        subs = [collect(u, x, st, terms) for x in v.items]
        return lambda vals: {"tuple": [s(vals) for s in subs]}
    if isinstance(v, Ref):
        cell = st.heap[v.cid]
        if isinstance(cell, LstCell):
            return collect_lst(u, cell.term, terms)
        if isinstance(cell, PyListCell):
            subs = [collect(u, x, st, terms) for x in cell.items]
            return lambda vals: [s(vals) for s in subs]
        if isinstance(cell, ObjCell):
            subs = {f: collect(u, x, st, terms) for f, x in cell.fields.items()}
            cs = u.ip.contracts.classes.get(cell.cls)
            real = cs.alias_of if cs is not None and cs.alias_of else cell.cls
            return lambda vals: {"obj": real, "file": cs.file if cs else None, "fields": {f: s(vals) for f, s in subs.items()}}
        if isinstance(cell, IterCell) and getattr(cell.src, "term", None) is not None:
            b = collect_lst(u, cell.src.term, terms)
            return lambda vals: {"iter": b(vals)}
    raise NoConcrete("cannot concretise %r" % (v,))


def collect_lst(u, t, terms, depth=0):
    reg = u.reg
    n = reg.l_len(t).s
    terms.append(n)
    el = reg.lst_elem[t.sort]
    subs = []
    for k in range(CAP if depth == 0 else 5):
        e = reg.l_get(t, I(k))
        if reg.is_lst(el):
            subs.append(collect_lst(u, e, terms, depth + 1))
        elif el in ("Int", "Real"):
            terms.append(e.s)
            subs.append(lambda vals, s=e.s: enc_num(vals[s]))
        elif el == "Bool":
            terms.append(e.s)
            subs.append(lambda vals, s=e.s: bool(vals[s]))
        else:
            raise NoConcrete("list of " + el)

    def build(vals):
        ln = vals[n]
        if not isinstance(ln, int) or ln < 0 or ln > len(subs):
            raise NoConcrete("list length %r outside the concretisation cap" % (ln,))
        return [subs[k](vals) for k in range(ln)]
    return build


def enc_num(x):
    if isinstance(x, bool):
        return x
    if isinstance(x, int):
        return x
    if isinstance(x, Fraction):
        if x.denominator == 1:
            return int(x)
        return {"frac": [x.numerator, x.denominator]}
    raise NoConcrete("non-numeric model value %r" % (x,))


def try_replay(u, r):
    """returns {'request':..., 'violates': bool, 'detail':...} or {'error':...}"""
    try:
        terms, builders = [], {}
        st = u.entry
        for name, v in u.params.items():
            builders[name] = collect(u, v, st, terms)
        terms = list(dict.fromkeys(terms))
        lens = [t for t in terms if t.startswith("(len_")]
        vals = None
        for cap in (3, 6, CAP, None):
            extra = ["(<= %s %d)" % (t, cap) for t in lens] if cap is not None else []
            vals = get_values(r.text, terms, extra=extra, timeout=10) if terms else {}
            if vals is not None:
                break
        if vals is None:
            return {"error": "no model returned for value extraction"}
        args = {n: b(vals) for n, b in builders.items()}
    except NoConcrete as e:
        return {"error": "model not concretisable: %s" % e}
    except Exception as e:
        return {"error": "concretisation failed: %s: %s" % (type(e).__name__, e)}
    case = u.case
    req = {"file": u.contract.file, "qual": u.contract.qual, "args": args, "order": list(u.params.keys()),
           "requires": case.requires, "ensures": case.ensures, "raises": case.raises, "generator": case.generator,
           "class_invariant": class_inv(u), "modifies": case.modifies,
           "vararg": getattr(case, "vararg", None), "kwarg": getattr(case, "kwarg", None)}
    out = run_native(req)
    out["request"] = req
    return out


def class_inv(u):
    names = list(u.params.keys())
    if not names:
        return []
    v = u.params[names[0]]
    if isinstance(v, Ref) and isinstance(u.entry.heap[v.cid], ObjCell):
        cs = u.ip.contracts.classes.get(u.entry.heap[v.cid].cls)
        if cs:
            return cs.invariant
    return []


def run_native(req):
    env = dict(os.environ)
    env["PYTHONPATH"] = REPO + os.pathsep + ROOT
    env["PYTHONDONTWRITEBYTECODE"] = "1"
    try:
        p = subprocess.run(["/venv/bin/python", "-W", "ignore", os.path.join(ROOT, "pyvc", "native.py")],
                           input=json.dumps(req), capture_output=True, text=True, env=env, timeout=60)
    except subprocess.TimeoutExpired:
        return {"violates": True, "detail": "the real function did not return within 60 s on the concrete input (non-termination)"}
    try:
        return json.loads(p.stdout.strip().split("\n")[-1])
    except Exception:
        return {"error": "native replay crashed: " + (p.stderr or p.stdout)[-500:]}
