"""SMT-LIB term construction, sort registry, script assembly.

Terms are s-expression strings tagged with a sort name.  Everything is emitted
as SMT-LIB 2.6 text so that z3 4.8 / z3 5.1 / cvc5 all read the same query and
the text itself is the evidence artefact.
"""
import itertools
import re
from fractions import Fraction


class T(object):
    __slots__ = ("s", "sort")

    def __init__(self, s, sort):
        self.s, self.sort = s, sort

    def __repr__(self):
        return self.s

    def __eq__(self, other):
        return isinstance(other, T) and self.s == other.s and self.sort == other.sort

    def __hash__(self):
        return hash((self.s, self.sort))


TRUE, FALSE = T("true", "Bool"), T("false", "Bool")


def I(n):
    n = int(n)
    return T(str(n) if n >= 0 else "(- %d)" % -n, "Int")


def R(x):
    f = Fraction(x)
    if f.denominator == 1:
        n = f.numerator
        return T("%d.0" % n if n >= 0 else "(- %d.0)" % -n, "Real")
    n, d = f.numerator, f.denominator
    return T("(/ %d.0 %d.0)" % (n, d) if n >= 0 else "(- (/ %d.0 %d.0))" % (-n, d), "Real")


def app(op, *args, **kw):
    sort = kw["sort"]
    return T("(%s %s)" % (op, " ".join(a.s for a in args)), sort)


def NOT(x):
    if x.s == "true":
        return FALSE
    if x.s == "false":
        return TRUE
    if x.s.startswith("(not ") and x.s.endswith(")") and _balanced(x.s[5:-1]):
        return T(x.s[5:-1], "Bool")
    return T("(not %s)" % x.s, "Bool")


def _balanced(s):
    d = 0
    for i, c in enumerate(s):
        if c == "(":
            d += 1
        elif c == ")":
            d -= 1
            if d == 0 and i != len(s) - 1:
                return False
            if d < 0:
                return False
        elif c == " " and d == 0:
            return False
    return d == 0


def AND(*xs):
    out = []
    for x in xs:
        if x.s == "true":
            continue
        if x.s == "false":
            return FALSE
        out.append(x)
    if not out:
        return TRUE
    if len(out) == 1:
        return out[0]
    return T("(and %s)" % " ".join(x.s for x in out), "Bool")


def OR(*xs):
    out = []
    for x in xs:
        if x.s == "false":
            continue
        if x.s == "true":
            return TRUE
        out.append(x)
    if not out:
        return FALSE
    if len(out) == 1:
        return out[0]
    return T("(or %s)" % " ".join(x.s for x in out), "Bool")


def IMP(a, b):
    if a.s == "true":
        return b
    if a.s == "false" or b.s == "true":
        return TRUE
    return T("(=> %s %s)" % (a.s, b.s), "Bool")


def ITE(c, a, b):
    if c.s == "true":
        return a
    if c.s == "false":
        return b
    if a.s == b.s:
        return a
    assert a.sort == b.sort, (a, a.sort, b, b.sort)
    return T("(ite %s %s %s)" % (c.s, a.s, b.s), a.sort)


def EQ(a, b):
    if a.sort != b.sort:
        if {a.sort, b.sort} == {"Int", "Real"}:
            a, b = to_real(a), to_real(b)
        else:
            raise TypeError("EQ on different sorts %s:%s %s:%s" % (a, a.sort, b, b.sort))
    if a.s == b.s:
        return TRUE
    return T("(= %s %s)" % (a.s, b.s), "Bool")


def to_real(t):
    if t.sort == "Real":
        return t
    assert t.sort == "Int", t.sort
    m = re.match(r"^(\d+)$", t.s)
    if m:
        return T(t.s + ".0", "Real")
    m = re.match(r"^\(- (\d+)\)$", t.s)
    if m:
        return T("(- %s.0)" % m.group(1), "Real")
    return T("(to_real %s)" % t.s, "Real")


def num2(a, b):
    if a.sort == b.sort:
        return a, b, a.sort
    return to_real(a), to_real(b), "Real"


def lit_int(t):
    """python int if the term is an integer literal else None"""
    if t.sort != "Int":
        return None
    if re.match(r"^\d+$", t.s):
        return int(t.s)
    m = re.match(r"^\(- (\d+)\)$", t.s)
    if m:
        return -int(m.group(1))
    return None


def ADD(a, b):
    a, b, s = num2(a, b)
    la, lb = lit_int(a), lit_int(b)
    if la is not None and lb is not None:
        return I(la + lb)
    if lb == 0:
        return a
    if la == 0:
        return b
    return T("(+ %s %s)" % (a.s, b.s), s)


def SUB(a, b):
    a, b, s = num2(a, b)
    la, lb = lit_int(a), lit_int(b)
    if la is not None and lb is not None:
        return I(la - lb)
    if lb == 0:
        return a
    return T("(- %s %s)" % (a.s, b.s), s)


def MUL(a, b):
    a, b, s = num2(a, b)
    la, lb = lit_int(a), lit_int(b)
    if la is not None and lb is not None:
        return I(la * lb)
    return T("(* %s %s)" % (a.s, b.s), s)


def NEG(a):
    la = lit_int(a)
    if la is not None:
        return I(-la)
    return T("(- %s)" % a.s, a.sort)


def CMP(op, a, b):
    a, b, _ = num2(a, b)
    la, lb = lit_int(a), lit_int(b)
    if la is not None and lb is not None:
        r = {"<": la < lb, "<=": la <= lb, ">": la > lb, ">=": la >= lb}[op]
        return TRUE if r else FALSE
    return T("(%s %s %s)" % (op, a.s, b.s), "Bool")


def _sexp_end(text, i):
    """index just after the s-expression (atom or parenthesised) that starts at text[i]"""
    if text[i] != "(":
        j = i
        while j < len(text) and not text[j].isspace() and text[j] not in "()":
            j += 1
        return j
    depth, j = 0, i
    while True:
        if text[j] == "(":
            depth += 1
        elif text[j] == ")":
            depth -= 1
            if depth == 0:
                return j + 1
        j += 1


def declare_only(defn):
    """(define-fun[-rec] f ((x S1) ...) R body)  ->  (declare-fun f (S1 ...) R)"""
    m = re.match(r"^\(define-fun(?:-rec)?\s+(\S+)\s+", defn)
    name, i = m.group(1), m.end()
    j = _sexp_end(defn, i)
    params = defn[i + 1:j - 1].strip()
    sorts, k = [], 0
    while k < len(params):
        if params[k].isspace():
            k += 1
            continue
        e = _sexp_end(params, k)            # one binder (x S)
        inner = params[k + 1:e - 1].strip()
        v_end = _sexp_end(inner, 0)
        sorts.append(inner[v_end:].strip())
        k = e
    r0 = j
    while defn[r0].isspace():
        r0 += 1
    res = defn[r0:_sexp_end(defn, r0)]
    return "(declare-fun %s (%s) %s)" % (name, " ".join(sorts), res)


# ---------------------------------------------------------------------------
class Registry(object):
    """Per-verification-unit declarations: sorts, constants, functions, axioms."""

    BASE = ("Int", "Real", "Bool")

    def __init__(self):
        self.fresh = itertools.count()
        self.sort_decls = []      # text, in order
        self.sorts = set(self.BASE)
        self.const_decls = []     # (name, sort)
        self.fun_decls = {}       # name -> text
        self.fun_order = []
        self.axioms = []          # global background axioms (T)
        self.lst_elem = {}        # Lst sort name -> elem sort
        self.key_consts = {}      # python str -> T (Key)
        self.val_used = False
        self.str_consts = {}

    # ---- sorts
    def usort(self, name):
        if name not in self.sorts:
            self.sorts.add(name)
            self.sort_decls.append("(declare-sort %s 0)" % name)
        return name

    def lst(self, elem):
        """sort of python lists with element sort `elem` (array + length)."""
        self.need(elem)
        name = "Lst_" + re.sub(r"[^A-Za-z0-9_]", "_", elem)
        if name not in self.sorts:
            self.sorts.add(name)
            self.lst_elem[name] = elem
            self.sort_decls.append(
                "(declare-datatypes ((%s 0)) (((mk_%s (arr_%s (Array Int %s)) (len_%s Int)))))"
                % (name, name, name, elem, name))
        return name

    def need(self, sort):
        if sort in self.sorts:
            return
        if sort.startswith("Lst_"):
            raise KeyError("list sort %s not registered" % sort)
        if sort in ("Val", "Opt"):
            self.need_val()
            return
        if sort.startswith("(Array "):
            for part in sort[7:-1].split():
                if not part.startswith("("):
                    self.need(part)
            self.sorts.add(sort)
            return
        self.usort(sort)

    def need_val(self):
        if self.val_used:
            return
        self.val_used = True
        self.usort("Key")
        self.sorts.update(("Val", "Opt"))
        self.sort_decls.append(
            "(declare-datatypes ((Val 0) (Opt 0)) (((S (sid Int)) (D (dm (Array Key Opt)))) ((none) (some (the Val)))))")
        self.fun_decl("truthy_s", "(declare-fun truthy_s (Int) Bool)")
        self.fun_decl("emptymap", "(define-fun emptymap () (Array Key Opt) ((as const (Array Key Opt)) none))")
        self.fun_decl("isD", "(define-fun isD ((x Val)) Bool ((_ is D) x))")
        self.fun_decl("vhas", "(define-fun vhas ((x Val) (k Key)) Bool (not (= (select (dm x) k) none)))")
        self.fun_decl("vget", "(define-fun vget ((x Val) (k Key)) Val (the (select (dm x) k)))")
        self.fun_decl("vtruthy", "(define-fun vtruthy ((x Val)) Bool (ite ((_ is D) x) (not (= (dm x) emptymap)) (truthy_s (sid x))))")

    def is_lst(self, sort):
        return sort in self.lst_elem

    # ---- consts / funs
    def new(self, base, sort):
        self.need(sort)
        base = re.sub(r"[|\\]", "_", base)
        n = "|%s!%d|" % (base, next(self.fresh))
        self.const_decls.append((n, sort))
        return T(n, sort)

    def fun_decl(self, name, text):
        if name not in self.fun_decls:
            self.fun_decls[name] = text
            self.fun_order.append(name)

    def ufun(self, name, argsorts, ressort):
        for s in list(argsorts) + [ressort]:
            self.need(s)
        self.fun_decl(name, "(declare-fun %s (%s) %s)" % (name, " ".join(argsorts), ressort))
        return name

    def key(self, s):
        """distinct Key constant for a concrete python string"""
        self.need_val()
        if s not in self.key_consts:
            n = "|key:%s|" % re.sub(r"[|\\]", "_", s)
            self.key_consts[s] = T(n, "Key")
        return self.key_consts[s]

    # ---- list helpers
    def l_len(self, t):
        m = re.match(r"^\(mk_%s (.*) ([^ ()]+|\([^()]*\))\)$" % re.escape(t.sort), t.s)
        return T("(len_%s %s)" % (t.sort, t.s), "Int")

    def l_arr(self, t):
        return T("(arr_%s %s)" % (t.sort, t.s), "(Array Int %s)" % self.lst_elem[t.sort])

    def l_get(self, t, i):
        return T("(select (arr_%s %s) %s)" % (t.sort, t.s, i.s), self.lst_elem[t.sort])

    def l_mk(self, sort, arr, n):
        return T("(mk_%s %s %s)" % (sort, arr.s if isinstance(arr, T) else arr, n.s), sort)

    def l_set(self, t, i, v):
        return T("(mk_%s (store (arr_%s %s) %s %s) (len_%s %s))" % (t.sort, t.sort, t.s, i.s, v.s, t.sort, t.s), t.sort)

    def l_append(self, t, v):
        return T("(mk_%s (store (arr_%s %s) (len_%s %s) %s) (+ (len_%s %s) 1))"
                 % (t.sort, t.sort, t.s, t.sort, t.s, v.s, t.sort, t.s), t.sort)

    def l_empty_canonical(self, sort):
        """THE canonical term of the empty list of this sort (constant array of a fixed default element, length 0): lists
        built from it by appends are structurally equal whenever their items are"""
        el = self.lst_elem[sort]
        d = "|dflt:%s|" % el
        if not any(n == d for n, _ in self.const_decls):
            self.need(el)
            self.const_decls.append((d, el))
        return T("(mk_%s ((as const (Array Int %s)) %s) 0)" % (sort, el, d), sort)

    def l_empty(self, sort):
        e = self.new("empty", "(Array Int %s)" % self.lst_elem[sort]) if False else None
        a = self.new("emptyarr", sort)
        # an empty list: any array, length 0
        self.axioms.append(EQ(self.l_len(a), I(0)))
        return a

    # ---- script
    def script(self, hyps, goal, extra_decls=(), get_model=False, logic=None):
        lines = []
        if get_model:
            lines.append("(set-option :produce-models true)")
        if logic:
            lines.append("(set-logic %s)" % logic)
        lines += self.sort_decls
        lines += [self.fun_decls[n] for n in self.fun_order if not self.fun_decls[n].startswith("(define-fun")]
        for n, s in self.const_decls:
            lines.append("(declare-const %s %s)" % (n, s))
        for k, t in self.key_consts.items():
            lines.append("(declare-const %s Key)" % t.s)
        defs = [n for n in self.fun_order if self.fun_decls[n].startswith("(define-fun")]
        if getattr(self, "prune_defs", False):
            # keep a definition only if the query (axioms, hypotheses, goal, extra declarations) or a kept definition uses it
            used = " ".join([a.s for a in self.axioms] + [h.s for h in hyps] + ([goal.s] if goal is not None else [])
                            + list(extra_decls))
            keep, changed = set(), True
            while changed:
                changed = False
                for n in defs:
                    if n not in keep and re.search(r"(?<![A-Za-z0-9_!|.$])%s(?![A-Za-z0-9_!|.$])" % re.escape(n), used):
                        keep.add(n)
                        used += " " + self.fun_decls[n].split(None, 2)[2]
                        changed = True
            defs = [n for n in defs if n in keep]
        opaque = getattr(self, "opaque_defs", None) or ()
        lines += [declare_only(self.fun_decls[n]) for n in defs if n in opaque]
        lines += [self.fun_decls[n] for n in defs if n not in opaque]
        lines += list(extra_decls)
        if len(self.key_consts) > 1:
            lines.append("(assert (distinct %s))" % " ".join(t.s for t in self.key_consts.values()))
        for a in self.axioms:
            lines.append("(assert %s)" % a.s)
        for h in hyps:
            if h.s != "true":
                lines.append("(assert %s)" % h.s)
        if goal is not None:
            lines.append("(assert (not %s))" % goal.s)
        lines.append("(check-sat)")
        return "\n".join(lines) + "\n"
