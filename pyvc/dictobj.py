"""Dictionaries as OBJECTS with aliases (opt-in per contract: Contract(ghost={"dict_objects": True})), and lists of strings
stored inside context dictionaries.

The base encoding (pyvc/dicts.py) denotes a nested dictionary by ONE term of sort Val held in a root cell; a reference to
an inner dictionary is a (cell, key path) pair, i.e. a POSITION.  That is exact as long as a function only reads, or
stores through one name.  A function such as Variable._update_context keeps names for inner dictionaries and lists
(`cvar = context.get("variable")`, `composed = cvar["compose"]`), then re-binds the key they were found under
(`context["variable"] = var_context`), mutates through the old names and moves the objects to other dictionaries.  For
such functions this module gives every inner object that the code takes a reference to a HOME CELL of its own:

  child_ref    `d[k]` / `d.get(k)` on a dictionary object: the item gets a home cell X (term: the item's value) and the link
               "X is the object found in d under k" is recorded; the result is Ref(X).  Reading the same item again gives
               the same cell.
  store        `d[k] = v`: links of d under k are cut (the old object lives on in its home cell); if v is itself a
               dictionary / list object its cell is linked under d[k] -- an object may have several parents (sharing).
  propagation  every change of a home cell is copied into the terms of the cells it is linked under (Interp.store ->
               after_store), so that the term of a root cell always is the current deep VALUE of the dictionary: equality,
               frames and postconditions keep reading plain terms.

What cannot be tracked is refused (Unsupported), never guessed:
  * keys are compared by form: equal terms = same key, two string constants = different keys, anything else MAY be the
    same key.  A store under a key that may be the key of a link makes that link `stale` and FREEZES the linked object:
    a frozen object (and everything below it) must not be mutated any more (Unsupported), so nobody can observe that the
    engine no longer knows where it is linked.  A read at a stale / ambiguous position yields a frozen cell.
  * loops cut at invariants forget the links made in earlier iterations.  Therefore, in the body of a cut loop, a
    reference newly taken is frozen, an object that existed before the loop can be stored into a dictionary only if it is
    frozen, and from the first loop head on every reference newly taken from an object that existed at that head is
    frozen (its items may be shared by links the cut has forgotten).  Objects the body mutates are havocked at the head as
    before; the objects linked below them are frozen, and get unknown values if the body mutates at depth.
  * a store through a position reference (non-empty path) into a cell that takes part in links is refused.

Lists inside contexts: a python list of STRINGS stored into a context dictionary is the context value klist_as_val(l),
l of sort Lst_Key (finite lists of strings are countably many: the embedding into the scalar values of Val is injective
up to the length of the list, axioms K1-K3 below).  Lists of other values are not modelled (obligation
`context-list-item-is-a-string`)."""
import ast

from .smt import T, TRUE, FALSE, I, NOT, AND, OR, IMP, EQ, ITE, ADD, CMP
from .sym import (Num, Bool, NoneV, NONE, Str, Opaque, Tup, Ref, View, Fun, ValCell, LstCell, PyListCell, PyDictCell, State)


def U(msg):
    from .interp import Unsupported
    return Unsupported(msg)


def on(ip):
    return ip.c is not None and bool(ip.c.ghost.get("dict_objects")) and not ip.spec_mode


# ----------------------------------------------------------------------------------------------- bookkeeping (immutable)
class Links(object):
    """links: tuple of (child cid, parent cid, key term, status 'live'|'stale');  frozen, kids_frozen: frozensets of cids"""

    def __init__(self, links=(), frozen=frozenset(), kids_frozen=frozenset()):
        self.links, self.frozen, self.kids_frozen = tuple(links), frozenset(frozen), frozenset(kids_frozen)

    def involved(self, cid):
        return any(c == cid or p == cid for c, p, _, _ in self.links)

    def children(self, cid):
        return [l for l in self.links if l[1] == cid]

    def parents(self, cid):
        return [l for l in self.links if l[0] == cid]


def get(st):
    return st.notes.get("dobj") or Links()


def put(st, d):
    st.notes["dobj"] = d


def is_const(k):
    return k.s.startswith("|key:")


def key_rel(a, b):
    if a.s == b.s:
        return "same"
    if is_const(a) and is_const(b):
        return "distinct"
    return "maybe"


def in_cut_loop(st):
    return st.notes.get("dobj_cutloops", 0) > 0


def cell_no(cid):
    return int(cid[1:])


def freeze(st, cid):
    """cid and every object linked below it may not be mutated any more"""
    d = get(st)
    todo, fr = [cid], set(d.frozen)
    while todo:
        x = todo.pop()
        if x in fr:
            continue
        fr.add(x)
        todo += [c for c, p, _, _ in d.links if p == x]
    put(st, Links(d.links, fr, d.kids_frozen))


def is_frozen(st, cid):
    return cid in get(st).frozen


# ----------------------------------------------------------------------------------------------- references to items
def child_ref(ip, st, pref, k):
    """the object found under key k (a Key term; the key is present) in the dictionary object pref (a root reference)"""
    d = get(st)
    P = pref.cid
    frozen_new = P in d.frozen or P in d.kids_frozen or in_cut_loop(st)
    for c, p, key, status in d.links:
        if p != P:
            continue
        rel = key_rel(key, k)
        if rel == "same":
            if status == "live":
                return Ref(c)
            frozen_new = True
        elif rel == "maybe":
            # the item may be the very object of this link: both stay immutable from now on
            freeze(st, c)
            frozen_new = True
    cur = ip.deref(st, pref)
    r = ip.new_cell(st, ValCell(T("(vget %s %s)" % (cur.s, k.s), "Val")))
    d = get(st)
    put(st, Links(d.links + ((r.cid, P, k, "live"),), d.frozen, d.kids_frozen))
    if frozen_new:
        freeze(st, r.cid)
        d = get(st)
        put(st, Links(d.links, d.frozen, d.kids_frozen | {r.cid}))
    return r


def is_root_dict(st, v):
    return isinstance(v, Ref) and not v.path and isinstance(st.heap.get(v.cid), ValCell)


def check_store(ip, st, ref):
    """Interp.store on a Val cell: refuse what the links cannot follow"""
    d = get(st)
    if ref.path:
        if d.involved(ref.cid):
            raise U("store through a position reference into a dictionary object with tracked aliases")
        return
    if ref.cid in d.frozen and not getattr(ip, "_dobj_internal", False):
        raise U("mutation of a dictionary / list object whose aliases are not tracked any more (frozen)")


def after_store(ip, st, cid):
    """the term of cell cid changed: copy the new value into the terms of the cells it is linked under"""
    d = get(st)
    seen = set()
    todo = [cid]
    while todo:
        x = todo.pop()
        if x in seen:
            continue
        seen.add(x)
        xt = st.heap[x].term
        for c, p, key, status in d.links:
            if c != x or status != "live":
                continue
            pt = st.heap[p].term
            st.heap[p] = ValCell(T("(D (store (dm %s) %s (some %s)))" % (pt.s, key.s, xt.s), "Val"))
            todo.append(p)


def cut_children(ip, st, P, k):
    """the binding of key k in object P is replaced (k None: every binding): links under it end; links under keys that
    may be k become stale and their objects frozen"""
    d = get(st)
    keep, to_freeze = [], []
    for l in d.links:
        c, p, key, status = l
        if p != P:
            keep.append(l)
            continue
        rel = "same" if k is None else key_rel(key, k)
        if rel == "same":
            continue
        if rel == "maybe":
            keep.append((c, p, key, "stale"))
            to_freeze.append(c)
        else:
            keep.append(l)
    put(st, Links(keep, d.frozen, d.kids_frozen))
    for c in to_freeze:
        freeze(st, c)


def ancestors(st, cid):
    d = get(st)
    out, todo = set(), [cid]
    while todo:
        x = todo.pop()
        for c, p, _, _ in d.links:
            if c == x and p not in out:
                out.add(p)
                todo.append(p)
    return out


def store_hook(ip, st, base, k, v):
    """`base[k] = v` on a Val cell (called by dicts.val_store before the new term is built)"""
    d = get(st)
    if base.path:
        if d.involved(base.cid) or (isinstance(v, Ref) and isinstance(st.heap.get(v.cid), ValCell) and d.involved(v.cid)):
            raise U("store through a position reference into a dictionary object with tracked aliases")
        return
    P = base.cid
    if P in d.frozen:
        raise U("store into a dictionary object whose aliases are not tracked any more (frozen)")
    cut_children(ip, st, P, k)
    if isinstance(v, Ref) and isinstance(st.heap.get(v.cid), (PyListCell, LstCell)) and not v.path:
        list_to_home(ip, st, v)
    if isinstance(v, Ref) and isinstance(st.heap.get(v.cid), ValCell):
        if v.path:
            if get(st).involved(v.cid):
                raise U("a position reference into a dictionary object with tracked aliases is stored into a dictionary")
            return
        X = v.cid
        if X == P or X in ancestors(st, P):
            raise U("a dictionary is stored into itself")
        if in_cut_loop(st) and not is_frozen(st, X):
            if cell_no(X) <= st.notes.get("dobj_epoch", 0):
                raise U("a loop body stores a mutable dictionary object that existed before the loop into a dictionary")
            freeze(st, X)
        d = get(st)
        put(st, Links(d.links + ((X, P, k, "live"),), d.frozen, d.kids_frozen))


def shared_items(ip, st, recv, arg):
    """recv.update(arg): the objects stored in arg are stored in recv as well (under keys the engine does not enumerate):
    they are frozen, and references taken later from either dictionary are frozen"""
    d = get(st)
    kf = set(d.kids_frozen)
    if isinstance(recv, Ref):
        kf.add(recv.cid)
    cell = st.heap.get(arg.cid)
    kids = []
    if isinstance(cell, ValCell):
        if arg.path:
            if d.involved(arg.cid):
                raise U("update from a position reference into a dictionary object with tracked aliases")
        else:
            kf.add(arg.cid)
            kids = [c for c, p, _, _ in d.links if p == arg.cid]
    elif isinstance(cell, PyDictCell):
        kids = [x.cid for x in cell.items.values() if isinstance(x, Ref) and isinstance(st.heap.get(x.cid), ValCell)]
    put(st, Links(d.links, d.frozen, kf))
    for c in kids:
        freeze(st, c)


def havoc_hook(ip, st, ref, deep):
    """the content of the Val cell ref is about to be replaced by unknown content (loop head, frame of a callee)"""
    d = get(st)
    if ref.path:
        if d.involved(ref.cid):
            raise U("havoc through a position reference into a dictionary object with tracked aliases")
        return
    P = ref.cid
    kids = [c for c, p, _, _ in d.links if p == P]
    put(st, Links([(c, p, key, "stale" if p == P else status) for c, p, key, status in d.links], d.frozen,
                  d.kids_frozen | {P}))
    todo = list(kids)
    seen = set()
    while todo:
        c = todo.pop()
        if c in seen:
            continue
        seen.add(c)
        freeze(st, c)
        if deep:
            st.heap[c] = ValCell(ip.reg.new("hv_child", "Val"))
            dd = get(st)
            put(st, Links([(c2, p2, key, "stale" if p2 == c else status) for c2, p2, key, status in dd.links], dd.frozen,
                          dd.kids_frozen | {c}))
            after_store(ip, st, c)          # (the object may be linked under other dictionaries as well)
            todo += [c2 for c2, p2, _, _ in dd.links if p2 == c]


def loop_head(ip, h):
    """head of a loop cut at its invariant (after the havoc): links made by earlier iterations are forgotten"""
    if not (ip.c is not None and ip.c.ghost.get("dict_objects")):
        return
    d = get(h)
    vals = {cid for cid, cell in h.heap.items() if isinstance(cell, ValCell)}
    put(h, Links(d.links, d.frozen, d.kids_frozen | vals))
    if not in_cut_loop(h):
        h.notes["dobj_epoch"] = getattr(ip, "n_cells", 0)


def enter_body(ip, st):
    if ip.c is not None and ip.c.ghost.get("dict_objects"):
        st.notes["dobj_cutloops"] = st.notes.get("dobj_cutloops", 0) + 1


def leave_body(ip, st):
    if ip.c is not None and ip.c.ghost.get("dict_objects"):
        st.notes["dobj_cutloops"] = max(0, st.notes.get("dobj_cutloops", 0) - 1)


def check_iterated(ip, k, st):
    """a loop over a list stored in a context iterates a snapshot of its items: the list must not change meanwhile"""
    from .dicts import dterm
    itv, then = st.notes["dobj_iterated_%s" % k]
    if dterm(ip, st, itv).s != then:
        raise U("loop #%s changes the list (stored in a context) that it iterates" % k)


def deep_cells(ip, h, pending, deep_nodes):
    """cells whose content a loop body changes below the object itself (`x[a][b] = ..`, `x[a].append(..)`, a callee)"""
    out = set()
    for kind, v, attr in pending:
        if kind != "content" or not isinstance(v, Ref):
            continue
        if not isinstance(attr, tuple) or id(attr[1]) in deep_nodes:
            out.add(v.cid)
    return out


# ----------------------------------------------------------------------------------------------- lists of strings
K_DOC = """klist_as_val : Lst_Key -> Val, val_as_klist : Val -> Lst_Key, is_list_Val : Val -> Bool, klist_cat : Lst_Key Lst_Key -> Lst_Key
   K1  val_as_klist(klist_as_val(l)) has the length and the items of l               (l of non-negative length)
   K2  klist_as_val(l) is no dictionary; its truth value is len(l) > 0
   K3  klist_as_val(l) is a python list
   K4  val_as_klist(x) has a non-negative length
   K5  klist_cat(a, b) has length len(a) + len(b), the items of a, then the items of b   (a, b of non-negative length)
   K6  klist_as_val(val_as_klist(klist_as_val(l))) = klist_as_val(l)  (the value depends on length and items only)
Intended model: Key = python strings, the scalar ids of Val enumerate python scalars, strings and finite lists of strings
(countably many), klist_as_val(l) = the id of the list l[0..len(l)), val_as_klist picks one representative.
The axioms are used as INSTANCES at the terms the engine builds (hypotheses of the path: queries stay in a fragment the
solvers also find counter-models in); where a term contains a bound variable of a clause the quantified axioms are added."""

K1 = ("(=> (>= (len_{ls} {l}) 0) (and (= (len_{ls} (val_as_klist (klist_as_val {l}))) (len_{ls} {l})) "
      "(forall ((i Int)) (! (=> (and (<= 0 i) (< i (len_{ls} {l}))) (= (select (arr_{ls} (val_as_klist (klist_as_val {l}))) i) "
      "(select (arr_{ls} {l}) i))) :pattern ((select (arr_{ls} (val_as_klist (klist_as_val {l}))) i))))))")
K2 = "(and (not (isD (klist_as_val {l}))) (= (truthy_s (sid (klist_as_val {l}))) (> (len_{ls} {l}) 0)))"
K3 = "(is_list_Val (klist_as_val {l}))"
K4 = "(>= (len_{ls} (val_as_klist {x})) 0)"
K5 = ("(=> (and (>= (len_{ls} {a}) 0) (>= (len_{ls} {b}) 0)) "
      "(and (= (len_{ls} (klist_cat {a} {b})) (+ (len_{ls} {a}) (len_{ls} {b}))) "
      "(forall ((i Int)) (! (and (=> (and (<= 0 i) (< i (len_{ls} {a}))) (= (select (arr_{ls} (klist_cat {a} {b})) i) (select (arr_{ls} {a}) i))) "
      "(=> (and (<= (len_{ls} {a}) i) (< i (+ (len_{ls} {a}) (len_{ls} {b})))) "
      "(= (select (arr_{ls} (klist_cat {a} {b})) i) (select (arr_{ls} {b}) (- i (len_{ls} {a})))))) "
      ":pattern ((select (arr_{ls} (klist_cat {a} {b})) i))))))")
K6 = "(= (klist_as_val (val_as_klist (klist_as_val {l}))) (klist_as_val {l}))"


def klist_decl(ip):
    reg = ip.reg
    reg.need_val()
    ls = reg.lst("Key")
    if getattr(reg, "_klist", False):
        return ls
    reg._klist = True
    reg.ufun("klist_as_val", [ls], "Val")
    reg.ufun("val_as_klist", ["Val"], ls)
    reg.ufun("is_list_Val", ["Val"], "Bool")
    reg.ufun("klist_cat", [ls, ls], ls)
    return ls


def klist_quantified(ip):
    """the axioms K1-K6 with their quantifiers (needed only where an instance cannot be stated: bound variables)"""
    reg = ip.reg
    ls = klist_decl(ip)
    if getattr(reg, "_klist_q", False):
        return
    reg._klist_q = True
    for body, pat in ((K1, "(klist_as_val l)"), (K2, "(klist_as_val l)"), (K3, "(klist_as_val l)"), (K6, "(klist_as_val l)")):
        reg.axioms.append(T("(forall ((l %s)) (! %s :pattern (%s)))" % (ls, body.format(ls=ls, l="l"), pat), "Bool"))
    reg.axioms.append(T("(forall ((x Val)) (! %s :pattern ((val_as_klist x))))" % K4.format(ls=ls, x="x"), "Bool"))
    reg.axioms.append(T("(forall ((a %s) (b %s)) (! %s :pattern ((klist_cat a b))))" % (ls, ls, K5.format(ls=ls, a="a", b="b")), "Bool"))


def _facts(ip, st, arg_texts, texts):
    """instances of the axioms at terms just built: hypotheses of the current path.  An argument that mentions a bound
    variable of an enclosing quantifier of the clause (ak3, q7, ...) has no ground instance: the quantified axioms are used"""
    import re
    bound = any(re.search(r"(?<![|!\w])(ak|q|uk|sk|mk|wf|xi)\d+(?![\w!|])", re.sub(r"\|[^|]*\|", "", a)) for a in arg_texts)
    if st is None or bound:
        klist_quantified(ip)
        return
    for text in texts:
        ax = T(text, "Bool")
        if not any(h.s == ax.s for h in st.pc):
            st.pc.append(ax)


K1C = "(= (val_as_klist (klist_as_val {l})) {l})"


def canonical(ip, l):
    """is the list term l (text) one of the canonical representatives by the way it is built?  The representative of a
    list of strings has a fixed default item beyond its length: the canonical empty list, an append to a canonical list,
    the result of val_as_klist (the representative the intended model picks) and of klist_cat (defined only up to the
    length by K5: its intended value is the representative).  For these val_as_klist(klist_as_val(l)) IS l."""
    ls = klist_decl(ip)
    l = l.strip()
    while True:
        if l.startswith("(val_as_klist ") or l.startswith("(klist_cat "):
            return True
        if l == ip.reg.l_empty_canonical(ls).s:
            return True
        m = "(mk_%s (store (arr_%s " % (ls, ls)
        if not l.startswith(m):
            return False
        # (mk_L (store (arr_L T) (len_L T) v) (+ (len_L T) 1)): an append to T
        rest = l[len(m):]
        depth, end = 0, None
        if rest.startswith("("):
            for i, ch in enumerate(rest):
                if ch == "(":
                    depth += 1
                elif ch == ")":
                    depth -= 1
                    if depth == 0:
                        end = i + 1
                        break
        else:
            end = rest.find(")")
        if end is None or end <= 0:
            return False
        inner = rest[:end]
        if not rest[end:].startswith(") (len_%s %s) " % (ls, inner)) or not l.endswith("(+ (len_%s %s) 1))" % (ls, inner)):
            return False
        l = inner


def inst_list(ip, st, l):
    """facts about klist_as_val(l) (l: text of a Lst_Key term)"""
    ls = klist_decl(ip)
    if canonical(ip, l):
        _facts(ip, st, [l], [x.format(ls=ls, l=l) for x in (K1C, K2, K3)])
    else:
        _facts(ip, st, [l], [x.format(ls=ls, l=l) for x in (K1, K2, K3, K6)])


def inst_val(ip, st, x):
    """facts about val_as_klist(x) (x: text of a Val term)"""
    ls = klist_decl(ip)
    _facts(ip, st, [x], [K4.format(ls=ls, x=x)])


def klist_cat(ip, st, a, b):
    """a ++ b for lists of strings: an uninterpreted function with its definition (K5: length and items)"""
    ls = klist_decl(ip)
    _facts(ip, st, [a.s, b.s], [K5.format(ls=ls, a=a.s, b=b.s)])
    return T("(klist_cat %s %s)" % (a.s, b.s), ls)


def klist_of(ip, st, t):
    """Lst_Key term of the list the context value t is"""
    ls = klist_decl(ip)
    pre = "(klist_as_val "
    if t.s.startswith(pre) and t.s.endswith(")"):
        # t is ONE application klist_as_val(X): X itself has the length and the items of the list (K1; X is built from
        # lists of non-negative length)
        return T(t.s[len(pre):-1], ls)
    inst_val(ip, st, t.s)
    return T("(val_as_klist %s)" % t.s, ls)


def is_klist(ip, st, t):
    ls = klist_decl(ip)
    if t.s.startswith("(klist_as_val "):
        return TRUE
    inst_val(ip, st, t.s)
    inst_list(ip, st, "(val_as_klist %s)" % t.s)
    return EQ(t, T("(klist_as_val (val_as_klist %s))" % t.s, "Val"))


def is_list_val(ip, st, t):
    klist_decl(ip)
    if t.s.startswith("(klist_as_val "):
        return TRUE
    return T("(is_list_Val %s)" % t.s, "Bool")


def mk_klist(ip, st, lt):
    klist_decl(ip)
    inst_list(ip, st, lt.s)
    return T("(klist_as_val %s)" % lt.s, "Val")


def val_is_str(ip, st, t):
    """Bool term: the context value t is a string, i.e. the embedding key_as_val of the string val_as_key(t).  (No
    quantified axiom: val_as_key inverts key_as_val -- stated as an instance for embeddings of known strings.)"""
    reg = ip.reg
    reg.need_val()
    reg.ufun("key_as_val", ["Key"], "Val")
    reg.ufun("val_as_key", ["Val"], "Key")
    pre = "(key_as_val "
    if t.s.startswith(pre) and t.s.endswith(")"):
        k = t.s[len(pre):-1]
        _facts(ip, st, [k], ["(= (val_as_key (key_as_val %s)) %s)" % (k, k)])
        return TRUE
    return EQ(t, T("(key_as_val (val_as_key %s))" % t.s, "Val"))


def embed_instance(ip, st, k):
    """a string k (Key term) is embedded into a context value (dicts.scalar): val_as_key inverts the embedding -- added as an
    instance (hypothesis of the path) for contracts with ghost={"str_instances": True}, which speak about is_str(...)"""
    if st is not None and ip.c is not None and ip.c.ghost.get("str_instances"):
        ip.reg.ufun("val_as_key", ["Val"], "Key")
        _facts(ip, st, [k.s], ["(= (val_as_key (key_as_val %s)) %s)" % (k.s, k.s)])


def val_str_key(ip, st, t):
    reg = ip.reg
    reg.need_val()
    reg.ufun("key_as_val", ["Key"], "Val")
    reg.ufun("val_as_key", ["Val"], "Key")
    pre = "(key_as_val "
    if t.s.startswith(pre) and t.s.endswith(")"):
        return T(t.s[len(pre):-1], "Key")
    return T("(val_as_key %s)" % t.s, "Key")


def item_key(ip, st, v, what):
    """a value that becomes an item of a list stored in a context: it must be a string (modelling restriction -> obligation)"""
    from .dicts import dterm
    if isinstance(v, Str):
        return ip.reg.key(v.s)
    if isinstance(v, Opaque) and v.sort == "Key":
        return v.t
    t = dterm(ip, st, v)
    isstr = val_is_str(ip, st, t)
    if not ip.spec_mode and not ip.known(st, isstr):
        ip.emit("safety", "context-list-item-is-a-string (%s)" % what, st, isstr)
        st.assume(isstr)
    return val_str_key(ip, st, t)


def list_term(ip, st, v, what="list display"):
    """Lst_Key term of a python list object / sequence of strings"""
    ls = klist_decl(ip)
    reg = ip.reg
    if isinstance(v, Ref) and isinstance(st.heap[v.cid], LstCell):
        t = ip.deref(st, v)
        if t.sort == ls:
            return t
        raise U("a list of %s stored into a context dictionary" % t.sort)
    if isinstance(v, View) and getattr(v, "term", None) is not None and v.term.sort == ls:
        return v.term
    view = ip.as_view(st, v)
    if view.items is None:
        raise U("a sequence of symbolic length stored into a context dictionary")
    t = reg.l_empty_canonical(ls)
    for x in view.items:
        t = reg.l_append(t, item_key(ip, st, x, what))
    return t


def list_to_home(ip, st, v):
    """a python list object that is stored into a context dictionary: from now on its cell holds the context VALUE of the
    list (every reference to the list object keeps denoting it)"""
    st.heap[v.cid] = ValCell(mk_klist(ip, st, list_term(ip, st, v)))


def list_value(ip, st, v):
    """dicts.dterm of a python list / tuple value (None: not a list)"""
    if isinstance(v, Ref) and isinstance(st.heap.get(v.cid), (PyListCell, LstCell)) and not v.path:
        return mk_klist(ip, st, list_term(ip, st, v))
    return None


def need_klist(ip, st, t, what):
    g = is_klist(ip, st, t)
    if g.s != "true" and not ip.spec_mode and not ip.known(st, g):
        ip.emit("safety", "%s: the context value is a list of strings" % what, st, g)
        st.assume(g)


def list_method(ip, st, recv, name, pos, kws):
    """append / extend on a list that lives inside a context dictionary"""
    from .dicts import dterm
    reg = ip.reg
    ls = klist_decl(ip)
    cur = dterm(ip, st, recv)
    need_klist(ip, st, cur, "." + name)
    lt = klist_of(ip, st, cur)
    if name == "append":
        new = reg.l_append(lt, item_key(ip, st, pos[0], "append"))
    elif name == "extend":
        a = pos[0]
        if (isinstance(a, Ref) and isinstance(st.heap[a.cid], ValCell)) or (isinstance(a, Opaque) and a.sort == "Val"):
            at = dterm(ip, st, a)
            need_klist(ip, st, at, ".extend argument")
            al = klist_of(ip, st, at)
        else:
            al = list_term(ip, st, a, "extend")
        new = klist_cat(ip, st, lt, al)
    else:
        raise U("list method %s on a list stored in a context" % name)
    if not isinstance(recv, Ref):
        raise U("mutation of a list value that is not an object")
    ip.store(st, recv, mk_klist(ip, st, new))
    return [(st, NONE)]


def klist_view(ip, st, t):
    v = ip.lst_view(klist_of(ip, st, t))
    return v


# ----------------------------------------------------------------------------------------------- specification functions
def sp_klist(ip, st, pos, kws):
    """klist(x): the list of strings the context value x is (meaningful when is_klist(x))"""
    from .dicts import dterm
    return klist_view(ip, st, dterm(ip, st, pos[0]))


def sp_is_klist(ip, st, pos, kws):
    """is_klist(x): the context value x is a python list of strings"""
    from .dicts import dterm
    return Bool(is_klist(ip, st, dterm(ip, st, pos[0])))


def sp_is_str(ip, st, pos, kws):
    """is_str(x): the context value x is a string"""
    from .dicts import dterm
    return Bool(val_is_str(ip, st, dterm(ip, st, pos[0])))


def sp_str_key(ip, st, pos, kws):
    """str_key(x): the string the context value x is (meaningful when is_str(x))"""
    from .dicts import dterm
    return Opaque(val_str_key(ip, st, dterm(ip, st, pos[0])))


def sp_as_klist(ip, st, pos, kws):
    """as_klist(xs): the context value of the list of strings xs"""
    from .speclib import lst_term
    ls = klist_decl(ip)
    return Opaque(mk_klist(ip, st, lst_term(ip, st, pos[0], ls)))


def register(ix):
    for n, f in (("klist", sp_klist), ("is_klist", sp_is_klist), ("is_str", sp_is_str), ("str_key", sp_str_key),
                 ("as_klist", sp_as_klist)):
        ix.spec_names.setdefault(n, f)
