"""Runs under /venv/bin/python (the repository's interpreter): executes one replay request on the REAL function
and evaluates the contract clauses natively.  stdin: json request, stdout: last line json verdict."""
import ast
import copy
import importlib
import json
import sys
from fractions import Fraction


def dec(v):
    if isinstance(v, dict):
        if "frac" in v:
            f = Fraction(v["frac"][0], v["frac"][1])
            return float(f) if Fraction(float(f)) == f else f
        if "tuple" in v:
            return tuple(dec(x) for x in v["tuple"])
        if "iter" in v:
            return iter([dec(x) for x in v["iter"]])
        if "sentinel" in v:
            mod, name = v["sentinel"].rsplit(".", 1)
            return getattr(importlib.import_module(mod), name)
        if "obj" in v:
            mod = importlib.import_module(v["file"][:-3].replace("/", "."))
            cls = getattr(mod, v["obj"])
            o = object.__new__(cls)
            for f, x in v["fields"].items():
                setattr(o, f, dec(x))
            return o
        return {k: dec(x) for k, x in v.items()}
    if isinstance(v, list):
        return [dec(x) for x in v]
    return v


def implies(a, b):
    return (not a) or b


class OldRewriter(ast.NodeTransformer):
    """old(e): e with every free contract variable replaced by its pre-state deep copy (bound variables of
    comprehensions keep their meaning)"""

    def __init__(self, names):
        self.names, self.depth = set(names), 0

    def visit_Call(self, node):
        if isinstance(node.func, ast.Name) and node.func.id == "old" and len(node.args) == 1:
            self.depth += 1
            inner = self.visit(node.args[0])
            self.depth -= 1
            return inner
        return self.generic_visit(node)

    def visit_Name(self, node):
        if self.depth and node.id in self.names:
            return ast.copy_location(ast.Name(id="__old_" + node.id, ctx=node.ctx), node)
        return node


def split_implies(text):
    parts, depth, cur, i = [], 0, "", 0
    key = " implies "
    while i < len(text):
        c = text[i]
        if c in "([{":
            depth += 1
        elif c in ")]}":
            depth -= 1
        if depth == 0 and text.startswith(key, i):
            parts.append(cur)
            cur = ""
            i += len(key)
            continue
        cur += c
        i += 1
    parts.append(cur)
    return [p.strip() for p in parts]


def to_python(text):
    parts = split_implies(text)
    res = "(%s)" % parts[-1]
    for p in reversed(parts[:-1]):
        res = "((not (%s)) or %s)" % (p, res)
    return res


class Clause(object):
    def __init__(self, text, names=()):
        self.text = text
        tree = ast.parse(to_python(text), mode="eval")
        tree = OldRewriter(names).visit(tree)
        ast.fix_missing_locations(tree)
        self.code = compile(tree, "<clause>", "eval")

    def holds(self, env, olds=None):
        g = dict(GLOBALS)
        g.update(env)
        if olds:
            g.update(olds)
        return bool(eval(self.code, g))


GLOBALS = {"implies": implies, "Fraction": Fraction}


def main():
    req = json.loads(sys.stdin.read())
    mod = importlib.import_module(req["file"][:-3].replace("/", "."))
    obj = mod
    for p in req["qual"].split("."):
        obj = getattr(obj, p)
    args = {k: dec(v) for k, v in req["args"].items()}
    env = dict(args)
    out = {"violates": False, "detail": ""}
    for r in list(req.get("class_invariant", [])) + list(req["requires"]):
        try:
            if not Clause(r).holds(env):
                out["detail"] = "model does not satisfy the precondition natively: " + r
                print(json.dumps(out))
                return
        except Exception as e:
            out["detail"] = "precondition not evaluable natively: %s (%s: %s)" % (r, type(e).__name__, e)
            print(json.dumps(out))
            return
    ens = [Clause(c, args.keys()) for c in req["ensures"]]
    inv = [Clause(c) for c in req.get("class_invariant", [])]
    snap = {"__old_" + k: copy.deepcopy(v) for k, v in args.items() if not hasattr(v, "__next__")}
    olds = [snap for c in ens]
    raise_conds = {}
    for exc, cond in req.get("raises", {}).items():
        raise_conds[exc] = None if cond == "?" else Clause(cond).holds(env)
    # `*args` / `**kwargs` parameters of the contract are handed over as python does (not as one tuple / one dict)
    va, kw = req.get("vararg"), req.get("kwarg")
    call_args = [args[n] for n in req["order"] if n not in (va, kw)]
    if va and va in args:
        call_args += list(args[va])
    call_kwargs = dict(args[kw]) if kw and isinstance(args.get(kw), dict) else {}
    try:
        res = obj(*call_args, **call_kwargs)
        if req.get("generator"):
            res = list(res)
            env["out"] = res
            env["result"] = None
        else:
            env["result"] = res
    except Exception as e:
        name = type(e).__name__
        allowed = [x for x in raise_conds if any(k.__name__ == x for k in type(e).__mro__)]
        if not allowed:
            out.update(violates=True, detail="raised %s: %s (not allowed by the contract)" % (name, e))
        elif raise_conds[allowed[0]] is False:
            out.update(violates=True, detail="raised %s although its documented condition does not hold" % name)
        else:
            out["detail"] = "raised %s as the contract allows" % name
        print(json.dumps(out, default=str))
        return
    for exc, c in raise_conds.items():
        if c is True:
            out.update(violates=True, detail="returned normally although the condition for %s holds" % exc)
            print(json.dumps(out, default=str))
            return
    for c, o in zip(ens, olds):
        try:
            ok = c.holds(env, o)
        except Exception as e:
            out.update(violates=True, detail="clause `%s` raised %s: %s" % (c.text, type(e).__name__, e))
            break
        if not ok:
            out.update(violates=True, detail="postcondition violated: `%s`; result=%r" % (c.text, env.get("result", env.get("out"))))
            break
    if not out["violates"]:
        for c in inv:
            if not c.holds(env):
                out.update(violates=True, detail="object invariant violated after the call: `%s`" % c.text)
                break
    out["args"] = repr(args)[:600]
    print(json.dumps(out, default=str))


if __name__ == "__main__":
    main()
