"""nested-dict (Val) operations -- filled in later"""
def U(msg):
    from .interp import Unsupported
    return Unsupported(msg)
def val_method(ip, st, recv, name, pos, kws): raise U("Val method " + name)
def key_method(ip, st, recv, name, pos, kws): raise U("Key method " + name)
def val_store(ip, s, base, idx, v): raise U("Val store")
def val_delete(ip, s, base, idx): raise U("Val delete")
def for_dict(ip, s, st, itv, k, spec, mode=None): raise U("for over dict")
