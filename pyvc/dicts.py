"""Nested dictionaries (contexts) as the SMT datatype  Val = S(sid) | D(Array Key Opt),  Opt = none | some(Val).

Dict equality is structural and order-free like Python's; scalars are abstract equivalence classes under `==`
(`truthy_s` gives their truth value).  Iterating a dict visits an arbitrary not-yet-seen key (ghost `$seen`)."""
import ast

from .smt import T, TRUE, FALSE, I, NOT, AND, OR, IMP, EQ, ITE
from .sym import (Num, Bool, NoneV, NONE, Str, Opaque, Tup, Ref, View, Fun, ValCell, PyDictCell, State)


def U(msg):
    from .interp import Unsupported
    return Unsupported(msg)


# --------------------------------------------------------------------------- terms
def dterm(ip, st, v):
    """Val term of a dict-like / scalar value"""
    if isinstance(v, Opaque) and v.sort == "Val":
        return v.t
    if isinstance(v, Ref) and isinstance(st.heap[v.cid], ValCell):
        return ip.deref(st, v)
    if isinstance(v, Ref) and isinstance(st.heap[v.cid], PyDictCell):
        items = st.heap[v.cid].items
        m = "emptymap"
        for k, x in items.items():
            m = "(store %s %s (some %s))" % (m, ip.reg.key(k).s, dterm(ip, st, x).s)
        ip.reg.need_val()
        return T("(D %s)" % m, "Val")
    if isinstance(v, Ref) and ip.c is not None and ip.c.ghost.get("ctx_lists"):
        from . import lib_acc2         # a python list of context values as a context value (pyvc/lib_acc2.py)
        lv = lib_acc2.list_value(ip, st, v)
        if lv is not None:
            return lv
    if isinstance(v, Ref) and ip.c is not None and ip.c.ghost.get("dict_objects"):
        from . import dictobj          # a python list of strings as a context value (pyvc/dictobj.py)
        lv = dictobj.list_value(ip, st, v)
        if lv is not None:
            return lv
    return scalar(ip, st, v)


def scalar(ip, st, v):
    """python scalars as abstract ids: one id per class of `==`-equal constants"""
    reg = ip.reg
    reg.need_val()
    if isinstance(v, NoneV):
        key, truthy = "None", False
    elif isinstance(v, Str):
        key, truthy = "str:" + v.s, bool(v.s)
    elif isinstance(v, (Num, Bool)):
        from .smt import lit_int
        t = ip.num(v)
        k = lit_int(t)
        if k is None:
            # a number known only symbolically: injected into Val by an uninterpreted embedding of the numbers
            from .smt import to_real
            f = reg.ufun("num_as_val", ["Real"], "Val")
            ax = T("(forall ((x Real)) (! (not (isD (num_as_val x))) :pattern ((num_as_val x))))", "Bool")
            if not any(a.s == ax.s for a in reg.axioms):
                reg.axioms.append(ax)
            # python: the truth value of a number is `x != 0`
            ax2 = T("(forall ((x Real)) (! (= (truthy_s (sid (num_as_val x))) (not (= x 0.0))) :pattern ((num_as_val x))))", "Bool")
            if not any(a.s == ax2.s for a in reg.axioms):
                reg.axioms.append(ax2)
            return T("(%s %s)" % (f, to_real(t).s), "Val")
        key, truthy = "num:%d" % k, k != 0
    elif isinstance(v, Opaque) and v.sort == "Key":
        f = reg.ufun("key_as_val", ["Key"], "Val")
        if ip.c is not None and ip.c.ghost.get("str_instances"):
            from . import dictobj
            dictobj.embed_instance(ip, st, v.t)
        return T("(%s %s)" % (f, v.t.s), "Val")
    elif type(v).__name__ == "Sentinel" and v.name.startswith("anon"):
        # a local sentinel object (`_s = object()`) used as a default value: one more scalar, different from every
        # constant (that a context might hold an equal value only adds behaviours)
        key, truthy = "sentinel:" + v.name, True
    else:
        raise U("value %r stored into a context dictionary" % (v,))
    tab = getattr(reg, "_scalars", None)
    if tab is None:
        tab = reg._scalars = {}
    if key not in tab:
        n = 1000 + len(tab)
        tab[key] = n
        reg.axioms.append(T("(truthy_s %d)" % n, "Bool") if truthy else T("(not (truthy_s %d))" % n, "Bool"))
        if key.startswith("str:") and getattr(reg, "_str_embed", False):
            reg.axioms.append(T("(= (key_as_val %s) (S %d))" % (reg.key(key[4:]).s, n), "Bool"))      # see string_embedding
    return T("(S %d)" % tab[key], "Val")


def key_as_val(ip, k):
    """a string (Key term) as a context value"""
    f = ip.reg.ufun("key_as_val", ["Key"], "Val")
    return T("(%s %s)" % (f, k.s), "Val")


def string_embedding(ip):
    """the embedding key_as_val of strings into context values, axiomatised (used where context items are used AS strings:
    concatenation, truth value, `is False`): a string is no dictionary; the embedding is injective (val_as_key inverts it);
    the empty string is the only falsy one; a string LITERAL stored into a context (scalar id S n) is the embedding of
    that very string.  Sound: every clause is a fact about python strings; added only to units that use it."""
    reg = ip.reg
    reg.need_val()
    reg.ufun("key_as_val", ["Key"], "Val")
    reg.ufun("val_as_key", ["Val"], "Key")
    if getattr(reg, "_str_embed", False):
        return
    reg._str_embed = True
    e = reg.key("")
    for ax in ("(forall ((k Key)) (! (= (val_as_key (key_as_val k)) k) :pattern ((key_as_val k))))",
               "(forall ((k Key)) (! (not (isD (key_as_val k))) :pattern ((key_as_val k))))",
               "(forall ((k Key)) (! (= (vtruthy (key_as_val k)) (not (= k %s))) :pattern ((key_as_val k))))" % e.s):
        if not any(a.s == ax for a in reg.axioms):
            reg.axioms.append(T(ax, "Bool"))
    for key, n in list(getattr(reg, "_scalars", {}).items()):
        if key.startswith("str:"):
            reg.axioms.append(T("(= (key_as_val %s) (S %d))" % (reg.key(key[4:]).s, n), "Bool"))


def val_as_key_term(ip, t):
    """the string the context value t is (meaningful when val_is_string(t))"""
    string_embedding(ip)
    return T("(val_as_key %s)" % t.s, "Key")


def val_is_string(ip, t):
    """Bool term: the context value t is a string (the embedding of the string val_as_key(t))"""
    string_embedding(ip)
    return EQ(t, key_as_val(ip, T("(val_as_key %s)" % t.s, "Key")))


def val_is_const(ip, t, const):
    """Bool term: the context value t IS the object False / True (`x is False`).  Scalars are classes of ==-equal values
    (False and 0 share one), so identity with the constant is an abstract predicate that implies equality with it."""
    reg = ip.reg
    f = reg.ufun("val_is_%s" % ("True" if const else "False"), ["Val"], "Bool")
    c = scalar(ip, None, Bool(TRUE if const else FALSE))
    return AND(T("(%s %s)" % (f, t.s), "Bool"), EQ(t, c))


def as_key(ip, st, v):
    """a value used as a dictionary key: strings (Str / Key) as they are; a context value (Val) must be a string value --
    an obligation -- and is then the string it embeds (val_as_key is the inverse of the embedding key_as_val)"""
    if isinstance(v, Opaque) and v.sort == "Val":
        reg = ip.reg
        reg.ufun("key_as_val", ["Key"], "Val")
        f = reg.ufun("val_as_key", ["Val"], "Key")
        ax = T("(forall ((k Key)) (! (= (val_as_key (key_as_val k)) k) :pattern ((key_as_val k))))", "Bool")
        if not any(a.s == ax.s for a in reg.axioms):
            reg.axioms.append(ax)
        k = T("(%s %s)" % (f, v.t.s), "Key")
        isstr = EQ(v.t, key_as_val(ip, k))
        if not ip.spec_mode and not ip.known(st, isstr):
            ip.emit("safety", "dict-key-is-a-string", st, isstr)
            st.assume(isstr)
        return Opaque(k)
    return v


def need_dict(ip, st, t, what):
    """obligation / TypeError fork: t is a dictionary"""
    isd = T("(isD %s)" % t.s, "Bool")
    if ip.spec_mode or ip.known(st, isd) or t.s.startswith("(D "):
        return st
    if ip.may_catch(st, "TypeError"):
        bad = st.fork(NOT(isd), "te.")
        ip.raise_(bad, "TypeError")
    else:
        ip.emit("safety", what + "-on-dict", st, isd)
    st.assume(isd)
    return st


# --------------------------------------------------------------------------- references at a symbolic key path
KARR = "(Array Int Key)"


def declare_paths(reg):
    """walka(x, ks, i, n): the item reached from x by the keys ks[i..n) (none if a key is missing or the way passes through
    a scalar);  wseta(x, ks, i, n, v): x with that item replaced by v (the way there exists)"""
    reg.need_val()
    reg.need(KARR)
    reg.fun_decl("walka",
                 "(define-fun-rec walka ((x Val) (ks %s) (i Int) (n Int)) Opt "
                 "(ite (>= i n) (some x) (ite (and (isD x) (vhas x (select ks i))) "
                 "(walka (vget x (select ks i)) ks (+ i 1) n) none)))" % KARR)
    reg.fun_decl("wseta",
                 "(define-fun-rec wseta ((x Val) (ks %s) (i Int) (n Int) (v Val)) Val "
                 "(ite (>= i n) v (D (store (dm x) (select ks i) "
                 "(some (wseta (vget x (select ks i)) ks (+ i 1) n v))))))" % KARR)


def seg_get(ip, t, seg):
    declare_paths(ip.reg)
    return T("(the (walka %s %s %s %s))" % (t.s, seg.arr.s, seg.lo.s, seg.hi.s), "Val")


def seg_set(ip, t, seg, new):
    declare_paths(ip.reg)
    return T("(wseta %s %s %s %s %s)" % (t.s, seg.arr.s, seg.lo.s, seg.hi.s, new.s), "Val")


def same_ref(ip, st, a, b):
    """Bool term: the references a and b denote the same position of the same object (None: not comparable here).
    Paths are compared by form: equal paths, or paths that differ in how their last stretch is written."""
    from .sym import Seg
    from .smt import CMP, ADD
    if not (isinstance(a, Ref) and isinstance(b, Ref)) or a.cid != b.cid:
        return FALSE
    pa, pb = list(a.path), list(b.path)
    while pa and pb and pa[0] == pb[0]:
        pa.pop(0)
        pb.pop(0)
    if not pa and not pb:
        return TRUE

    def sel(arr, i):
        return T("(select %s %s)" % (arr.s, i.s), "Key")
    for x, y in ((pa, pb), (pb, pa)):
        # x is written with single keys, y with one stretch
        if len(y) == 1 and isinstance(y[0], Seg) and all(not isinstance(e, Seg) for e in x):
            g = y[0]
            conds = [EQ(g.hi, ADD(g.lo, I(len(x))))]
            for j, k in enumerate(x):
                conds.append(EQ(k, sel(g.arr, ADD(g.lo, I(j)))))
            return AND(*conds)
        # x = stretch [lo, hi) followed by single keys, y = stretch [lo, hi') over the same array
        if len(y) == 1 and isinstance(y[0], Seg) and x and isinstance(x[0], Seg) and x[0].arr.s == y[0].arr.s \
                and x[0].lo.s == y[0].lo.s and all(not isinstance(e, Seg) for e in x[1:]):
            g, h = x[0], y[0]
            conds = [CMP("<=", g.lo, g.hi), EQ(h.hi, ADD(g.hi, I(len(x) - 1)))]
            for j, k in enumerate(x[1:]):
                conds.append(EQ(k, sel(g.arr, ADD(g.hi, I(j)))))
            return AND(*conds)
    return None


def path_ref(ip, st, env, spec4, entry=None):
    """the reference (root, keys, lo, hi) of a cursor / result_ref declaration, evaluated in state st with names env;
    `old(name)` as root = the object the parameter `name` referred to at entry"""
    from .calls import spec_state
    from .sym import Seg
    from .speclib import lst_term
    root_e, keys_e, lo_e, hi_e = spec4
    ip.spec_mode += 1
    try:
        s = spec_state(st, env)
        if root_e.startswith("old(") and root_e.endswith(")"):
            root = (entry or ip.entry).env[root_e[4:-1].strip()]
        else:
            root = ip.ev1(ip.contracts_parse(root_e), s)
        if not (isinstance(root, Ref) and isinstance(st.heap.get(root.cid), ValCell)):
            raise U("cursor / result_ref root %s is not a dictionary object" % root_e)
        kv = ip.ev1(ip.contracts_parse(keys_e), s)
        if isinstance(kv, Str) or (isinstance(kv, Opaque) and kv.sort == "Key"):
            ip.reg.need(KARR)
            arr = T("((as const %s) %s)" % (KARR, ip.key_term(kv).s), KARR)
        else:
            arr = ip.reg.l_arr(lst_term(ip, s, kv, ip.reg.lst("Key")))
        lo = ip.num(ip.ev1(ip.contracts_parse(lo_e), s))
        hi = ip.num(ip.ev1(ip.contracts_parse(hi_e), s))
    finally:
        ip.spec_mode -= 1
    return Ref(root.cid, root.path + (Seg(arr, lo, hi),)), root


def set_cursors(ip, spec, h):
    """loop head: the declared cursors replace whatever the havoc left in those names (induction hypothesis)"""
    from .smt import CMP
    for name, spec4 in getattr(spec, "cursor", {}).items():
        ref, root = path_ref(ip, h, ip.spec_env(h), spec4)
        h.env[name] = ref
        seg = ref.path[-1]
        declare_paths(ip.reg)
        # the reference exists (it was obtained by successful item look-ups): the way to it is there
        h.assume(CMP("<=", seg.lo, seg.hi))
        h.assume(NOT(EQ(T("(walka %s %s %s %s)" % (ip.deref(h, root).s, seg.arr.s, seg.lo.s, seg.hi.s), "Opt"), T("none", "Opt"))))


def check_cursors(ip, k, spec, st, kind):
    for name, spec4 in getattr(spec, "cursor", {}).items():
        ref, root = path_ref(ip, st, ip.spec_env(st), spec4)
        g = same_ref(ip, st, st.env.get(name), ref)
        if g is None:
            raise U("cursor `%s` of loop #%s: cannot compare %r with %r" % (name, k, st.env.get(name), ref))
        ip.emit("cursor", "loop#%s.%s cursor `%s` is the declared object" % (k, kind, name), st, g)
        seg = ref.path[-1]
        declare_paths(ip.reg)
        ip.emit("cursor", "loop#%s.%s the way to cursor `%s` exists" % (k, kind, name), st,
                NOT(EQ(T("(walka %s %s %s %s)" % (ip.deref(st, root).s, seg.arr.s, seg.lo.s, seg.hi.s), "Opt"), T("none", "Opt"))))


# --------------------------------------------------------------------------- stores
def shares_nothing(ip, st, v):
    """the value v can be stored into a deep copy without making it share a mutable object: immutable scalars, and
    objects that are themselves deep copies made during this call"""
    from .sym import Sentinel
    if isinstance(v, (Num, Bool, NoneV, Str, Sentinel)):
        return True
    if isinstance(v, Opaque) and v.sort == "Key":
        return True
    if isinstance(v, Tup):
        return all(shares_nothing(ip, st, x) for x in v.items)
    if isinstance(v, Ref):
        return (v.cid in st.notes.get("deep_copies", ()) and not v.path
                and (ip.entry is None or v.cid not in ip.entry.heap))
    return False


def mark_shallow(st, *refs):
    """a SHALLOW copy of a nested dictionary (d.copy(), dict(d), copy.copy(d)) is a new top-level object whose nested
    dictionaries are the very objects of the original.  Nested dictionaries are values in the `Val` model, so an in-place
    change below the top level made through one of the two would not show in the other: such a change is refused
    (out-of-subset) instead of being modelled wrongly.  Top-level stores / deletes / flat updates stay exact."""
    cids = {r.cid for r in refs if isinstance(r, Ref)}
    if cids:
        st.notes["shallow_shared"] = set(st.notes.get("shallow_shared", ())) | cids


def refuse_nested_change(st, base, what):
    """see mark_shallow"""
    if isinstance(base, Ref) and base.cid in st.notes.get("shallow_shared", ()):
        from .interp import Unsupported
        raise Unsupported("%s of a dictionary that shares its nested dictionaries with a shallow copy" % what)


def note_store(ip, st, base, v):
    """ownership provenance: a deep copy that gets a possibly shared object stored into it is no deep copy any more"""
    if isinstance(base, Ref) and base.cid in st.notes.get("deep_copies", ()) and not shares_nothing(ip, st, v):
        st.notes["deep_copies"] = set(st.notes["deep_copies"]) - {base.cid}


def val_store(ip, s, base, idx, v):
    cur = ip.deref(s, base)
    need_dict(ip, s, cur, "item-store")
    if getattr(base, "path", None):
        refuse_nested_change(s, base, "a store below the top level")
    k = ip.key_term(as_key(ip, s, idx))
    if ip.c is not None and ip.c.ghost.get("dict_objects") and not ip.spec_mode:
        from . import dictobj          # dictionaries as objects: links of the replaced / the stored object (pyvc/dictobj.py)
        dictobj.store_hook(ip, s, base, k, v)
    new = T("(D (store (dm %s) %s (some %s)))" % (cur.s, k.s, dterm(ip, s, v).s), "Val")
    note_store(ip, s, base, v)
    if not base.path and base.cid in s.notes.get("iterating", ()):
        # d[k] = v inside `for ... in d`: legal python only if it does not change the key set
        if not ip.spec_mode:
            ip.emit("safety", "store-into-iterated-dict-keeps-keys", s, T("(vhas %s %s)" % (cur.s, k.s), "Bool"))
        s.assume(T("(vhas %s %s)" % (cur.s, k.s), "Bool"))
        ip._iter_store_ok = True
        try:
            ip.store(s, base, new)
        finally:
            ip._iter_store_ok = False
        return [s]
    ip.store(s, base, new)
    return [s]


def val_delete(ip, s, base, idx):
    cur = ip.deref(s, base)
    need_dict(ip, s, cur, "item-delete")
    if getattr(base, "path", None):
        refuse_nested_change(s, base, "a delete below the top level")
    k = ip.key_term(idx)
    has = T("(vhas %s %s)" % (cur.s, k.s), "Bool")
    if not ip.known(s, has):
        if ip.may_catch(s, "KeyError"):
            bad = s.fork(NOT(has), "ke.")
            ip.raise_(bad, "KeyError")
        else:
            ip.emit("safety", "del-key-present", s, has)
        s.assume(has)
    _dobj_cut(ip, s, base, k)
    ip.store(s, base, T("(D (store (dm %s) %s none))" % (cur.s, k.s), "Val"))
    return [s]


def _dobj_cut(ip, s, base, k):
    """dictionaries as objects (opt-in, pyvc/dictobj.py): the binding of key k (None: all keys; "?": unknown keys) of the
    dictionary object `base` is removed / replaced"""
    if not (ip.c is not None and ip.c.ghost.get("dict_objects")) or ip.spec_mode or not isinstance(base, Ref):
        return
    from . import dictobj
    if base.path:
        if dictobj.get(s).involved(base.cid):
            raise U("change through a position reference of a dictionary object with tracked aliases")
        return
    if dictobj.is_frozen(s, base.cid):
        raise U("change of a dictionary object whose aliases are not tracked any more (frozen)")
    if k == "?":
        k = T("unknown-key%d" % next(ip.bound), "Key")
    dictobj.cut_children(ip, s, base.cid, k)


# --------------------------------------------------------------------------- methods
def val_method(ip, st, recv, name, pos, kws):
    t = dterm(ip, st, recv)
    if name in ("append", "extend") and ip.c is not None and ip.c.ghost.get("dict_objects"):
        from . import dictobj          # a list of strings that lives inside a context dictionary (pyvc/dictobj.py)
        return dictobj.list_method(ip, st, recv, name, pos, kws)
    if name == "get" and isinstance(recv, Ref) and not recv.path and not ip.spec_mode and ip.c is not None \
            and ip.c.ghost.get("dict_objects"):
        # dictionaries as objects: d.get(k) hands out the OBJECT stored under k (or the default / None)
        from . import dictobj
        need_dict(ip, st, t, "get")
        k = ip.key_term(pos[0])
        has = T("(vhas %s %s)" % (t.s, k.s), "Bool")
        if ip.known(st, has) or any(p == recv.cid and key.s == k.s and status == "live"
                                    for c, p, key, status in dictobj.get(st).links):
            # (a live link: the object was found, or stored, under this key and the binding has not been replaced since)
            return [(st, dictobj.child_ref(ip, st, recv, k))]
        if ip.known(st, NOT(has)):
            return [(st, pos[1] if len(pos) > 1 else NONE)]
        a = st.fork(has, "g.")
        b = st.fork(NOT(has), "d.")
        return [(a, dictobj.child_ref(ip, a, recv, k)), (b, pos[1] if len(pos) > 1 else NONE)]
    if name == "get":
        need_dict(ip, st, t, "get")
        k = ip.key_term(pos[0])
        has = T("(vhas %s %s)" % (t.s, k.s), "Bool")
        got = Opaque(T("(vget %s %s)" % (t.s, k.s), "Val"))
        if len(pos) > 1:
            dflt = pos[1]
            if isinstance(dflt, Opaque) and dflt.sort == "Val":
                return [(st, Opaque(ITE(has, got.t, dflt.t)))]
            try:
                # scalars are embedded into Val: one merged value instead of two paths
                return [(st, Opaque(ITE(has, got.t, scalar(ip, st, dflt))))]
            except Exception:
                pass
            outs = [(st.fork(has, "g."), got), (st.fork(NOT(has), "d."), dflt)]
            return outs
        # d.get(k) -> None when absent: callers in this code base test the result with isinstance(..., dict)
        nonev = scalar(ip, st, NONE)
        return [(st, Opaque(ITE(has, got.t, nonev)))]
    if name in ("keys", "items", "values"):
        need_dict(ip, st, t, name)
        return [(st, Fun("dictview", recv=recv, name=name))]
    if name == "clear" and isinstance(recv, Ref) and not pos:
        need_dict(ip, st, t, "clear")
        _dobj_cut(ip, st, recv, None)
        ip.store(st, recv, T("(D emptymap)", "Val"))
        return [(st, NONE)]
    if name == "copy":
        need_dict(ip, st, t, "copy")
        r = ip.new_cell(st, ValCell(t))
        if isinstance(recv, Ref) and ip.c is not None and ip.c.ghost.get("dict_objects") and not ip.spec_mode:
            from . import dictobj      # a shallow copy shares its items with the original
            dictobj.shared_items(ip, st, r, recv)
        elif not ip.spec_mode:
            mark_shallow(st, r, recv)
        return [(st, r)]
    if name == "pop" and isinstance(recv, Ref):
        need_dict(ip, st, t, "pop")
        k = ip.key_term(pos[0])
        has = T("(vhas %s %s)" % (t.s, k.s), "Bool")
        got = Opaque(T("(vget %s %s)" % (t.s, k.s), "Val"))
        removed = T("(D (store (dm %s) %s none))" % (t.s, k.s), "Val")
        outs = []
        a = st.fork(has, "p.")
        if not recv.path and ip.c is not None and ip.c.ghost.get("dict_objects") and not ip.spec_mode:
            from . import dictobj      # the popped item as the OBJECT it is (it lives on after the binding is removed)
            got = dictobj.child_ref(ip, a, recv, k)
        _dobj_cut(ip, a, recv, k)
        ip.store(a, recv, removed)
        outs.append((a, got))
        b = st.fork(NOT(has), "q.")
        if len(pos) > 1:
            outs.append((b, pos[1]))
        elif ip.may_catch(b, "KeyError"):
            ip.raise_(b, "KeyError")
        else:
            ip.emit("safety", "pop-key-present", b, FALSE)
        return outs
    if name == "update" and isinstance(recv, Ref) and (not pos or (len(pos) == 1 and isinstance(pos[0], Ref) and
                                                                 isinstance(st.heap[pos[0].cid], PyDictCell))):
        # d.update(k1=v1, ...) / d.update(<dictionary with concrete string keys>): successive item stores (in order)
        need_dict(ip, st, t, "update")
        items = list(st.heap[pos[0].cid].items.items()) if pos else []
        for k2, v2 in items + list(kws.items()):
            val_store(ip, st, recv, Str(k2), v2)
        return [(st, NONE)]
    if name == "update" and isinstance(recv, Ref) and isinstance(pos[0], Ref) \
            and type(st.heap[pos[0].cid]).__name__ == "PyListCell" \
            and all(isinstance(x, Tup) and len(x.items) == 2 for x in st.heap[pos[0].cid].items):
        # d.update([(k1, v1), ...]) with a list display of pairs: successive item stores
        need_dict(ip, st, t, "update")
        for pair in st.heap[pos[0].cid].items:
            val_store(ip, st, recv, pair.items[0], pair.items[1])
        return [(st, NONE)]
    if name == "update" and isinstance(recv, Ref):
        need_dict(ip, st, t, "update")
        note_store(ip, st, recv, pos[0])
        _dobj_cut(ip, st, recv, "?")
        if isinstance(pos[0], Ref) and ip.c is not None and ip.c.ghost.get("dict_objects") and not ip.spec_mode:
            from . import dictobj      # the items of the argument are shared with the receiver from now on
            dictobj.shared_items(ip, st, recv, pos[0])
        o = dterm(ip, st, pos[0])
        need_dict(ip, st, o, "update-arg")
        f = ip.reg.ufun("dict_update", ["Val", "Val"], "Val")
        new = T("(%s %s %s)" % (f, t.s, o.s), "Val")
        # d.update(o): keys of o overwrite, the other keys stay
        q = T("uk%d" % next(ip.bound), "Key")
        st.assume(T("(isD %s)" % new.s, "Bool"))
        st.assume(T("(forall ((%s Key)) (! (= (select (dm %s) %s) (ite (vhas %s %s) (select (dm %s) %s) (select (dm %s) %s))) "
                    ":pattern ((select (dm %s) %s))))" % (q.s, new.s, q.s, o.s, q.s, o.s, q.s, t.s, q.s, new.s, q.s), "Bool"))
        ip.store(st, recv, new)
        return [(st, NONE)]
    raise U("dict method " + name)


def key_method(ip, st, recv, name, pos, kws):
    """methods of a symbolic string used as a (dotted) key"""
    reg = ip.reg
    if name == "split" and len(pos) == 1 and isinstance(pos[0], Str) and pos[0].s == ".":
        # s.split("."): the list of components -- never empty; a string without dots is its own single component
        sort = reg.lst("Key")
        f = reg.ufun("ksplit", ["Key"], sort)
        t = T("(%s %s)" % (f, recv.t.s), sort)
        st.assume(T("(>= %s 1)" % reg.l_len(t).s, "Bool"))
        st.assume(T("(=> (= %s 1) (= %s %s))" % (reg.l_len(t).s, reg.l_get(t, I(0)).s, recv.t.s), "Bool"))
        ip.assumptions.add("str.split('.') returns a non-empty list of components; a string without dots is its only component")
        for lit, kt in list(reg.key_consts.items()):
            if kt.s == recv.t.s and "|" not in lit and "\\" not in lit:
                # the constant of a string LITERAL: its components are known
                comps = lit.split(".")
                st.assume(EQ(reg.l_len(t), I(len(comps))))
                for j, cpt in enumerate(comps):
                    st.assume(EQ(reg.l_get(t, I(j)), reg.key(cpt)))
                break
        return [(st, ip.new_cell(st, LstCellOf(t)))]
    if name == "format" and ip.c is not None and ip.c.ghost.get("str_format_abstract"):
        from .lib_fmt import abstract_format         # opt-in: str.format as an abstract library function
        return abstract_format(ip, st, recv, pos, kws)
    raise U("str method %s on a symbolic key" % name)


def LstCellOf(t):
    from .sym import LstCell
    return LstCell(t)


# --------------------------------------------------------------------------- iteration
SEEN = "(Array Key Bool)"


def for_dict(ip, s, st, itv, k, spec, mode=None):
    """for key in d / for key, value in d.items(): an arbitrary not-yet-visited key per iteration; ghost `$seen`"""
    from .stmts import (check_invariants, assume_invariants, havoc_loop, exec_block, assign_to, ghost_init)
    reg = ip.reg
    reg.need_val()
    dt0 = dterm(ip, st, itv)
    need_dict(ip, st, dt0, "iteration")
    st.env["$seen"] = Opaque(T("((as const %s) false)" % SEEN, SEEN))
    if spec is not None:
        ghost_init(ip, spec, st)          # LoopSpec.init_ghost: evaluated once, when the loop statement is reached
    check_invariants(ip, k, spec, st, "init")
    h = st.fork(None, "L%s:" % k)
    havoc_loop(ip, s, h, spec, s.body)
    dt = dterm(ip, h, itv)
    mutated = dt.s != dt0.s
    if mutated:
        # the body stores into the dictionary it iterates.  Python allows replacing the VALUE of an existing key during
        # iteration (the key set and the order of visits are unaffected); anything else is rejected: while the body
        # runs the cell is marked `iterating`, a store `d[k] = v` must prove k in d (val_store) and every other
        # change of the cell raises Unsupported (Interp.store).  Hence the key set at the loop head is the initial one.
        if not (isinstance(itv, Ref) and isinstance(h.heap[itv.cid], ValCell) and not itv.path):
            raise U("loop #%s mutates the dictionary it iterates" % k)
        h.assume(T("(isD %s)" % dt.s, "Bool"))
        qm = T("mk%d" % next(ip.bound), "Key")
        h.assume(T("(forall ((%s Key)) (! (= (vhas %s %s) (vhas %s %s)) :pattern ((select (dm %s) %s))))"
                   % (qm.s, dt.s, qm.s, dt0.s, qm.s, dt.s, qm.s), "Bool"))
    seen = reg.new("seen", SEEN)
    q = T("sk%d" % next(ip.bound), "Key")
    h.assume(T("(forall ((%s Key)) (! (=> (select %s %s) (vhas %s %s)) :pattern ((select %s %s))))"
               % (q.s, seen.s, q.s, dt.s, q.s, seen.s, q.s), "Bool"))
    h.env["$seen"] = Opaque(seen)
    assume_invariants(ip, spec, h)
    ip.assumptions.add("dict iteration: an arbitrary unvisited key per step, finitely many keys (termination of loops over "
                       "dictionaries is not an obligation)")
    outs = []
    # ---- one iteration
    b = h.fork(None, "V.")
    from . import dictobj
    dictobj.enter_body(ip, b)
    if mutated:
        b.notes["iterating"] = set(b.notes.get("iterating", ())) | {itv.cid}
    key = reg.new("key", "Key")
    b.assume(T("(vhas %s %s)" % (dt.s, key.s), "Bool"))
    b.assume(NOT(T("(select %s %s)" % (seen.s, key.s), "Bool")))
    kv = Opaque(key)
    if mode in (None, "keys"):
        val = kv
    elif mode == "items":
        val = Tup([kv, Opaque(T("(vget %s %s)" % (dt.s, key.s), "Val"))])
    else:
        val = Opaque(T("(vget %s %s)" % (dt.s, key.s), "Val"))
    for s3 in assign_to(ip, s.target, val, b):
        for kind, s4, payload in exec_block(ip, s.body, s3):
            if kind in ("next", "continue"):
                s4.env["$seen"] = Opaque(T("(store %s %s true)" % (seen.s, key.s), SEEN))
                check_invariants(ip, k, spec, s4, "preserve")
            elif kind == "break":
                dictobj.leave_body(ip, s4)
                s4.trace += "B."
                if mutated:
                    s4.notes["iterating"] = set(s4.notes.get("iterating", ())) - {itv.cid}
                outs.append(("next", s4, None))
            else:
                outs.append((kind, s4, payload))
    # ---- exit: every key has been visited
    x = h.fork(None, "X.")
    q2 = T("sk%d" % next(ip.bound), "Key")
    x.assume(T("(forall ((%s Key)) (= (select %s %s) (vhas %s %s)))" % (q2.s, seen.s, q2.s, dt.s, q2.s), "Bool"))
    outs.append(("next", x, None))
    return outs


# --------------------------------------------------------------------------- special forms of the contract language
def _sf_seen(ip, e, st):
    k = ip.key_term(ip.ev1(e.args[0], st))
    return Bool(T("(select %s %s)" % (st.env["$seen"].t.s, k.s), "Bool"))


def _sf_all_keys(ip, e, st):
    """all_keys(lambda k: body): body holds for every key (universal quantifier over the Key sort)"""
    lam = e.args[0]
    if not isinstance(lam, ast.Lambda) or len(lam.args.args) != 1:
        raise U("all_keys expects a one-argument lambda")
    ip.reg.need_val()
    q = T("ak%d" % next(ip.bound), "Key")
    s2 = State.__new__(State)
    s2.__dict__.update(st.__dict__)
    s2.env = dict(st.env)
    s2.env[lam.args.args[0].arg] = Opaque(q)
    body = ip.truth(s2, ip.ev1(lam.body, s2))
    return Bool(T("(forall ((%s Key)) %s)" % (q.s, body.s), "Bool"))


def _sf_item(ip, e, st):
    """item(d, k): the entry of d at key k as an optional value (absent() / some value)"""
    d = dterm(ip, st, ip.ev1(e.args[0], st))
    k = ip.key_term(ip.ev1(e.args[1], st))
    return Opaque(T("(select (dm %s) %s)" % (d.s, k.s), "Opt"))


def _sf_absent(ip, e, st):
    ip.reg.need_val()
    return Opaque(T("none", "Opt"))


def _sf_present(ip, e, st):
    return Opaque(T("(some %s)" % dterm(ip, st, ip.ev1(e.args[0], st)).s, "Opt"))


def _sf_isdict(ip, e, st):
    return Bool(T("(isD %s)" % dterm(ip, st, ip.ev1(e.args[0], st)).s, "Bool"))


def _sf_emptydict(ip, e, st):
    ip.reg.need_val()
    return Opaque(T("(D emptymap)", "Val"))


FORMS = {"seen": _sf_seen, "all_keys": _sf_all_keys, "item": _sf_item, "absent": _sf_absent, "present": _sf_present,
         "isdict": _sf_isdict, "emptydict": _sf_emptydict}
