"""Members of abstract flow values (sort V), declared per contract:

    Contract(ghost={"v_members": {"dim": "attr:Int", "rows": "method0:V", "_update_context": "ctxupdate"}})

  attr:<Int|Real|V>   `v.name` read as a data attribute: an uninterpreted function of the value
  method0:V           `v.name()`: raises AttributeError unless has_<name>_V(v) (the predicate hasattr(v, name) evaluates
                      to); otherwise an uninterpreted function of the value, no side effect
  ctxupdate           `v.name(context)`: the data structure writes into the dictionary it is given (lena's
                      `_update_context(context)` protocol): the dictionary's new content is an uninterpreted function of
                      the value and the old content; nothing else changes
Anything not declared stays out-of-subset (Unsupported).  Each use is listed as an assumption of the unit."""
from .smt import T, NOT
from .sym import Num, Opaque, Ref, ValCell, NONE


def table(ip):
    c = getattr(ip, "c", None)
    return (c.ghost.get("v_members") if c is not None else None) or {}


def attr_value(ip, v, name):
    """value of a declared data attribute of the V value v, or None"""
    kind = table(ip).get(name)
    if not kind or not kind.startswith("attr:"):
        return None
    sort = kind[5:]
    if sort not in ("Int", "Real", "V"):
        return None
    f = ip.reg.ufun("vattr_%s" % name, ["V"], sort)
    ip.assumptions.add("flow values: the attribute .%s of a value is a function of the value (declared v_members)" % name)
    t = T("(%s %s)" % (f, v.t.s), sort)
    return Opaque(t) if sort == "V" else Num(t)


def method_call(ip, st, recv, name, pos, kws):
    """call of a declared method of the V value recv; None if the method is not declared"""
    kind = table(ip).get(name)
    if not kind:
        return None
    if kind == "method0:V" and not pos and not kws:
        from .builtins_ import has_attr
        has = has_attr(ip, st, recv, name)
        if not ip.spec_mode:
            if ip.may_catch(st, "AttributeError"):
                bad = st.fork(NOT(has), "noattr.")
                ip.raise_(bad, "AttributeError")
            else:
                ip.emit("safety", "attribute-%s-exists" % name, st, has)
            st.assume(has)
        f = ip.reg.ufun("vcall_%s" % name, ["V"], "V")
        ip.assumptions.add("flow values: the method .%s() of a value returns a function of the value and has no side "
                           "effect; it exists iff hasattr says so (declared v_members)" % name)
        return [(st, Opaque(T("(%s %s)" % (f, recv.t.s), "V")))]
    if kind == "ctxupdate" and len(pos) == 1 and not kws and isinstance(pos[0], Ref) and isinstance(st.heap.get(pos[0].cid), ValCell):
        ip.reg.need_val()
        f = ip.reg.ufun("vctxupd_%s" % name, ["V", "Val"], "Val")
        cur = ip.deref(st, pos[0])
        new = T("(%s %s %s)" % (f, recv.t.s, cur.s), "Val")
        st.assume(T("(isD %s)" % new.s, "Bool"))
        ip.store(st, pos[0], new)
        ip.assumptions.add("flow values: .%s(context) of a data structure changes only the dictionary it is given, as a "
                           "function of the structure and the dictionary's content (declared v_members)" % name)
        return [(st, NONE)]
    return None


# --------------------------------------------------------------------------- subscripts of abstract flow values
# v_members {"__getitem__": "item:V"}: `v[k]` for a literal index k >= 0 on an abstract flow value is v_item_<k>(v), an
# uninterpreted function of the value.  That the value HAS such an item (it is a sequence that is long enough) is the
# uninterpreted predicate v_has_item_<k>(v): an OBLIGATION at every subscript (so the TypeError / IndexError of a value that
# is no such sequence never arises in a proved unit).
def emit_closed(ip, kind, name, st, goal):
    """ip.emit for an obligation that arises while the body of a quantifier over a sequence is evaluated (all(.. for x in xs)
    with xs of symbolic length): the obligation is closed over the bound index variables, each within its range; the
    hypotheses that speak about a bound variable move under the quantifier"""
    import re
    from .interp import VC
    guards = getattr(ip, "bound_guards", [])
    if not guards:
        return ip.emit(kind, name, st, goal)
    if ip.spec_mode or getattr(ip, "silent", 0):
        return
    names = [k.s for k, _ in guards]

    def mentions(t):
        return any(re.search(r"(?<![A-Za-z0-9_!|])%s(?![A-Za-z0-9_!|])" % re.escape(nm), t.s) for nm in names)
    hyps = [h for h in st.pc if not mentions(h)]
    local = [h.s for h in st.pc if mentions(h)] + ["(<= 0 %s)" % k.s for k, _ in guards] + ["(< %s %s)" % (k.s, n.s) for k, n in guards]
    closed = T("(forall (%s) (=> (and %s) %s))" % (" ".join("(%s Int)" % nm for nm in names), " ".join(local), goal.s), "Bool")
    ip.vcs.append(VC(name + "/" + st.trace, kind, hyps, closed, st.trace, None))


def v_item_terms(ip, v, k):
    f = ip.reg.ufun("v_item_%d" % k, ["V"], "V")
    h = ip.reg.ufun("v_has_item_%d" % k, ["V"], "Bool")
    return T("(%s %s)" % (f, v.t.s), "V"), T("(%s %s)" % (h, v.t.s), "Bool")


def v_subscript(ip, st, v, i):
    if table(ip).get("__getitem__") != "item:V":
        return None
    from .smt import lit_int
    k = lit_int(i.t) if isinstance(i, Num) else None
    if k is None or k < 0:
        return None
    item, has = v_item_terms(ip, v, k)
    if not ip.spec_mode:
        # (an obligation also where the TypeError / IndexError would be observable: proved, the subscript raises nothing)
        emit_closed(ip, "safety", "flow value has item %d" % k, st, has)
        st.assume(has)
    ip.assumptions.add("flow values: v[%d] of a value is a function of the value (declared v_members __getitem__)" % k)
    return [(st, Opaque(item))]


# --------------------------------------------------------------------------- data attributes of abstract elements
# Contract(ghost={"obj_attrs": {"_fill_compute": "Obj"}}): `el.<name>` on an abstract element (sort Obj) is a DATA attribute
# holding another abstract object.  The read raises AttributeError unless has_attr(el, name) (the predicate hasattr
# evaluates to); otherwise its value is obj_attr(el, name), an uninterpreted function of the element and the name (the
# attribute is not re-bound during the call: listed as an assumption of the unit).  Undeclared names keep the old
# reading (a bound method of the element).
def obj_attr_term(ip, v, name):
    ip.reg.need_val()
    f = ip.reg.ufun("obj_attr", ["Obj", "Key"], "Obj")
    return T("(%s %s %s)" % (f, v.t.s, ip.reg.key(name).s), "Obj")


def obj_attr_read(ip, st, v, name):
    """read of a declared data attribute of the abstract element v; None if the attribute is not declared"""
    c = getattr(ip, "c", None)
    kind = ((c.ghost.get("obj_attrs") if c is not None else None) or {}).get(name)
    if kind is None:
        return None
    if kind != "Obj":
        raise U_("obj_attrs: only attributes holding abstract objects (Obj) are modelled, not %s" % kind)
    from .builtins_ import has_attr
    val = Opaque(obj_attr_term(ip, v, name))
    if ip.spec_mode:
        return [(st, val)]
    has = has_attr(ip, st, v, name)
    if ip.may_catch(st, "AttributeError"):
        bad = st.fork(NOT(has), "noattr.")
        ip.raise_(bad, "AttributeError")
    else:
        ip.emit("safety", "attribute-%s-exists" % name, st, has)
    st.assume(has)
    ip.assumptions.add("abstract elements: the data attribute .%s of an element is read without side effect, exists iff "
                       "hasattr says so and is not re-bound during the call (declared obj_attrs)" % name)
    return [(st, val)]


# --------------------------------------------------------------------------- opaque regions
# Contract(ghost={"opaque_regions": [{"start": "<source prefix of the first statement>", "fs": bool, "contexts": bool,
#                                     "fields": ["name", ...], "raises": ["Exc", ...], "yields": bool}]})
# The statements from the first one whose source text starts with `start` to the END OF ITS BLOCK are not interpreted.
# They are ASSUMED (listed as an assumption of the unit, never checked) to
#   * assign only their own local names (which are unbound afterwards: a later read is out-of-subset),
#   * change nothing but: the file system (fs), the context dictionaries of flow values (contexts), the listed fields
#     of self (fields) -- all of which get unknown new content,
#   * yield any number of values (yields; the contract's at_yield clauses are NOT checked for them, `out` is untracked),
#   * raise nothing but the listed exception classes, and otherwise fall through to the end of the block.
# Used for the branch of a selective element that handles SELECTED values when it is beyond the subset (process pools,
# subprocess, lists inside contexts); what the contract proves is then the selection test and the pass-through branch.
def _src(node):
    import ast
    try:
        return ast.unparse(node)
    except Exception:
        return ""


def opaque_region_at(ip, stmts, s):
    for r in ip.c.ghost.get("opaque_regions") or []:
        if _src(s).startswith(r["start"]):
            return r
    return None


def run_opaque_region(ip, r, region_stmts, st):
    import ast
    from .stmts import mutated_roots
    from .sym import PyListCell, ObjCell, ExcV
    from .smt import CMP, I
    names, roots, yields, elem_state = mutated_roots(ip, region_stmts)
    for top in region_stmts:
        for n in ast.walk(top):
            if isinstance(n, (ast.Return, ast.Break)):
                raise U_("opaque region contains return / break")
    what = []
    for n in sorted(names):
        st.env.pop(n, None)
    if yields:
        if not r.get("yields"):
            raise U_("opaque region yields but is not declared yields=True")
        yc0 = st.notes.get("yc", I(0))
        yc = ip.reg.new("yc", "Int")
        st.assume(CMP(">=", yc, yc0))
        st.notes["yc"] = yc
        if "out" in st.env and isinstance(st.heap[st.env["out"].cid], PyListCell):
            st.heap[st.env["out"].cid] = PyListCell([])
            st.notes["out_untracked"] = True
        elif "out" in st.env:
            from .calls import havoc_value
            havoc_value(ip, st, st.env["out"], "out")
        what.append("yields any values")
    if r.get("fs"):
        from .lib import fs_init
        fs_init(ip, st)
        what.append("changes the file system")
    if r.get("contexts"):
        for key, ref in dict(st.notes.get("vctx", {})).items():
            nt = ip.reg.new("octx", "Val")
            st.assume(T("(isD %s)" % nt.s, "Bool"))
            ip.store(st, ref, nt)
        what.append("changes contexts of flow values")
    selfv = st.env.get("self")
    for f in r.get("fields", []):
        cell = st.heap[selfv.cid]
        cs = ip.contracts.classes.get(cell.cls)
        fields = dict(cell.fields)
        fields[f] = ip.make(cs.fields[f], "%s.%s" % (cell.cls, f), st)
        st.heap[selfv.cid] = ObjCell(cell.cls, fields)
        what.append("changes self.%s" % f)
    ip.assumptions.add("OPAQUE REGION of %s starting at `%s` (to the end of its block): not interpreted; assumed to assign only "
                       "its locals, to raise only %s, and to do nothing but: %s" % (ip.c.name, r["start"], r.get("raises", []), "; ".join(what) or "nothing"))
    outs = []
    for exc in r.get("raises", []):
        bad = st.fork(None, "oreg!%s." % exc)
        outs.append(("raise", bad, ExcV(exc)))
    st.trace += "oreg."
    outs.append(("next", st, None))
    return outs


def U_(msg):
    from .interp import Unsupported
    return Unsupported(msg)
