"""Statements: control flow, loops cut at invariants, exceptions, generators."""
import ast

from .smt import (T, TRUE, FALSE, I, R, NOT, AND, OR, IMP, ITE, EQ, ADD, SUB, MUL, NEG, CMP, to_real, lit_int)
from .sym import (SV, Num, Bool, NoneV, NONE, Str, Opaque, Tup, Ref, View, Fun, ExcV, Module, Sentinel,
                  LstCell, PyListCell, ValCell, PyDictCell, ObjCell, IterCell, State)


def U(msg):
    from .interp import Unsupported
    return Unsupported(msg)


NOOP_CALLS = {"print", "warn"}


def drain(ip):
    out = [("raise", s, e) for s, e in ip._exc_out]
    ip._exc_out = []
    return out


def exec_block(ip, stmts, st):
    """returns a list of outcomes (kind, state, payload), kind in next/return/raise/break/continue"""
    outs = []
    states = [st]
    for s in stmts:
        if st.depth == 0 and ip.c is not None and ip.c.ghost.get("opaque_regions") and not ip.spec_mode:
            from .vmembers import opaque_region_at
            reg_ = opaque_region_at(ip, stmts, s)
            if reg_ is not None:
                from .vmembers import run_opaque_region
                for x in states:
                    outs += run_opaque_region(ip, reg_, stmts[stmts.index(s):], x)
                return outs
        nxt = []
        for x in states:
            for kind, s2, payload in exec_stmt(ip, s, x):
                if kind == "next":
                    nxt.append(s2)
                else:
                    outs.append((kind, s2, payload))
        states = nxt
        if len(states) + len(outs) > ip.max_paths:
            raise U("path explosion (> %d paths)" % ip.max_paths)
        if not states:
            break
    return outs + [("next", x, None) for x in states]


def exec_stmt(ip, s, st):
    m = globals().get("st_" + type(s).__name__)
    if m is None:
        raise U("statement " + type(s).__name__)
    res = m(ip, s, st)
    return res + drain(ip)


def st_Pass(ip, s, st):
    return [("next", st, None)]


def st_Global(ip, s, st):
    return [("next", st, None)]


st_Nonlocal = st_Global


def st_Import(ip, s, st):
    for a in s.names:
        if a.asname:
            st.env[a.asname] = Module(a.name)
        else:
            st.env[a.name.split(".")[0]] = Module(a.name.split(".")[0])
    return [("next", st, None)]


def st_ImportFrom(ip, s, st):
    base = s.module or ""
    if s.level and ip.mod is not None:
        parts = ip.mod.pkg.split(".")
        if s.level > 1:
            parts = parts[:-(s.level - 1)]
        base = ".".join(parts + ([s.module] if s.module else []))
    for a in s.names:
        st.env[a.asname or a.name] = ip.world.module_attr(base, a.name, ip)
    return [("next", st, None)]


def st_FunctionDef(ip, s, st):
    if ip.c is not None and st.depth == 0:
        # a nested def that has a contract of its own (qualname Outer.inner) is called through that contract
        k = ip.contracts.by_key.get((ip.c.file, ip.c.qual + "." + s.name))
        if k is not None and not k.inline:
            st.env[s.name] = Fun("contract", contract=k)
            return [("next", st, None)]
    f = Fun("def", node=s, env=st.env)     # late binding: the closure sees the live environment dict snapshot
    f.env = dict(st.env)
    st.env[s.name] = f
    return [("next", st, None)]


def st_ClassDef(ip, s, st):
    """a class statement inside a function: executing it only binds the name when the class has no bases, keywords or
    decorators and its body consists of method definitions (and a docstring) -- nothing runs, nothing else changes.
    The class itself is opaque: instantiating it or reading its attributes is out-of-subset (call_value / getattr_
    refuse a Fun of kind `localclass`)."""
    if s.bases or s.keywords or s.decorator_list:
        raise U("local class statement with bases / keywords / decorators")
    for b in s.body:
        if isinstance(b, ast.FunctionDef) and not b.decorator_list:
            continue
        if isinstance(b, ast.Expr) and isinstance(b.value, ast.Constant):
            continue
        if isinstance(b, ast.Pass):
            continue
        raise U("local class statement whose body is not only method definitions")
    st.env[s.name] = Fun("localclass", node=s)
    return [("next", st, None)]


def st_Expr(ip, s, st):
    v = s.value
    if isinstance(v, ast.Constant):
        return [("next", st, None)]           # docstring / bare constant: dropped (DESIGN 2.5)
    if isinstance(v, ast.Yield):
        return do_yield(ip, v, st)
    if isinstance(v, ast.Call):
        fn = v.func
        nm = fn.id if isinstance(fn, ast.Name) else fn.attr if isinstance(fn, ast.Attribute) else None
        if nm in NOOP_CALLS:
            return [("next", st, None)]       # print / warnings.warn: dropped (DESIGN 2.5)
    return [("next", s2, None) for s2, _ in ip.ev(v, st)]


def do_yield(ip, y, st):
    outs = []
    if ip.c is None or not ip.c.generator:
        raise U("yield in a function whose contract is not generator=True")
    results = ip.ev(y.value, st) if y.value is not None else [(st, NONE)]
    for s2, v in results:
        env = dict(ip.spec_env(s2))
        env["yielded"] = v          # the value handed to the consumer at this yield
        ip.in_at_yield = True       # `out` does not hold the value being yielded yet (is_fresh counts accordingly)
        try:
            for k, cl in enumerate(ip.c.at_yield):
                from .calls import eval_spec
                ip.emit("lazy", "at-yield#%d" % k, s2, eval_spec(ip, s2, env, cl, old=ip.entry))
        finally:
            ip.in_at_yield = False
        out = s2.env["out"]
        s2.notes["yc"] = ADD(s2.notes.get("yc", I(0)), I(1))        # ghost yield counter (spec form yield_count())
        if isinstance(s2.heap[out.cid], PyListCell):
            s2.heap[out.cid] = PyListCell(s2.heap[out.cid].items + [v])
            s2.notes["n_yields"] = s2.notes.get("n_yields", 0) + 1
            env = ip.spec_env(s2)
            for k, cl in enumerate(ip.c.abandon):
                from .calls import eval_spec
                ip.emit("abandon", "abandon#%d@yield" % k, s2, eval_spec(ip, s2, env, cl, old=ip.entry))
            suspend_havoc(ip, s2)
            outs.append(("next", s2, None))
            outs += abandon_here(ip, s2)
            continue
        if type(s2.heap[out.cid]).__name__ == "StructLstCell":
            # generator yielding tuples of a declared shape: one ghost list per component (histlib)
            from .histlib import struct_append
            s2.heap[out.cid] = struct_append(ip, s2, s2.heap[out.cid], v)
        else:
            t = ip.deref(s2, out)
            from .builtins_ import elem_term
            vt = elem_term(ip, s2, ip.to_yield_value(s2, v), ip.reg.lst_elem[t.sort])
            ip.store(s2, out, ip.reg.l_append(t, vt))
        s2.notes["n_yields"] = s2.notes.get("n_yields", 0) + 1
        env = ip.spec_env(s2)
        for k, cl in enumerate(ip.c.abandon):
            from .calls import eval_spec
            ip.emit("abandon", "abandon#%d@yield" % k, s2, eval_spec(ip, s2, env, cl, old=ip.entry))
        suspend_havoc(ip, s2)
        outs.append(("next", s2, None))
        outs += abandon_here(ip, s2)
    return outs


def suspend_havoc(ip, st):
    """Contract(ghost={"suspended_changes": ["self.field", ...]}): while a generator is suspended at a yield other code
    runs and may re-bind these fields of a SHARED object (an element re-used by a second pipeline gets a new static
    context, ...); on resumption (and on abandonment) each listed field holds a value nothing is known about.  Loops that
    contain a yield must list the same fields in LoopSpec(havoc=[...]) -- the syntactic loop havoc does not see them."""
    names = (ip.c.ghost.get("suspended_changes") if ip.c is not None else None) or ()
    if not names or st.depth:
        return
    from .sym import ObjCell
    for nm in names:
        base, _, field = nm.partition(".")
        obj = st.env.get(base)
        if not (isinstance(obj, Ref) and isinstance(st.heap.get(obj.cid), ObjCell)) or not field or "." in field:
            raise U("suspended_changes: %s is not a field of an object parameter" % nm)
        cell = st.heap[obj.cid]
        cs = ip.contracts.classes.get(cell.cls)
        if cs is None or field not in cs.fields:
            raise U("suspended_changes: %s has no declared type" % nm)
        fields = dict(cell.fields)
        fields[field] = ip.make(cs.fields[field], "%s@resume" % nm, st)
        st.heap[obj.cid] = ObjCell(cell.cls, fields)
    ip.assumptions.add("re-entrancy: only the fields %s change while %s is suspended at a yield" % (", ".join(names), ip.c.name))


def abandon_here(ip, st):
    """the consumer stops at this yield (stops iterating, or raises downstream): GeneratorExit is raised at the yield and
    travels through the enclosing try/finally blocks; explored when the contract states `on_abandon` clauses"""
    if not getattr(ip.c, "on_abandon", None) or st.depth:
        return []
    a = st.fork(None, "abandon.")
    return [("raise", a, ExcV("GeneratorExit"))]


def st_Assign(ip, s, st):
    outs = []
    if (ip.c is not None and len(s.targets) == 1 and isinstance(s.targets[0], ast.Name) and st.depth == 0
            and s.targets[0].id not in ip.c.abstract and any(k.startswith(s.targets[0].id + "@") for k in ip.c.abstract)):
        # Contract.abstract key "name@k": only the k-th plain assignment `name = ...` of the function (source order)
        name = s.targets[0].id
        sites = sorted((n for n in ast.walk(ip.cur_fn) if isinstance(n, ast.Assign) and len(n.targets) == 1
                        and isinstance(n.targets[0], ast.Name) and n.targets[0].id == name),
                       key=lambda n: (n.lineno, n.col_offset))
        key = "%s@%d" % (name, [id(n) for n in sites].index(id(s))) if any(n is s for n in sites) else None
        if key in ip.c.abstract:
            ty, constraint = ip.c.abstract[key]
            v = ip.make(ty, name, st)
            st.env[name] = v
            from .calls import eval_spec
            st.assume(eval_spec(ip, st, st.env, constraint))
            ip.assumptions.add("abstract clause: assignment #%s to local `%s` of %s havocked under: %s"
                               % (key.split("@")[1], name, ip.c.name, constraint))
            return [("next", st, None)]
    if (ip.c is not None and len(s.targets) == 1 and isinstance(s.targets[0], ast.Name)
            and s.targets[0].id in ip.c.abstract and st.depth == 0):
        name = s.targets[0].id
        ty, constraint = ip.c.abstract[name]
        v = ip.make(ty, name, st)
        st.env[name] = v
        from .calls import eval_spec
        st.assume(eval_spec(ip, st, st.env, constraint))
        ip.assumptions.add("abstract clause: local `%s` of %s havocked under: %s" % (name, ip.c.name, constraint))
        return [("next", st, None)]
    if (ip.c is not None and len(s.targets) == 1 and isinstance(s.targets[0], ast.Name) and st.depth == 0
            and s.targets[0].id in getattr(ip.c, "local_types", {}) and isinstance(s.value, ast.List) and not s.value.elts):
        # `name = []` of a local with a declared element type: an empty list of symbolic-length kind (so that a loop
        # can append to it); exactly the value python creates -- only its representation differs
        from .interp import parse_type
        head, args = parse_type(ip.c.local_types[s.targets[0].id])
        if head != "Lst":
            raise U("local_types: only Lst[...] is supported")
        t = ip.reg.l_empty_canonical(ip.lst_sort(args[0]))
        st.env[s.targets[0].id] = ip.new_cell(st, LstCell(t))
        return [("next", st, None)]
    if (ip.c is not None and len(s.targets) == 1 and isinstance(s.targets[0], ast.Name) and st.depth == 0
            and s.targets[0].id in getattr(ip.c, "local_types", {}) and isinstance(s.value, ast.DictComp)):
        from .iet import assign_dictcomp          # `name = {k: [] for k in <set of strings>}` (pyvc/iet.py)
        r = assign_dictcomp(ip, s, st)
        if r is not None:
            return r
    for s2, v in ip.ev(s.value, st):
        ok = True
        if (ip.c is not None and len(s.targets) == 1 and isinstance(s.targets[0], ast.Name) and st.depth == 0
                and getattr(ip.c, "local_types", {}).get(s.targets[0].id, "").startswith("PyList[")):
            from .lib_graph import retype_new_lists       # `name = [[] for _ in names]`: the new empty lists as Lst[T]
            retype_new_lists(ip, s2, st, v, ip.c.local_types[s.targets[0].id])
        for t in s.targets:
            for s3 in assign_to(ip, t, v, s2):
                outs.append(("next", s3, None))
            break
        if len(s.targets) > 1:
            raise U("chained assignment")
    return outs


def assign_to(ip, target, v, st):
    """returns list of states"""
    if getattr(v, "ephemeral", False) and not (isinstance(target, ast.Subscript) and isinstance(target.slice, ast.Slice)):
        # (lib_graph.map_symbolic: a lazy map object is modelled only where it is consumed at once)
        raise U("a lazy map object over a list of symbolic length is stored instead of being consumed at once")
    if isinstance(target, ast.Name):
        st.env[target.id] = v
        return [st]
    if isinstance(target, (ast.Tuple, ast.List)) and isinstance(v, Opaque) and v.sort == "V" and len(target.elts) == 2 \
            and ip.c is not None and ip.c.ghost.get("v_unpack_pair") and not any(isinstance(t, ast.Starred) for t in target.elts):
        # Contract(ghost={"v_unpack_pair": True}): `data, context = val` for an abstract flow value that IS a (data, context)
        # pair (obligation: v_has_context(val); what python does with a value of another shape is not modelled): the data
        # part and the value's own context object, exactly as lena.flow.get_data_context hands them out
        from .lib import value_context
        hc = ip.reg.ufun("v_has_context", ["V"], "Bool")
        cond = T("(%s %s)" % (hc, v.t.s), "Bool")
        if not ip.spec_mode:
            ip.emit("safety", "unpacked flow value is a (data, context) pair", st, cond)
        st.assume(cond)
        ip.assumptions.add("flow values of the abstract sort V: v_has_context(v) tells a (data, context) pair from bare data; "
                           "get_data_context / get_data / get_context of lena.flow.functions on V follow their docstrings")
        fd = ip.reg.ufun("vdata", ["V"], "V")
        parts = [Opaque(T("(%s %s)" % (fd, v.t.s), "V")), value_context(ip, st, v)]
        states = [st]
        for t, x in zip(target.elts, parts):
            states = [s3 for s2 in states for s3 in assign_to(ip, t, x, s2)]
        return states
    if isinstance(target, (ast.Tuple, ast.List)) and isinstance(v, Opaque) and v.sort == "V" \
            and ip.c is not None and ip.c.ghost.get("v_unpack") and not any(isinstance(t, ast.Starred) for t in target.elts):
        # Contract(ghost={"v_unpack": True}): an abstract flow value unpacked into n names is a sequence of n items, each
        # a function of the value (the ValueError / TypeError of a value of another shape is not modelled: assumption)
        n = len(target.elts)
        ip.assumptions.add("flow values: a value unpacked into %d names is a sequence of %d items (declared v_unpack)" % (n, n))
        states = [st]
        for k, t in enumerate(target.elts):
            f = ip.reg.ufun("v_unpack_%d_%d" % (n, k), ["V"], "V")
            x = Opaque(T("(%s %s)" % (f, v.t.s), "V"))
            states = [s3 for s2 in states for s3 in assign_to(ip, t, x, s2)]
        return states
    if isinstance(target, (ast.Tuple, ast.List)):
        view = ip.as_view(st, v)
        if view.items is None:
            items = [view.get(I(k)) for k in range(len(target.elts))]
            if not ip.spec_mode:
                ip.emit("safety", "unpack-length", st, EQ(view.len, I(len(target.elts))))
        else:
            items = view.items
            if len(items) != len(target.elts):
                raise U("unpacking %d values into %d targets" % (len(items), len(target.elts)))
        states = [st]
        for t, x in zip(target.elts, items):
            states = [s3 for s2 in states for s3 in assign_to(ip, t, x, s2)]
        return states
    if isinstance(target, ast.Attribute):
        res = []
        for s2, base in ip.ev(target.value, st):
            if isinstance(base, Ref) and isinstance(s2.heap[base.cid], ObjCell):
                cell = s2.heap[base.cid]
                sa = class_setattr(ip, cell.cls)
                if sa is not None:
                    # the class defines __setattr__: python calls it for EVERY attribute assignment (the contract of the
                    # method stands for it; none: out-of-subset)
                    if sa is True:
                        raise U("attribute store on an instance of %s, whose class defines __setattr__ (no contract)" % cell.cls)
                    from .calls import apply_contract
                    res += [s3 for s3, _ in apply_contract(ip, s2, sa, [base, Str(target.attr), v], {})]
                    continue
                fields = dict(cell.fields)
                fields[target.attr] = v
                s2.heap[base.cid] = ObjCell(cell.cls, fields)
                res.append(s2)
            else:
                raise U("attribute store on %r" % (base,))
        return res
    if isinstance(target, ast.Subscript):
        res = []
        if isinstance(target.slice, ast.Slice):
            from .lib_graph import slice_assign       # `xs[:] = iterable` on a list of numbers (else out-of-subset)
            return slice_assign(ip, target, v, st)
        for s2, (base, idx) in ip.ev_many([target.value, target.slice], st):
            res += store_item(ip, s2, base, idx, v)
        return res
    raise U("assignment target " + type(target).__name__)


def class_setattr(ip, cls):
    """None: neither the class nor a base (ClassSpec.bases) defines __setattr__ in its source; the contract of the method
    if there is one; True: defined, but not under contract"""
    k = ip.contracts.find_method(cls, "__setattr__")
    if k is not None:
        return k
    seen, todo = set(), [cls]
    while todo:
        c = todo.pop(0)
        if c in seen:
            continue
        seen.add(c)
        cs = ip.contracts.classes.get(c)
        if cs is None or not cs.file.endswith(".py") or cs.file.startswith("<"):
            continue
        real = cs.alias_of or c
        try:
            tree = ip.world.modctx(cs.file).tree
        except Exception:
            continue
        for n in tree.body:
            if isinstance(n, ast.ClassDef) and n.name == real:
                if any(isinstance(m, ast.FunctionDef) and m.name == "__setattr__" for m in n.body):
                    return True
                for b in n.bases:          # bases named in the source that have a ClassSpec
                    if isinstance(b, ast.Name) and b.id in ip.contracts.classes:
                        todo.append(b.id)
        todo += list(cs.bases)
    return None


def store_item(ip, s, base, idx, v):
    from .builtins_ import elem_term
    if isinstance(base, Ref) and type(s.heap[base.cid]).__name__ == "KeyMapCell":
        from .keymap import km_store_item
        return km_store_item(ip, s, base, idx, v)
    if isinstance(base, Ref):
        cell = s.heap[base.cid]
        if not isinstance(cell, ValCell):
            from .dicts import note_store
            note_store(ip, s, base, v)          # (val_store does it for dictionaries)
        if isinstance(cell, LstCell):
            t = ip.deref(s, base)
            n = ip.reg.l_len(t)
            i = ip.norm_index(ip.num(idx), n)
            s2 = ip.check_index(s, i, n)
            if s2 is None:
                return []
            ip.store(s2, base, ip.reg.l_set(t, i, elem_term(ip, s2, v, ip.reg.lst_elem[t.sort])))
            return [s2]
        if isinstance(cell, PyListCell):
            k = lit_int(ip.num(idx))
            if k is None:
                raise U("store at symbolic index of a concrete list")
            if not (-len(cell.items) <= k < len(cell.items)):
                if ip.may_catch(s, "IndexError"):
                    ip.raise_(s, "IndexError")
                else:
                    ip.emit("safety", "index-in-range", s, FALSE)
                return []
            items = list(cell.items)
            items[k] = v
            s.heap[base.cid] = PyListCell(items)
            return [s]
        if isinstance(cell, ValCell):
            from .dicts import val_store
            return val_store(ip, s, base, idx, v)
        if isinstance(cell, PyDictCell):
            if not isinstance(idx, Str):
                raise U("store at symbolic key of a concrete dict")
            items = dict(cell.items)
            items[idx.s] = v
            s.heap[base.cid] = PyDictCell(items)
            return [s]
    raise U("item store on %r" % (base,))


def st_AugAssign(ip, s, st):
    outs = []
    load = ast.copy_location(_as_load(s.target), s.target)
    for s2, (cur, v) in ip.ev_many([load, s.value], st):
        for s3, nv in ip.binop(s.op, cur, v, s2):
            if isinstance(s.target, ast.Subscript):
                # re-evaluating the target is side-effect free in the subset (names, attributes, indices)
                pass
            for s4 in assign_to(ip, s.target, nv, s3):
                outs.append(("next", s4, None))
    return outs


def _as_load(t):
    if isinstance(t, ast.Name):
        return ast.Name(id=t.id, ctx=ast.Load())
    if isinstance(t, ast.Attribute):
        return ast.Attribute(value=t.value, attr=t.attr, ctx=ast.Load())
    if isinstance(t, ast.Subscript):
        return ast.Subscript(value=t.value, slice=t.slice, ctx=ast.Load())
    raise U("augmented assignment target")


def st_Return(ip, s, st):
    if s.value is None:
        return [("return", st, NONE)]
    if isinstance(s.value, ast.GeneratorExp) and ip.c is not None and ip.c.generator and st.depth == 0:
        return genexp_as_generator(ip, s, st)
    if ip.c is not None and ip.c.generator and st.depth == 0 and not has_own_yield(ip.cur_fn):
        return returned_iterator_as_generator(ip, s, st)
    return [("return", s2, v) for s2, v in ip.ev(s.value, st)]


def has_own_yield(fn):
    """is the function syntactically a generator (a yield of its own, not one of a nested def / lambda)?"""
    todo = list(fn.body)
    while todo:
        n = todo.pop()
        if isinstance(n, (ast.Yield, ast.YieldFrom)):
            return True
        if isinstance(n, (ast.FunctionDef, ast.Lambda, ast.ClassDef)):
            continue
        todo += list(ast.iter_child_nodes(n))
    return False


def returned_iterator_as_generator(ip, s, st):
    """`def f(..): return <expr>` (no yield in f) under a generator=True contract, <expr> evaluating to an iterator object
    (itertools.islice ...): the caller receives that very iterator.  A generator delegating to it (`for x in it: yield x`)
    delivers the same values with the same pulls from the inputs at each step, PROVIDED creating the iterator pulls
    nothing (checked: no iterator of the state is advanced by evaluating <expr>).  The delegation loop gets the ordinal
    after the function's own loops; its `_i` is the number of values delivered."""
    before = {cid: c.cursor.s for cid, c in st.heap.items() if isinstance(c, IterCell) and getattr(c, "kind", None) is None}
    cache = ip.__dict__.setdefault("_genexp_loops", {})
    loop = cache.get(id(s))
    if loop is None:
        loop = ast.For(target=ast.Name(id="$item", ctx=ast.Store()), iter=ast.Name(id="$ret", ctx=ast.Load()),
                       body=[ast.Expr(value=ast.Yield(value=ast.Name(id="$item", ctx=ast.Load())))], orelse=[])
        ast.copy_location(loop, s)
        ast.fix_missing_locations(loop)
        cache[id(s)] = loop
        ip.loop_ids[id(loop)] = len(ip.loop_ids)
    outs = []
    for s2, v in ip.ev(s.value, st):
        if not (isinstance(v, Ref) and isinstance(s2.heap.get(v.cid), IterCell)):
            raise U("generator=True contract of a function that returns %r" % (v,))
        for cid, cur in before.items():
            if s2.heap[cid].cursor.s != cur:
                raise U("the returned iterator is created by pulling from an iterator")
        s2.env["$ret"] = v
        for kind, s3, payload in exec_stmt(ip, loop, s2):
            outs.append(("return", s3, NONE) if kind == "next" else (kind, s3, payload))
    return outs


def genexp_as_generator(ip, s, st):
    """`def f(.., xs): return (elt for x in xs if cond)` under a generator=True contract: the generator object python
    returns behaves exactly like the one of `for x in xs: if cond: yield elt` PROVIDED nothing else runs at call time:
    the return must be the only statement of the function (after the docstring) and the iterable a plain parameter name
    (evaluating it and taking iter() of it -- eagerly, at the call -- has no effect on an iterator or a list).  The loop
    gets the ordinal after the function's own loops."""
    g = s.value
    body = [b for b in ip.cur_fn.body if not (isinstance(b, ast.Expr) and isinstance(b.value, ast.Constant))]
    params = [a.arg for a in ip.cur_fn.args.args]
    if len(body) != 1 or body[0] is not s or len(g.generators) != 1 or g.generators[0].is_async \
            or not (isinstance(g.generators[0].iter, ast.Name) and g.generators[0].iter.id in params):
        raise U("returned generator expression: only `return (e for x in <parameter> if c)` as the whole body")
    cache = ip.__dict__.setdefault("_genexp_loops", {})
    loop = cache.get(id(s))
    if loop is None:
        gen = g.generators[0]
        inner = [ast.Expr(value=ast.Yield(value=g.elt))]
        for c in reversed(gen.ifs):
            inner = [ast.If(test=c, body=inner, orelse=[])]
        loop = ast.For(target=gen.target, iter=gen.iter, body=inner, orelse=[])
        ast.copy_location(loop, s)
        ast.fix_missing_locations(loop)
        cache[id(s)] = loop
        ip.loop_ids[id(loop)] = len(ip.loop_ids)
    outs = []
    for kind, s2, payload in exec_stmt(ip, loop, st):
        outs.append(("return", s2, NONE) if kind == "next" else (kind, s2, payload))
    return outs


def st_Break(ip, s, st):
    return [("break", st, None)]


def st_Continue(ip, s, st):
    return [("continue", st, None)]


def st_Assert(ip, s, st):
    outs = []
    for s2, v in ip.ev(s.test, st):
        c = ip.truth(s2, v)
        if ip.may_catch(s2, "AssertionError"):
            bad = s2.fork(NOT(c), "af.")
            ip.raise_(bad, "AssertionError")
        else:
            ip.emit("safety", "assert", s2, c)
        s2.assume(c)
        outs.append(("next", s2, None))
    return outs


def st_Delete(ip, s, st):
    states = [st]
    for t in s.targets:
        nxt = []
        for x in states:
            if isinstance(t, ast.Name):
                x.env.pop(t.id, None)
                nxt.append(x)
            elif isinstance(t, ast.Subscript):
                nxt += delete_item(ip, t, x)
            else:
                raise U("del of " + type(t).__name__)
        states = nxt
    return [("next", x, None) for x in states]


def delete_item(ip, t, st):
    res = []
    if isinstance(t.slice, ast.Slice):
        sl = t.slice
        if sl.lower is None and sl.step is None and sl.upper is not None:
            for s2, (base, hi) in ip.ev_many([t.value, sl.upper], st):
                if isinstance(base, Ref) and isinstance(s2.heap[base.cid], LstCell):
                    term = ip.deref(s2, base)
                    n = ip.reg.l_len(term)
                    h = ip.num(hi)
                    k = ITE(CMP("<", h, I(0)), I(0), ITE(CMP(">", h, n), n, h))     # non-negative upper bound
                    nt = ip.reg.new("del", term.sort)
                    s2.assume(EQ(ip.reg.l_len(nt), SUB(n, k)))
                    q = T("q%d" % next(ip.bound), "Int")
                    s2.assume(T("(forall ((%s Int)) (=> (and (<= 0 %s) (< %s %s)) (= %s %s)))" % (
                        q.s, q.s, q.s, SUB(n, k).s, ip.reg.l_get(nt, q).s, ip.reg.l_get(term, ADD(q, k)).s), "Bool"))
                    ip.store(s2, base, nt)
                    res.append(s2)
                else:
                    raise U("del slice of %r" % (base,))
            return res
        raise U("del with general slice")
    for s2, (base, idx) in ip.ev_many([t.value, t.slice], st):
        if isinstance(base, Ref) and isinstance(s2.heap[base.cid], LstCell):
            term = ip.deref(s2, base)
            n = ip.reg.l_len(term)
            i = ip.norm_index(ip.num(idx), n)
            s3 = ip.check_index(s2, i, n)
            if s3 is None:
                continue
            nt = ip.reg.new("del", term.sort)
            s3.assume(EQ(ip.reg.l_len(nt), SUB(n, I(1))))
            q = T("q%d" % next(ip.bound), "Int")
            s3.assume(T("(forall ((%s Int)) (! (=> (and (<= 0 %s) (< %s %s)) (= %s (ite (< %s %s) %s %s))) :pattern (%s)))" % (
                q.s, q.s, q.s, SUB(n, I(1)).s, ip.reg.l_get(nt, q).s, q.s, i.s, ip.reg.l_get(term, q).s,
                ip.reg.l_get(term, ADD(q, I(1))).s, ip.reg.l_get(nt, q).s), "Bool"))
            ip.store(s3, base, nt)
            res.append(s3)
            continue
        if isinstance(base, Ref) and isinstance(s2.heap[base.cid], ValCell):
            from .dicts import val_delete
            res += val_delete(ip, s2, base, idx)
        elif isinstance(base, Ref) and isinstance(s2.heap[base.cid], PyDictCell) and isinstance(idx, Str):
            cell = s2.heap[base.cid]
            if idx.s not in cell.items:
                ip.raise_(s2, "KeyError")
                continue
            items = dict(cell.items)
            del items[idx.s]
            s2.heap[base.cid] = PyDictCell(items)
            res.append(s2)
        else:
            raise U("del item of %r" % (base,))
    return res


def st_Raise(ip, s, st):
    if s.exc is None:
        cur = st.notes.get("cur_exc")
        if cur is None:
            raise U("bare raise outside handler")
        return [("raise", st, cur)]
    e = s.exc
    # the message arguments are dropped (DESIGN 2.5): only the class is kept
    if isinstance(e, ast.Call):
        outs = []
        for s2, f in ip.ev(e.func, st):
            if isinstance(f, Fun) and f.kind == "exc":
                outs.append(("raise", s2, ExcV(f.name)))
            elif isinstance(f, Fun) and f.kind == "unbound":
                outs.append(("raise", s2, ExcV("NameError")))
                ip.notes_unbound = getattr(ip, "notes_unbound", []) + [f.name]
            else:
                raise U("raise of %r" % (f,))
        return outs
    outs = []
    for s2, v in ip.ev(e, st):
        if isinstance(v, ExcV):
            outs.append(("raise", s2, v))
        elif isinstance(v, Fun) and v.kind == "exc":
            outs.append(("raise", s2, ExcV(v.name)))
        elif isinstance(v, Fun) and v.kind == "unbound":
            outs.append(("raise", s2, ExcV("NameError")))
        else:
            raise U("raise of %r" % (v,))
    return outs


def handler_classes(ip, h, st):
    if h.type is None:
        return ["BaseException"]
    nodes = h.type.elts if isinstance(h.type, ast.Tuple) else [h.type]
    names = []
    for n in nodes:
        v = ip.ev1(n, st)
        if isinstance(v, Fun) and v.kind == "exc":
            names.append(v.name)
        elif isinstance(v, Fun) and v.kind == "unbound":
            names.append("?unbound:" + v.name)
        elif isinstance(v, Fun) and v.kind == "external" and not v.mod.startswith("lena"):
            # an exception class of a third-party library (jinja2.exceptions.UndefinedError): it is no base class of any
            # builtin or lena exception, so it catches only what a library model raises under this very name
            names.append("ext:%s.%s" % (v.mod, v.name))
        else:
            raise U("except clause class %r" % (v,))
    return names


def st_Try(ip, s, st):
    if s.finalbody:
        # try/finally: the final block runs on every way out of the protected part (normal, return, break, continue,
        # exception -- and GeneratorExit at a yield when a generator is abandoned)
        inner = ast.Try(body=s.body, handlers=s.handlers, orelse=s.orelse, finalbody=[])
        ast.copy_location(inner, s)
        results = st_Try(ip, inner, st) if (s.handlers or s.orelse) else exec_block(ip, s.body, st)
        outs = []
        for kind, s2, payload in results:
            for k2, s3, p2 in exec_block(ip, s.finalbody, s2):
                if k2 == "next":
                    outs.append((kind, s3, payload))
                else:
                    outs.append((k2, s3, p2))       # the final block itself returns / raises: that wins
        return outs
    hcls = [handler_classes(ip, h, st) for h in s.handlers]
    flat = tuple(c for cl in hcls for c in cl if not c.startswith("?"))
    saved = st.catching
    st.catching = saved + flat
    outs = []
    for kind, s2, payload in exec_block(ip, s.body, st):
        s2.catching = saved
        if kind == "next":
            if s.orelse:
                outs += exec_block(ip, s.orelse, s2)
            else:
                outs.append((kind, s2, payload))
        elif kind == "raise":
            handled = False
            for h, classes in zip(s.handlers, hcls):
                for c in classes:
                    if c.startswith("?unbound:"):
                        # evaluating the except clause itself raises NameError (only when an exception reaches it)
                        outs.append(("raise", s2, ExcV("NameError")))
                        handled = True
                        break
                    if ip.is_subclass(payload.cls, c):
                        if h.name:
                            s2.env[h.name] = payload
                        prev = s2.notes.get("cur_exc")
                        s2.notes["cur_exc"] = payload
                        s2.trace += "x%s." % payload.cls[:6]
                        for k3, s3, p3 in exec_block(ip, h.body, s2):
                            s3.notes["cur_exc"] = prev
                            outs.append((k3, s3, p3))
                        handled = True
                        break
                if handled:
                    break
            if not handled:
                outs.append((kind, s2, payload))
        else:
            outs.append((kind, s2, payload))
    return outs


def st_If(ip, s, st):
    outs = []
    for s2, v in ip.ev(s.test, st):
        c = ip.truth(s2, v)
        if c.s == "true" or ip.known(s2, c):
            outs += exec_block(ip, s.body, s2)
        elif c.s == "false" or ip.known(s2, NOT(c)):
            outs += exec_block(ip, s.orelse, s2)
        else:
            outs += exec_block(ip, s.body, s2.fork(c, "T."))
            outs += exec_block(ip, s.orelse, s2.fork(NOT(c), "F."))
    return outs


def st_With(ip, s, st):
    from .lib import with_enter
    return with_enter(ip, s, st)


# --------------------------------------------------------------------------- iterators
def iter_next(ip, st, it, default=None):
    """next(it): list of (state, value); exhaustion -> StopIteration (or the default)"""
    if not (isinstance(it, Ref) and isinstance(st.heap[it.cid], IterCell)):
        raise U("next() of %r" % (it,))
    cell = st.heap[it.cid]
    if getattr(cell, "kind", None) is not None:
        from .lib import special_next
        return special_next(ip, st, it, cell, default)
    live = getattr(cell, "live", None)
    if live is not None:
        t = ip.deref(st, live)
        src = ip.lst_view(t)
    else:
        src = cell.src
    end = src.len if cell.limit is None else ITE(CMP("<", cell.limit, src.len), cell.limit, src.len)
    has = CMP("<", cell.cursor, end)
    outs = []
    if has.s != "true":
        ex = st.fork(NOT(has), "E.") if has.s != "false" else st
        if getattr(cell, "consumes", None):
            from .lib_run import consume_exact        # output of an abstract run consumed to the end
            consume_exact(ip, ex, it)
        if default is not None:
            outs.append((ex, default))
        elif ip.may_catch(ex, "StopIteration"):
            ip.raise_(ex, "StopIteration")
        else:
            ip.emit("safety", "next-on-nonempty", ex, FALSE)
        if has.s == "false":
            return outs
    ok = st.fork(has, "V.") if has.s != "true" else st
    val = src.get(cell.cursor)
    nc = IterCell(cell.src, ADD(cell.cursor, I(1)), cell.name, cell.limit)
    for a in ("live", "upstream", "shared", "consumes"):
        if hasattr(cell, a):
            setattr(nc, a, getattr(cell, a))
    ok.heap[it.cid] = nc
    sync_shared(ip, ok, nc)
    if getattr(nc, "consumes", None):
        from .lib_run import consume_some
        consume_some(ip, ok, it)
    outs.append((ok, val))
    return outs


def sync_shared(ip, st, cell):
    """an islice shares its underlying iterator: what the slice takes is taken from the underlying one"""
    under = getattr(cell, "shared", None)
    if under is None:
        return
    ucell = st.heap[under.cid]
    nu = IterCell(ucell.src, cell.cursor, ucell.name, ucell.limit)
    for a in ("live", "upstream", "shared"):
        if hasattr(ucell, a):
            setattr(nu, a, getattr(ucell, a))
    st.heap[under.cid] = nu
    sync_shared(ip, st, nu)


# --------------------------------------------------------------------------- loops
def loop_ordinal(ip, node):
    # loops of helpers executed in place (inline contracts) have no ordinal of their own: they must unroll
    return ip.loop_ids.get(id(node), "inlined@%d" % node.lineno)


def mutated_roots(ip, body_nodes):
    """syntactic over-approximation of what a loop body changes: (names, root expressions)"""
    names, roots, yields, elem_state = set(), [], False, False
    deep = ip._dobj_deep_nodes = set()      # roots changed BELOW the object itself (`x[a][b] = ..`, `x[a].append(..)`): pyvc/dictobj.py

    def root_of(e):
        while isinstance(e, ast.Subscript):
            e = e.value
        return e
    for top in body_nodes:
        for n in ast.walk(top):
            if isinstance(n, (ast.Assign, ast.AugAssign, ast.AnnAssign, ast.For, ast.comprehension, ast.Delete, ast.withitem)):
                targets = []
                if isinstance(n, ast.Assign):
                    targets = n.targets
                elif isinstance(n, (ast.AugAssign, ast.AnnAssign, ast.For)):
                    targets = [n.target]
                elif isinstance(n, ast.Delete):
                    targets = n.targets
                elif isinstance(n, ast.withitem) and n.optional_vars is not None:
                    targets = [n.optional_vars]
                todo = list(targets)
                while todo:
                    t = todo.pop()
                    if isinstance(t, (ast.Tuple, ast.List)):
                        todo += t.elts
                    elif isinstance(t, ast.Name):
                        if not isinstance(n, ast.comprehension):
                            names.add(t.id)
                    elif isinstance(t, ast.Attribute):
                        roots.append(("field", t.value, t.attr))
                    elif isinstance(t, ast.Subscript):
                        roots.append(("content", root_of(t), "del" if isinstance(n, ast.Delete) else None))
                        if isinstance(t.value, ast.Subscript):
                            deep.add(id(root_of(t)))
            elif isinstance(n, ast.ExceptHandler) and n.name:
                names.add(n.name)
            elif isinstance(n, ast.Call):
                f = n.func
                if isinstance(f, ast.Attribute) and f.attr in MUTATORS_:
                    roots.append(("content", root_of(f.value), f.attr))
                    if isinstance(f.value, ast.Subscript):
                        deep.add(id(root_of(f.value)))
                if isinstance(f, ast.Attribute) and f.attr in ("fill", "reset", "request", "fill_into"):
                    elem_state = True
                if isinstance(f, ast.Name) and f.id in ("next", "list", "tuple", "zip", "islice", "deque") and n.args:
                    for a in n.args:
                        roots.append(("iter", a, None))
                if isinstance(f, ast.Attribute) and f.attr in ("islice", "deque", "chain") and n.args:
                    for a in n.args:
                        roots.append(("iter", a, None))
                roots.append(("call", n, None))
            elif isinstance(n, ast.For):
                roots.append(("iter", n.iter, None))
            elif isinstance(n, (ast.Yield, ast.YieldFrom)):
                yields = True
            elif isinstance(n, ast.FunctionDef):
                names.add(n.name)
    return names, roots, yields, elem_state


def rebinds_same_constant(body_nodes, name, cur):
    """every assignment to `name` in the loop body is a plain `name = <the same constant>` (or a def / lambda)"""
    for top in body_nodes:
        for n in ast.walk(top):
            targets = []
            if isinstance(n, ast.Assign):
                targets = n.targets
                value = n.value
            elif isinstance(n, (ast.AugAssign, ast.AnnAssign)):
                targets, value = [n.target], None
            elif isinstance(n, ast.For):
                targets, value = [n.target], None
            elif isinstance(n, ast.withitem) and n.optional_vars is not None:
                targets, value = [n.optional_vars], None
            elif isinstance(n, ast.ExceptHandler) and n.name == name:
                if not isinstance(cur, ExcV):
                    return False
                continue
            elif isinstance(n, ast.FunctionDef) and n.name == name:
                if not (isinstance(cur, Fun)):
                    return False
                continue
            else:
                continue
            for t in targets:
                hit = False
                for x in ast.walk(t):
                    if isinstance(x, ast.Name) and x.id == name:
                        hit = True
                if not hit:
                    continue
                if not (isinstance(t, ast.Name) and value is not None):
                    return False
                if isinstance(cur, NoneV):
                    if not (isinstance(value, ast.Constant) and value.value is None):
                        return False
                elif isinstance(cur, Str):
                    if not (isinstance(value, ast.Constant) and value.value == cur.s):
                        return False
                elif isinstance(cur, Fun):
                    if not isinstance(value, ast.Lambda):
                        return False
                elif isinstance(cur, (View, Sentinel, Module, ExcV)):
                    return False
    return True


MUTATORS_ = {"append", "extend", "pop", "insert", "update", "appendleft", "popleft", "clear", "remove", "sort",
             "reverse", "setdefault", "popitem"}
LENGTH_CHANGING = {"append", "extend", "pop", "insert", "appendleft", "popleft", "clear", "remove", "del"}


def other_refs(st, cid, but_name):
    """is the heap cell `cid` referenced from anywhere but the local variable `but_name`?"""
    def hit(v):
        if isinstance(v, Ref):
            return v.cid == cid
        if isinstance(v, Tup):
            return any(hit(x) for x in v.items)
        return False
    for n, v in st.env.items():
        if n != but_name and hit(v):
            return True
    for c2, cell in st.heap.items():
        if isinstance(cell, ObjCell) and any(hit(x) for x in cell.fields.values()):
            return True
        if isinstance(cell, PyListCell) and any(hit(x) for x in cell.items):
            return True
        if isinstance(cell, PyDictCell) and any(hit(x) for x in cell.items.values()):
            return True
        if isinstance(cell, IterCell) and (hit(getattr(cell, "live", None)) or hit(getattr(cell, "shared", None))):
            return True
    return False


def prov_fixpoint(ip, st, k, run):
    """a loop cut at its invariant is explored from its head; `is_deep_copy` provenance (State.notes['deep_copies']) is
    path information that a back edge would lose.  If some iteration path of loop #k taints a deep copy made before the
    loop, the loop is explored again with that object not counted as a deep copy at the head (sound: is_deep_copy only
    shrinks; the obligations of the abandoned exploration are dropped)."""
    def lost():
        return set(getattr(ip, "_prov_lost", {}).get(k, ()))
    lost0 = lost()
    nv, ne = len(ip.vcs), len(ip._exc_out)
    saved = st.copy()
    outs = run(st)
    new = lost() - lost0
    rounds = 0
    while new:
        rounds += 1
        if rounds > 4:
            raise U("ownership provenance of a loop does not stabilise")
        del ip.vcs[nv:]
        del ip._exc_out[ne:]
        st2 = saved.copy()
        st2.notes["deep_copies"] = set(st2.notes.get("deep_copies", ())) - lost()
        saved = st2.copy()
        before = lost()
        outs = run(st2)
        new = lost() - before
    return outs


ELEMENT_METHODS = ("run", "fill", "compute", "request", "reset", "__call__", "fill_into", "_set_context", "_get_context")


def havoc_loop(ip, node, h, spec, body_nodes):
    from .calls import havoc_value
    h.notes["dc_head_%s" % loop_ordinal(ip, node)] = frozenset(h.notes.get("deep_copies", ()))
    names, roots, yields, elem_state = mutated_roots(ip, body_nodes)
    names |= set(getattr(spec, "body_ghost", {}).keys())
    keep = set(spec.keep)
    # heap contents first (evaluated in the pre-havoc environment so that aliases resolve)
    pending = []
    for kind, e, attr in roots:
        if kind == "call":
            pending += call_frame(ip, e, h)
            if not elem_state and calls_element_state(ip, e, h):
                elem_state = True
            continue
        try:
            ip.spec_mode += 1
            try:
                v = ip.ev1(e, h)
            finally:
                ip.spec_mode -= 1
        except Exception:
            continue       # not evaluable before the loop (a loop-local): nothing of the outer state is reached
        if kind == "field":
            pending.append(("field", v, attr))
        elif kind == "content":
            pending.append(("content", v, (attr, e)))
        elif kind == "iter":
            if isinstance(v, Ref) and isinstance(h.heap[v.cid], IterCell):
                pending.append(("content", v, None))
    done = set()
    from . import dictobj
    deep_cids = dictobj.deep_cells(ip, h, pending, getattr(ip, "_dobj_deep_nodes", ()))
    # a list of CONCRETE length (a display such as `xs = []`) whose length the body may change: its shape at the loop
    # head is not the shape before the loop.  It must be given a symbolic-length type (LoopSpec.ghost = {"xs": "Lst[T]"}).
    grows = {}
    for kind, v, attr in pending:
        if kind == "content" and isinstance(attr, tuple) and attr[0] in LENGTH_CHANGING and isinstance(v, Ref) \
                and isinstance(h.heap[v.cid], PyListCell):
            grows.setdefault(v.cid, attr[1])
    for cid, e in grows.items():
        if not (isinstance(e, ast.Name) and e.id in spec.ghost and spec.ghost[e.id].startswith("Lst[")):
            raise U("the loop body changes the length of a list of concrete length (%s): declare it as Lst[...] in "
                    "Contract.local_types (or LoopSpec.ghost)" % (ast.unparse(e) if hasattr(ast, "unparse") else "list"))
        if other_refs(h, cid, e.id):
            raise U("the loop body changes the length of the concrete list `%s`, which is also reachable otherwise" % e.id)
        h.env[e.id] = ip.make(spec.ghost[e.id], e.id, h)
        done.add((cid, ()))
    for kind, v, attr in pending:
        if kind == "field":
            if isinstance(v, Ref) and isinstance(h.heap[v.cid], ObjCell):
                key = (v.cid, attr)
                if key in done or ("%s.%s" % ("self", attr)) in keep:
                    continue
                done.add(key)
                cell = h.heap[v.cid]
                cs = ip.contracts.classes.get(cell.cls)
                if cs is not None and attr in cs.fields:
                    nv = ip.make(cs.fields[attr], "%s.%s" % (cell.cls, attr), h)
                elif attr in cell.fields:
                    nv = havoc_value(ip, h, cell.fields[attr], attr)
                else:
                    continue
                f = dict(cell.fields)
                f[attr] = nv
                h.heap[v.cid] = ObjCell(cell.cls, f)
        else:
            if isinstance(v, Ref):
                key = (v.cid, v.path)
                if key in done:
                    continue
                done.add(key)
                cell = h.heap[v.cid]
                if isinstance(cell, ObjCell):
                    continue
                havoc_value(ip, h, v, "lh", deep=(v.cid in deep_cids))
    for n in sorted(names):
        if n in keep:
            continue
        if n in h.env:
            cur = h.env[n]
            if isinstance(cur, Ref):
                # rebinding a name that holds a reference: the new referent is unknown -> fresh content cell
                cell = h.heap[cur.cid]
                if isinstance(cell, LstCell):
                    t = ip.deref(h, cur)
                    nt = ip.reg.new(n, t.sort)
                    ip.assume_wf(h, nt)
                    h.env[n] = ip.new_cell(h, LstCell(nt))
                    # WHICH object the name refers to at the loop head is unknown (it may alias anything): reading it
                    # yields unknown content, writing through it is rejected (Interp.store)
                    h.notes["unknown_alias"] = set(h.notes.get("unknown_alias", ())) | {h.env[n].cid}
                elif isinstance(cell, ValCell) or (isinstance(cell, PyDictCell) and spec.ghost.get(n) == "Dict"):
                    # (a dictionary display before the loop -- `{}` -- that the loop re-binds to dictionary objects: declared
                    # in LoopSpec.ghost as "Dict"; at the head it is some dictionary object like any other)
                    h.env[n] = ip.new_cell(h, ValCell(ip.reg.new(n, "Val")))
                    h.notes["unknown_alias"] = set(h.notes.get("unknown_alias", ())) | {h.env[n].cid}
                elif isinstance(cell, IterCell):
                    # the name is re-bound to another iterator in the loop: unknown content, unknown position
                    if getattr(cell, "kind", None) is not None or getattr(cell, "live", None) is not None:
                        raise U("loop rebinds `%s` holding a special iterator" % n)
                    t0 = getattr(cell.src, "term", None)
                    sort = t0.sort if t0 is not None else ip.reg.lst("V")
                    nt = ip.reg.new(n + "$all", sort)
                    ip.assume_wf(h, nt)
                    cur0 = ip.reg.new(n + "$cur", "Int")
                    h.assume(CMP("<=", I(0), cur0))
                    h.assume(CMP("<=", cur0, ip.reg.l_len(nt)))
                    h.env[n] = ip.new_cell(h, IterCell(ip.lst_view(nt), cur0, name=None))
                else:
                    raise U("loop rebinds `%s` holding %s: give it a declared type via LoopSpec.ghost" % (n, type(cell).__name__))
            elif isinstance(cur, (Num, Bool, Opaque, Tup)):
                if n in spec.ghost:
                    h.env[n] = ip.make(spec.ghost[n], n, h)
                else:
                    h.env[n] = havoc_value(ip, h, cur, n)
            elif isinstance(cur, (Fun, Str, Module, Sentinel, View, ExcV, NoneV)):
                if n in spec.ghost:
                    h.env[n] = ip.make(spec.ghost[n], n, h)
                elif not rebinds_same_constant(body_nodes, n, cur):
                    # a name holding a constant (None, a string, a function) before the loop that the body may re-bind
                    # to something else: its value at the loop head is not known
                    raise U("loop re-binds `%s` (a constant before the loop) to other values: declare its type in "
                            "LoopSpec.ghost" % n)
                # closures / constants re-bound identically in each iteration keep their value
            else:
                raise U("havoc of local %s = %r" % (n, cur))
        elif n in spec.ghost:
            h.env[n] = ip.make(spec.ghost[n], n, h)
    if ip.c is not None and ip.c.ghost.get("call_count"):
        # ghost call counters (spec form call_count): earlier iterations made an unknown number of calls of every method
        for m in ELEMENT_METHODS:
            c0 = h.notes.get("cc_" + m, I(0))
            c1 = ip.reg.new("cc_" + m, "Int")
            h.assume(CMP(">=", c1, c0))
            h.notes["cc_" + m] = c1
    if yields:
        # ghost yield counter: earlier iterations yielded an unknown number of values
        yc0 = h.notes.get("yc", I(0))
        yc = ip.reg.new("yc", "Int")
        h.assume(CMP(">=", yc, yc0))
        h.notes["yc"] = yc
    if yields and "out" in h.env:
        if isinstance(h.heap[h.env["out"].cid], PyListCell):
            # heterogeneous yields (yields="Any"): what was yielded in earlier iterations is not tracked across the
            # loop head; contracts of such generators speak about each yield (`yielded`), not about `out`
            h.heap[h.env["out"].cid] = PyListCell([])
            h.notes["out_untracked"] = True
        else:
            havoc_value(ip, h, h.env["out"], "out")
    if elem_state and "$elst" in h.env:
        h.env["$elst"] = Opaque(ip.reg.new("elst", "(Array Obj St)"))
    extras = list(spec.havoc or [])
    if yields and ip.c is not None and ip.c.ghost.get("suspended_changes"):
        # fields other code may re-bind while the generator is suspended at a yield of this loop (see suspend_havoc)
        extras += [x for x in ip.c.ghost["suspended_changes"] if x not in extras]
    for extra in extras:
        from .calls import places_of
        kind, base, field = places_of(ip, h, h.env, extra)
        if kind == "field":
            cell = h.heap[base.cid]
            cs = ip.contracts.classes.get(cell.cls)
            f = dict(cell.fields)
            f[field] = ip.make(cs.fields[field], "%s.%s" % (cell.cls, field), h)
            h.heap[base.cid] = ObjCell(cell.cls, f)
        else:
            havoc_value(ip, h, base, "hx")
    dictobj.loop_head(ip, h)
    if ip.c is not None and ip.c.ghost.get("alias_store"):
        # (see Interp.store) every object that exists now may be the one a re-bound name refers to
        ep = dict(h.notes.get("alias_epoch", {}))
        for cid in h.notes.get("unknown_alias", ()):
            if cid not in ep and isinstance(h.heap.get(cid), ValCell):
                ep[cid] = getattr(ip, "n_cells", 0)
        h.notes["alias_epoch"] = ep


def calls_element_state(ip, call, h):
    """does this call of a loop body change the ghost state of an abstract element, whatever the callee is called: a bound
    method of an element stored in a field or a local (self._el_fill = el.fill; self._el_fill(v)), or a function under
    contract whose contract speaks about element states?  (calls spelled .fill / .reset / .request / .fill_into are
    recognised syntactically by mutated_roots)"""
    try:
        ip.spec_mode += 1
        try:
            fv = ip.ev1(call.func, h)
        finally:
            ip.spec_mode -= 1
    except Exception:
        return False
    if isinstance(fv, Fun) and fv.kind == "elem-method":
        return getattr(fv, "name", None) not in ("compute", "run", "__call__")
    if isinstance(fv, Fun) and fv.kind in ("contract", "bound"):
        c = fv.contract
        return any(k.ghost.get("elstate") for k in ([c] + list(c.cases or [])))
    return False


def call_frame(ip, call, h):
    """frame of a contracted callee invoked in a loop body, mapped to caller values"""
    f = call.func
    c = None
    selfv = None
    try:
        ip.spec_mode += 1
        try:
            fv = ip.ev1(f, h)
        finally:
            ip.spec_mode -= 1
    except Exception:
        return []
    if isinstance(fv, Fun) and fv.kind == "contract":
        c = fv.contract
    elif isinstance(fv, Fun) and fv.kind == "bound":
        c, selfv = fv.contract, fv.self_ref
    elif isinstance(fv, Fun) and fv.kind == "builtin" and fv.name == "next" and len(call.args) == 1 and not call.keywords:
        # next(obj) on an instance of a repository class is obj.__next__() (builtins_.call_builtin): that contract's frame
        try:
            ip.spec_mode += 1
            try:
                ov = ip.ev1(call.args[0], h)
            finally:
                ip.spec_mode -= 1
        except Exception:
            return []
        if isinstance(ov, Ref) and isinstance(h.heap.get(ov.cid), ObjCell):
            c = ip.contracts.find_method(h.heap[ov.cid].cls, "__next__")
            if c is None:
                return []
            if c.inline:
                raise U("next(obj) in a loop body: %s needs a contract with a `modifies` frame" % c.name)
            if c.cases:
                from .calls import select_case          # (the case that accepts this object, as at the call itself)
                c = select_case(ip, h.copy(), c, [ov], {})
            if not c.modifies:
                return []
            out = []
            for m in c.modifies:
                mn = ast.parse(m, mode="eval").body
                if not (isinstance(mn, ast.Attribute) and isinstance(mn.value, ast.Name)
                        and mn.value.id == list(c.params.keys())[0]):
                    raise U("next(obj) in a loop body: frame entry `%s` of %s is not a field of the object" % (m, c.name))
                out.append(("field", ov, mn.attr))
            return out
    if c is None or not c.modifies:
        return []
    out = []
    pnames = list(c.params.keys())
    argmap = {}
    args = list(call.args)
    if selfv is not None:
        argmap[pnames[0]] = selfv
        pnames = pnames[1:]
    for n, a in zip(pnames, args):
        if isinstance(a, ast.Starred):
            continue
        try:
            ip.spec_mode += 1
            try:
                argmap[n] = ip.ev1(a, h)
            finally:
                ip.spec_mode -= 1
        except Exception:
            pass
    for m in c.modifies:
        node = ast.parse(m, mode="eval").body
        if isinstance(node, ast.Attribute) and isinstance(node.value, ast.Name) and node.value.id in argmap:
            out.append(("field", argmap[node.value.id], node.attr))
        elif isinstance(node, ast.Name) and node.id in argmap:
            out.append(("content", argmap[node.id], None))
    return out


def check_invariants(ip, k, spec, st, kind):
    from .calls import eval_spec
    env = ip.spec_env(st)
    if "dobj_iterated_%s" % k in st.notes:
        from . import dictobj
        dictobj.check_iterated(ip, k, st)
    if kind == "preserve":
        # ownership provenance across the loop cut: a deep copy (made before the loop) into which this iteration stored
        # a possibly shared object is no deep copy at the loop head either (see prov_fixpoint)
        head = st.notes.get("dc_head_%s" % k)
        if head:
            now = st.notes.get("deep_copies", ())
            lost = {c for c in head if c in st.heap and c not in now}
            if lost:
                tab = dict(getattr(ip, "_prov_lost", {}))
                tab[k] = set(tab.get(k, ())) | lost
                ip._prov_lost = tab
    for j, inv in enumerate(spec.invariant):
        ip.emit("inv-" + kind, "loop#%s.%s#%d" % (k, kind, j), st, eval_spec(ip, st, env, inv, old=ip.entry))
    if getattr(spec, "cursor", None):
        from .dicts import check_cursors
        check_cursors(ip, k, spec, st, kind)


def assume_invariants(ip, spec, st):
    from .calls import eval_spec
    for nk in [n for n in st.notes if isinstance(n, str) and n.startswith("dobj_iterated_")]:
        from . import dictobj
        dictobj.check_iterated(ip, nk[len("dobj_iterated_"):], st)
    if getattr(spec, "cursor", None):
        from .dicts import set_cursors
        set_cursors(ip, spec, st)
    env = ip.spec_env(st)
    for inv in spec.invariant:
        st.assume(eval_spec(ip, st, env, inv, old=ip.entry))


def measure(ip, spec, st):
    if spec.decreases is None:
        return None
    ip.spec_mode += 1
    try:
        from .calls import spec_state
        node = ip.contracts_parse(spec.decreases)
        saved = ip.oldst
        ip.oldst = ip.entry
        try:
            return ip.num(ip.ev1(node, spec_state(st, ip.spec_env(st))))
        finally:
            ip.oldst = saved
    finally:
        ip.spec_mode -= 1


def end_of_body(ip, k, spec, st, m0):
    check_invariants(ip, k, spec, st, "preserve")
    if getattr(spec, "body_end", None):
        # LoopSpec.body_end: per-iteration postconditions (obligations only)
        from .calls import eval_spec
        env = ip.spec_env(st)
        for j, cl in enumerate(spec.body_end):
            ip.emit("iter-end", "loop#%s.iteration-end#%d" % (k, j), st, eval_spec(ip, st, env, cl, old=ip.entry), {"clause": cl})
    if m0 is not None:
        m1 = measure(ip, spec, st)
        ip.emit("decreases", "loop#%s.decreases" % k, st, AND(CMP("<", m1, m0), CMP(">=", m0, I(0) if m0.sort == "Int" else R(0))))


def st_While(ip, s, st):
    return prov_fixpoint(ip, st, loop_ordinal(ip, s), lambda x: st_While_(ip, s, x))


def st_While_(ip, s, st):
    if s.orelse:
        raise U("while/else")
    k = loop_ordinal(ip, s)
    spec = ip.loop_spec(k)
    if spec is None:
        return while_concrete(ip, s, st, k)
    ghost_init(ip, spec, st)
    check_invariants(ip, k, spec, st, "init")
    h = st.fork(None, "L%s:" % k)
    havoc_loop(ip, s, h, spec, s.body + [ast.Expr(value=s.test)])
    set_loop_ghost(ip, h, k, None)
    assume_invariants(ip, spec, h)
    h.notes["epoch_%s" % k] = getattr(ip, "n_cells", 0)
    m0 = measure(ip, spec, h)
    if m0 is None and not ip.c.trusted:
        ip.assumptions.add("termination of loop #%s of %s not proved (no decreases clause)" % (k, ip.c.name))
    outs = []
    for s2, v in ip.ev(s.test, h):
        c = ip.truth(s2, v)
        if c.s != "false":
            b = s2.fork(c, "")
            from . import dictobj
            dictobj.enter_body(ip, b)
            ghost_body(ip, spec, b)
            for kind, s3, payload in exec_block(ip, s.body, b):
                if kind in ("next", "continue"):
                    end_of_body(ip, k, spec, s3, m0)
                elif kind == "break":
                    dictobj.leave_body(ip, s3)
                    s3.trace += "B."
                    outs.append(("next", s3, None))
                else:
                    outs.append((kind, s3, payload))
        if c.s != "true":
            x = s2.fork(NOT(c), "X.") if c.s != "false" else s2
            outs.append(("next", x, None))
    return outs


def while_concrete(ip, s, st, k, cap=400):
    """a while loop without a spec whose test evaluates to the literal True / False in every state that reaches it (code
    running on concrete values, e.g. a parser over a string literal): executed iteration by iteration, exactly as python
    does.  A test that is not decided by the state, or more than `cap` iterations: out-of-subset, as before."""
    outs = []
    states = [st]
    ip.concrete_while = getattr(ip, "concrete_while", 0) + 1     # (== of two integer literals is decided, Interp.py_eq)
    try:
        for n in range(cap + 1):
            if not states:
                return outs
            if n == cap:
                break
            nxt = []
            for x in states:
                for s2, v in ip.ev(s.test, x):
                    c = ip.truth(s2, v)
                    if c.s == "false":
                        outs.append(("next", s2, None))
                        continue
                    if c.s != "true":
                        raise U("loop #%s (while) needs an invariant in the contract" % k)
                    s2.trace += "w%d." % n
                    for kind, s3, payload in exec_block(ip, s.body, s2):
                        if kind in ("next", "continue"):
                            nxt.append(s3)
                        elif kind == "break":
                            outs.append(("next", s3, None))
                        else:
                            outs.append((kind, s3, payload))
            states = nxt
    finally:
        ip.concrete_while -= 1
    raise U("loop #%s (while) without an invariant: more than %d concrete iterations" % (k, cap))


def ghost_init(ip, spec, st):
    """ghost variables of a loop: `init_ghost` is evaluated once before the loop"""
    from .calls import spec_state
    for name, expr in getattr(spec, "init_ghost", {}).items():
        ip.spec_mode += 1
        try:
            st.env[name] = ip.ev1(ip.contracts_parse(expr), spec_state(st, ip.spec_env(st)))
        finally:
            ip.spec_mode -= 1


def ghost_body(ip, spec, st):
    """`body_ghost` assignments run at the start of every iteration (after the loop test / the binding of the target)"""
    from .calls import spec_state
    for name, expr in getattr(spec, "body_ghost", {}).items():
        ip.spec_mode += 1
        try:
            st.env[name] = ip.ev1(ip.contracts_parse(expr), spec_state(st, ip.spec_env(st)))
        finally:
            ip.spec_mode -= 1


def set_loop_ghost(ip, st, k, i_term):
    if i_term is not None:
        st.env["_i"] = Num(i_term)
        st.env["_i%d" % k] = Num(i_term)


def st_For(ip, s, st):
    return prov_fixpoint(ip, st, loop_ordinal(ip, s), lambda x: st_For_(ip, s, x))


def st_For_(ip, s, st):
    if s.orelse:
        raise U("for/else")
    outs = []
    for s2, itv in ip.ev(s.iter, st):
        outs += for_over(ip, s, s2, itv)
    return outs


def for_over(ip, s, st, itv):
    k = loop_ordinal(ip, s)
    spec = ip.loop_spec(k)
    # ---- iterator objects (input flows, results of run(), islice ...)
    if isinstance(itv, Ref) and isinstance(st.heap[itv.cid], IterCell):
        cell = st.heap[itv.cid]
        if getattr(cell, "kind", None) is None and getattr(cell, "live", None) is None and cell.src.items is not None \
                and lit_int(cell.cursor) is not None and cell.limit is None and spec is None:
            items = cell.src.items[lit_int(cell.cursor):]
            st.heap[itv.cid] = IterCell(cell.src, I(len(cell.src.items)), cell.name, cell.limit)
            return unroll(ip, s, st, items)
        if spec is None:
            raise U("loop #%s (for over an iterator) needs an invariant" % k)
        return for_iterator(ip, s, st, itv, k, spec)
    # ---- live python list (may be mutated by the body): index semantics
    if isinstance(itv, Ref) and isinstance(st.heap[itv.cid], LstCell):
        if spec is None:
            raise U("loop #%s (for over a list of symbolic length) needs an invariant" % k)
        c = IterCell(None, I(0))
        c.live = itv
        it = ip.new_cell(st, c)
        return for_iterator(ip, s, st, it, k, spec, is_list=True)
    if ip.c is not None and ip.c.ghost.get("dict_objects") and (
            (isinstance(itv, Ref) and isinstance(st.heap[itv.cid], ValCell)) or (isinstance(itv, Opaque) and itv.sort == "Val")):
        # a context value that may be a list of strings (pyvc/dictobj.py): iterate the list (a snapshot of its items: the
        # body must not change the list, checked below) or, on the other path, the dictionary
        from . import dictobj
        from .dicts import dterm, for_dict
        vt = dterm(ip, st, itv)
        isl = dictobj.is_klist(ip, st, vt)
        outs = []
        if isl.s != "false":
            a = st.fork(isl, "lst.") if isl.s != "true" else st
            if spec is None:
                raise U("loop #%s (for over a list stored in a context) needs an invariant" % k)
            it = ip.new_cell(a, IterCell(dictobj.klist_view(ip, a, vt), I(0)))
            a.notes["dobj_iterated_%s" % k] = (itv, vt.s)
            outs += for_iterator(ip, s, a, it, k, spec, is_list=True)
        if isl.s != "true":
            if spec is None:
                raise U("loop #%s (for over a dict) needs an invariant" % k)
            b = st.fork(NOT(isl), "dct.")
            # (the invariants of a loop over a list may name the iteration counter: on the dictionary path it is an
            # arbitrary integer, the same at every cut)
            b.env["_i"] = b.env["_i%s" % k] = Num(ip.reg.new("_i_dict", "Int"))
            outs += for_dict(ip, s, b, itv, k, spec)
        return outs
    if isinstance(itv, Ref) and isinstance(st.heap[itv.cid], ValCell) or (isinstance(itv, Opaque) and itv.sort == "Val"):
        from .dicts import for_dict
        if spec is None:
            raise U("loop #%s (for over a dict) needs an invariant" % k)
        return for_dict(ip, s, st, itv, k, spec)
    if isinstance(itv, Ref) and not itv.path and type(st.heap[itv.cid]).__name__ == "KeyMapCell":
        itv = Fun("mapview", recv=itv, name="keys")          # `for k in m` over a dict of lists: its keys
    if isinstance(itv, Fun) and itv.kind == "mapview":
        from .keymap import for_keymap
        if spec is None:
            raise U("loop #%s (for over a dict of lists) needs an invariant" % k)
        return for_keymap(ip, s, st, itv, k, spec)
    if isinstance(itv, Fun) and itv.kind == "dictview":
        from .dicts import for_dict
        if spec is None:
            raise U("loop #%s (for over dict items) needs an invariant" % k)
        return for_dict(ip, s, st, itv.recv, k, spec, mode=itv.name)
    if isinstance(itv, Ref) and not itv.path and isinstance(st.heap[itv.cid], ObjCell):
        k_it = ip.contracts.find_method(st.heap[itv.cid].cls, "__iter__")
        if k_it is not None and k_it.inline:
            # the class's __iter__ is executed in place (it hands out an iterator over a sequence the object holds, e.g.
            # LenaSequence: `return self._seq.__iter__()`): the loop runs over what that iterator delivers
            from .builtins_ import instance_iter_view
            view = instance_iter_view(ip, st, itv)
            if view.items is not None:
                return unroll(ip, s, st, view.items)
            if spec is None:
                raise U("loop #%s (for over a sequence object of symbolic length) needs an invariant" % k)
            it = ip.new_cell(st, IterCell(view, I(0)))
            return for_iterator(ip, s, st, it, k, spec, is_list=True)
        from .lib_sib import for_object          # an instance of a repository class with __iter__ / __next__ contracts
        return for_object(ip, s, st, itv, k, spec)
    if isinstance(itv, Ref) and type(st.heap[itv.cid]).__name__ in ("PySetCell", "SymSetCell"):
        from .lib_graph import set_iteration_items          # a set of strings: its members in an unknown order
        return unroll(ip, s, st, set_iteration_items(ip, st, itv))
    if isinstance(itv, Opaque) and itv.sort == "Obj" and not ip.spec_mode:
        # iterating an abstract object is not modelled: such a path must be infeasible (obligation), it is not continued
        ip.emit("safety", "for over an abstract object: the path is infeasible (iterating it is not modelled)", st, FALSE)
        return []
    view = ip.as_view(st, itv)
    if view.items is not None:
        return unroll(ip, s, st, view.items)
    if spec is None:
        raise U("loop #%s (for over a sequence of symbolic length) needs an invariant" % k)
    it = ip.new_cell(st, IterCell(view, I(0)))
    return for_iterator(ip, s, st, it, k, spec, is_list=True)


def unroll(ip, s, st, items):
    outs = []
    states = [st]
    for idx, item in enumerate(items):
        nxt = []
        for x in states:
            for x2 in assign_to(ip, s.target, item, x):
                x2.trace += "u%d." % idx
                for kind, s3, payload in exec_block(ip, s.body, x2):
                    if kind in ("next", "continue"):
                        nxt.append(s3)
                    elif kind == "break":
                        outs.append(("next", s3, None))
                    else:
                        outs.append((kind, s3, payload))
        states = nxt
    return outs + [("next", x, None) for x in states]


def for_iterator(ip, s, st, it, k, spec, is_list=False):
    """for <target> in <iterator>: cut at the invariant; ghost `_i` = number of completed iterations"""
    set_loop_ghost(ip, st, k, I(0))
    st.notes["loop_it_%s" % k] = it
    ghost_init(ip, spec, st)
    check_invariants(ip, k, spec, st, "init")
    h = st.fork(None, "L%s:" % k)
    i_t = ip.reg.new("_i%d" % k, "Int")
    start_cell = h.heap[it.cid]
    havoc_loop(ip, s, h, spec, s.body)
    for tn in ast.walk(s.target):
        # a loop TARGET the code reads after the loop (`x_ind` leaking out of `for x_ind, x in ...`): declared in
        # LoopSpec.ghost, it holds at the loop head (hence at the exit) an unknown value of that type -- what it is after
        # i iterations is for the invariant to say (checked at the end of every iteration, where it is the item just bound)
        if isinstance(tn, ast.Name) and tn.id in spec.ghost:
            h.env[tn.id] = ip.make(spec.ghost[tn.id], tn.id, h)
    # the loop's own iterator advances with the ghost counter
    cell = h.heap[it.cid]
    if getattr(cell, "kind", None) is None:
        nc = IterCell(cell.src, ADD(start_cell.cursor, i_t), cell.name, cell.limit)
        for a in ("live", "upstream", "shared", "consumes"):
            if hasattr(start_cell, a):
                setattr(nc, a, getattr(start_cell, a))
        h.heap[it.cid] = nc
        sync_shared(ip, h, nc)
        if getattr(nc, "consumes", None):
            from .lib_run import consume_some        # earlier iterations: the abstract run pulled some of its input
            consume_some(ip, h, it)
    else:
        from .lib_flow import loop_head_special          # itertools.count / islice: their state after i deliveries
        loop_head_special(ip, h, it, start_cell, i_t)
    h.assume(CMP(">=", i_t, I(0)))
    hc = h.heap[it.cid]
    if getattr(hc, "kind", None) is None and getattr(hc, "live", None) is None and hc.src is not None:
        # an iterator never advances past the end of what it delivers
        h.assume(CMP("<=", hc.cursor, hc.src.len))
    elif getattr(hc, "live", None) is not None:
        # a list that the loop body provably does not touch (same term before and after the havoc): i <= len is inductive
        try:
            t_before, t_head = ip.deref(st, hc.live), ip.deref(h, hc.live)
            if t_before.s == t_head.s:
                h.assume(CMP("<=", hc.cursor, ip.reg.l_len(t_head)))
        except Exception:
            pass
    set_loop_ghost(ip, h, k, i_t)
    assume_invariants(ip, spec, h)
    m0 = measure(ip, spec, h)
    live = getattr(h.heap[it.cid], "live", None)
    if live is not None and m0 is None:
        ip.assumptions.add("termination of loop #%s of %s over a list it may extend is not proved" % (k, ip.c.name))
    outs = []
    n_exc = len(ip._exc_out)
    saved_catch = h.catching
    h.catching = saved_catch + ("StopIteration",)
    if ip.c is not None and getattr(ip.c, "upstream_raises", False) and getattr(h.heap[it.cid], "name", None):
        # the producer of the input flow (an upstream element) raises while the next value is pulled
        up = h.fork(None, "upraise.")
        up.catching = saved_catch
        ip._exc_out.append((up, ExcV("UpstreamError")))
    results = iter_next(ip, h, it)
    # exhaustion -> loop exit
    new_exc = ip._exc_out[n_exc:]
    ip._exc_out = ip._exc_out[:n_exc]
    for sx, exc in new_exc:
        sx.catching = saved_catch
        if exc.cls == "StopIteration":
            sx.trace += "X."
            sx.notes["inloop_%s" % k] = False
            for gname, gexpr in getattr(spec, "exit_ghost", {}).items():
                # LoopSpec.exit_ghost: ghost names bound when the loop ends normally (exhausted iterator)
                from .calls import spec_state
                ip.spec_mode += 1
                try:
                    sx.env[gname] = ip.ev1(ip.contracts_parse(gexpr), spec_state(sx, ip.spec_env(sx)))
                finally:
                    ip.spec_mode -= 1
            outs.append(("next", sx, None))
        else:
            ip._exc_out.append((sx, exc))
    for s2, val in results:
        s2.catching = saved_catch
        s2.notes["epoch_%s" % k] = getattr(ip, "n_cells", 0)
        s2.notes["inloop_%s" % k] = True
        from . import dictobj
        dictobj.enter_body(ip, s2)
        for s3 in assign_to(ip, s.target, val, s2):
            ghost_body(ip, spec, s3)
            for kind, s4, payload in exec_block(ip, s.body, s3):
                if kind in ("next", "continue"):
                    set_loop_ghost(ip, s4, k, ADD(i_t, I(1)))
                    end_of_body(ip, k, spec, s4, m0)
                elif kind == "break":
                    dictobj.leave_body(ip, s4)
                    s4.trace += "B."
                    s4.notes["inloop_%s" % k] = False
                    outs.append(("next", s4, None))
                else:
                    outs.append((kind, s4, payload))
    return outs
