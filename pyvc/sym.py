"""Symbolic values, heap cells and execution state of the pyvc symbolic executor."""
from .smt import T, TRUE, FALSE, I, AND, NOT, EQ


class SV(object):
    """base of symbolic values"""
    pass


class Num(SV):
    def __init__(self, term):
        assert term.sort in ("Int", "Real"), term.sort
        self.t = term

    @property
    def sort(self):
        return self.t.sort

    def __repr__(self):
        return "Num(%s)" % self.t


class Bool(SV):
    def __init__(self, term):
        assert term.sort == "Bool", (term, term.sort)
        self.t = term

    def __repr__(self):
        return "Bool(%s)" % self.t


class NoneV(SV):
    def __repr__(self):
        return "NoneV"


NONE = NoneV()


class Str(SV):
    """concrete python string"""

    def __init__(self, s):
        self.s = s

    def __repr__(self):
        return "Str(%r)" % self.s


class Opaque(SV):
    """term of an uninterpreted / datatype sort: V (flow value), Obj (element), Key, Val, St"""

    def __init__(self, term):
        self.t = term

    @property
    def sort(self):
        return self.t.sort

    def __repr__(self):
        return "Opaque(%s:%s)" % (self.t, self.t.sort)


class Padded(SV):
    """an item of a row of itertools.zip_longest: the flow value `t` (sort V) if `present`, else the fill value None.
    Only `== <flow value>`, `== None` and `is None` are defined on it (Interp.py_eq / py_is); anything else is refused."""

    def __init__(self, present, term):
        assert present.sort == "Bool" and term.sort == "V"
        self.present, self.t = present, term

    def __repr__(self):
        return "Padded(%s ? %s : None)" % (self.present, self.t)


class Tup(SV):
    def __init__(self, items):
        self.items = list(items)

    def __repr__(self):
        return "Tup(%r)" % (self.items,)


class Ref(SV):
    """reference to a heap cell (optionally to a nested position inside it)"""

    def __init__(self, cid, path=()):
        self.cid, self.path = cid, tuple(path)

    def __repr__(self):
        return "Ref(%s%s)" % (self.cid, "".join("[%s]" % p for p in self.path))


class Seg(object):
    """a symbolic stretch of a reference path into a nested dictionary: the keys arr[lo], ..., arr[hi-1] (arr: term of
    sort (Array Int Key)).  Ref(cid, (Seg(arr, 0, n),)) is the object reached from the root by following them."""

    def __init__(self, arr, lo, hi):
        self.arr, self.lo, self.hi = arr, lo, hi

    def __eq__(self, other):
        return isinstance(other, Seg) and (self.arr.s, self.lo.s, self.hi.s) == (other.arr.s, other.lo.s, other.hi.s)

    def __hash__(self):
        return hash((self.arr.s, self.lo.s, self.hi.s))

    def __repr__(self):
        return "%s[%s:%s]" % (self.arr.s[:30], self.lo.s, self.hi.s)


class View(SV):
    """immutable symbolic sequence: length term + element getter (index term -> SV).
    `items` is set when the length is concrete (a python list of SV)."""

    def __init__(self, length, getter, items=None, lazy=False):
        self.len, self.get, self.items, self.lazy = length, getter, items, lazy

    def __repr__(self):
        return "View(len=%s)" % self.len


class Fun(SV):
    """callable value.  kind: 'lambda' (node, env, owner), 'def' (node, env), 'bound' (name, self ref),
    'contract' (Contract), 'builtin' (name), 'elem-method' (elem term, name), 'class' (name)"""

    def __init__(self, kind, **kw):
        self.kind = kind
        self.__dict__.update(kw)

    def __repr__(self):
        return "Fun(%s)" % self.kind


class ExcV(SV):
    def __init__(self, cls, args=()):
        self.cls, self.args = cls, args

    def __repr__(self):
        return "ExcV(%s)" % self.cls


class Module(SV):
    """a module / package object (attribute access resolves names statically)"""

    def __init__(self, name):
        self.name = name

    def __repr__(self):
        return "Module(%s)" % self.name


class Sentinel(SV):
    """module-level `object()` sentinels such as _SENTINEL / _sentinel: only identity matters"""

    def __init__(self, name):
        self.name = name

    def __repr__(self):
        return "Sentinel(%s)" % self.name


# --------------------------------------------------------------------------- heap cells (immutable records)
class Cell(object):
    pass


class LstCell(Cell):
    """python list with symbolic length: term of a Lst_* sort"""

    def __init__(self, term):
        self.term = term

    def __repr__(self):
        return "LstCell(%s)" % self.term


class PyListCell(Cell):
    """python list / deque with concrete length: python list of SV"""

    def __init__(self, items):
        self.items = list(items)

    def __repr__(self):
        return "PyListCell(%r)" % (self.items,)


class ValCell(Cell):
    """nested dict (context) root: term of sort Val"""

    def __init__(self, term):
        self.term = term


class PyDictCell(Cell):
    """dict with concrete string keys -> SV"""

    def __init__(self, items):
        self.items = dict(items)


class ObjCell(Cell):
    def __init__(self, cls, fields):
        self.cls, self.fields = cls, dict(fields)

    def __repr__(self):
        return "ObjCell(%s,%r)" % (self.cls, self.fields)


class IterCell(Cell):
    """iterator over a sequence view: cursor term.  `src` is a View; name is the ghost name"""

    def __init__(self, src, cursor, name=None, limit=None):
        self.src, self.cursor, self.name, self.limit = src, cursor, name, limit


class State(object):
    def __init__(self, env=None, heap=None, pc=None, trace="", catching=(), depth=0):
        self.env = dict(env or {})
        self.heap = dict(heap or {})
        self.pc = list(pc or [])
        self.trace = trace
        self.catching = tuple(catching)
        self.depth = depth
        self.notes = {}

    def copy(self):
        s = State(self.env, self.heap, self.pc, self.trace, self.catching, self.depth)
        s.notes = dict(self.notes)
        return s

    def fork(self, cond, tag):
        s = self.copy()
        if cond is not None and cond.s != "true":
            s.pc.append(cond)
        s.trace += tag
        return s

    def assume(self, cond):
        if cond.s != "true":
            self.pc.append(cond)
